"""Generator of engines shared by C01 / C02 / C13: a JSON-able description, the real `fl.Engine` built from it and
its S-expression for the Lean engine model (`Drv/Engine.lean`).

Two families (DESIGN.md section 5, "no false alarms from rounding"):
* `exact`: every parameter, weight and input value is dyadic and every slope is a power of two, only + - * min max
  and squares occur -> float evaluation is exact, so the discontinuous norms (Drastic*, Nilpotent*), thresholds,
  ties and the maxima defuzzifiers are decided identically by the implementation and the exact model;
* `general`: all registered shape terms with random parameters, sqrt hedges, continuous norms only.
"""
from __future__ import annotations

import math

import fuzzylite as fl

CONT_T = ["Minimum", "AlgebraicProduct", "BoundedDifference", "EinsteinProduct", "HamacherProduct"]
DISC_T = ["DrasticProduct", "NilpotentMinimum"]
# HamacherSum is left out at engine level: (a+b-2ab)/(1-ab) is a 0/0 form near (1,1) and loses all digits in float
# there (C04 covers it with the fragile-point rule)
CONT_S = ["Maximum", "AlgebraicSum", "BoundedSum", "EinsteinSum", "NormalizedSum", "UnboundedSum"]
DISC_S = ["DrasticSum", "NilpotentMaximum"]
# norms whose float evaluation is exact on dyadic operands (no division)
EXACT_T = ["Minimum", "AlgebraicProduct", "BoundedDifference", "DrasticProduct", "NilpotentMinimum"]
EXACT_S = ["Maximum", "AlgebraicSum", "BoundedSum", "DrasticSum", "NilpotentMaximum", "UnboundedSum"]
EXACT_HEDGES = ["not", "very", "extremely", "any"]
ALL_HEDGES = ["not", "very", "extremely", "somewhat", "seldom", "any"]
MONOTONIC = ["Ramp", "SShape", "ZShape", "Concave", "Sigmoid", "Arc"]


def dy(rng, lo, hi, den):
    """dyadic k/den in [lo, hi]"""
    return rng.randint(int(lo * den), int(hi * den)) / den


def shape_term(rng, name, lo, hi, exact, classes=None):
    """returns (cls, params, height) valid for the range [lo, hi]"""
    w = hi - lo
    if exact:
        cls = rng.choice(classes or ["Triangle", "Trapezoid", "Ramp", "Rectangle", "Binary", "Triangle", "Ramp"])
        height = rng.choice([1.0, 1.0, 0.5, 0.25])
        step = rng.choice([w / 4, w / 2, w])          # power-of-two slopes (w is a power of two)
        a = lo + rng.randint(0, 3) * w / 4
        if cls == "Triangle":
            return cls, [a - step, a, a + step], height
        if cls == "Trapezoid":
            return cls, [a - step, a, a + step, a + 2 * step], height
        if cls == "Ramp":
            return (cls, [a, a + step], height) if rng.random() < 0.5 else (cls, [a + step, a], height)
        if cls == "Rectangle":
            return cls, [a, a + step], height
        if cls == "Binary":
            return cls, [a, rng.choice([math.inf, -math.inf])], height
    cls = rng.choice(classes or ["Triangle", "Trapezoid", "Ramp", "Rectangle", "Binary", "Gaussian", "Bell", "Sigmoid",
                                 "SShape", "ZShape", "PiShape", "Cosine", "Spike", "Concave", "GaussianProduct",
                                 "SigmoidDifference", "SigmoidProduct", "Arc", "SemiEllipse"])
    height = rng.choice([1.0, 1.0, 1.0, 0.5, round(rng.uniform(0.2, 1.0), 2)])
    p = sorted(round(rng.uniform(lo - 0.1 * w, hi + 0.1 * w), 3) for _ in range(4))
    for i in range(1, 4):                      # strictly increasing
        if p[i] <= p[i - 1]:
            p[i] = round(p[i - 1] + 0.01 * w, 5)
    c = round(rng.uniform(lo, hi), 3)
    wd = round(rng.uniform(0.1 * w, 0.6 * w), 3)
    if cls == "Triangle": return cls, p[:3], height
    if cls == "Trapezoid": return cls, p, height
    if cls in ("Ramp", "Arc"):
        return (cls, [p[0], p[2]], height) if rng.random() < 0.5 else (cls, [p[2], p[0]], height)
    if cls in ("Rectangle", "SemiEllipse", "SShape", "ZShape"): return cls, [p[0], p[2]], height
    if cls == "Binary": return cls, [c, rng.choice([math.inf, -math.inf])], height
    if cls == "Gaussian": return cls, [c, wd / 2], height
    if cls == "Bell": return cls, [c, wd / 2, float(rng.choice([1, 2, 3]))], height
    if cls == "Sigmoid": return cls, [c, round(rng.choice([-1, 1]) * rng.uniform(2, 20) / w, 3)], height
    if cls == "PiShape": return cls, p, height
    if cls in ("Cosine", "Spike"): return cls, [c, wd], height
    if cls == "Concave":
        return (cls, [p[0], p[2]], height) if rng.random() < 0.5 else (cls, [p[2], p[0]], height)
    if cls == "GaussianProduct": return cls, [p[1], wd / 3, p[2], wd / 2], height
    if cls in ("SigmoidDifference", "SigmoidProduct"):
        return cls, [p[0], round(rng.uniform(5, 20) / w, 3), round(rng.uniform(5, 20) / w, 3), p[2]], height
    raise AssertionError(cls)


def hedge_chain(rng, exact, n, allow_sqrt=True):
    """hedges of one proposition; in the general family at most one square-root hedge (somewhat / seldom) per chain and none
    on output-variable propositions: sqrt near 0 amplifies a 1e-16 rounding error to 1e-8, two of them to 1e-4"""
    if exact:
        return [rng.choice(EXACT_HEDGES[:3]) for _ in range(n)]
    hs, used = [], not allow_sqrt
    for _ in range(n):
        h = rng.choice(ALL_HEDGES[:5])
        if h in ("somewhat", "seldom"):
            if used:
                h = rng.choice(EXACT_HEDGES[:3])
            used = True
        hs.append(h)
    return hs


def gen_ante(rng, invars, outvars_avail, depth, exact):
    """returns nested antecedent: ["prop", var, hedges, term|None] | ["and"/"or", l, r]"""
    if depth > 0 and rng.random() < 0.55:
        return [rng.choice(["and", "or"]), gen_ante(rng, invars, outvars_avail, depth - 1, exact),
                gen_ante(rng, invars, outvars_avail, depth - 1, exact)]
    pool = invars + (outvars_avail if rng.random() < 0.35 else [])
    v = rng.choice(pool)
    hs = hedge_chain(rng, exact, rng.choice([0, 0, 0, 1, 1, 2, 3]), allow_sqrt="lock_previous" not in v)
    if rng.random() < 0.07:
        return ["prop", v["name"], hs + ["any"], None]
    return ["prop", v["name"], hs, rng.choice(v["terms"])["name"]]


def ante_text(a, parent=None, side=None, rng=None):
    if a[0] == "prop":
        words = [a[1], "is"] + list(a[2]) + ([a[3]] if a[3] is not None else [])
        return " ".join(words)
    l, r = ante_text(a[1], a[0], "l", rng), ante_text(a[2], a[0], "r", rng)
    s = f"{l} {a[0]} {r}"
    need = False
    if parent is not None:
        # `and` binds tighter than `or`; both left-associative
        if a[0] == "or" and parent == "and":
            need = True
        elif a[0] == parent and side == "r":
            need = True
        elif a[0] == "and" and parent == "or":
            need = False
    if need or (rng is not None and parent is not None and rng.random() < 0.25):
        glue = rng.choice(["(", "( "]) if rng is not None else "("
        glue2 = rng.choice([")", " )"]) if rng is not None else ")"
        return f"{glue}{s}{glue2}"
    return s


def gen_engine(rng, exact=None, activation="general", n_in=None, batch_ok=False, weighted=None):
    exact = rng.random() < 0.5 if exact is None else exact
    n_in = n_in or rng.randint(1, 3)
    inputs = []
    for i in range(n_in):
        lo, hi = rng.choice([(0.0, 1.0), (-1.0, 1.0), (0.0, 4.0), (-2.0, 2.0)])
        terms = []
        for j in range(rng.randint(2, 3)):
            if rng.random() < 0.12:
                terms.append(discrete_term(rng, f"i{i}t{j}", lo, hi, exact))
                continue
            cls, ps, h = shape_term(rng, f"t{j}", lo, hi, exact)
            terms.append({"name": f"i{i}t{j}", "kind": "shape", "cls": cls, "params": ps, "height": h})
        inputs.append({"name": f"in{i}", "enabled": rng.random() < 0.92, "min": lo, "max": hi, "lock_range": rng.random() < 0.2,
                       "terms": terms})
    outputs = []
    for o in range(rng.randint(1, 2)):
        lo, hi = rng.choice([(0.0, 1.0), (-1.0, 1.0), (0.0, 4.0)])
        is_w = (rng.random() < 0.4) if weighted is None else weighted
        terms = []
        if is_w:
            ts_kind = rng.choice(["ts", "ts", "tsukamoto"]) if not exact else "ts"
            for j in range(rng.randint(2, 3)):
                if ts_kind == "ts":
                    if rng.random() < 0.5:
                        terms.append({"name": f"o{o}t{j}", "kind": "constant", "value": dy(rng, -2, 2, 4)})
                    else:
                        cs = [dy(rng, -2, 2, 4) for _ in range(n_in + rng.choice([0, 1]))]
                        terms.append({"name": f"o{o}t{j}", "kind": "linear", "coeffs": cs})
                else:
                    cls, ps, h = shape_term(rng, "", lo, hi, False, classes=["Ramp", "SShape", "ZShape", "Concave", "Sigmoid"])
                    terms.append({"name": f"o{o}t{j}", "kind": "shape", "cls": cls, "params": ps, "height": h})
            defuzz = {"kind": rng.choice(["WeightedAverage", "WeightedSum"]),
                      "type": rng.choice(["Automatic", "Automatic", "TakagiSugeno" if ts_kind == "ts" else "Tsukamoto"])}
            agg = rng.choice([None, None] + (EXACT_S if exact else CONT_S))
        else:
            for j in range(rng.randint(2, 3)):
                if rng.random() < 0.12:
                    terms.append(discrete_term(rng, f"o{o}t{j}", lo, hi, exact))
                    continue
                cls, ps, h = shape_term(rng, "", lo, hi, exact)
                terms.append({"name": f"o{o}t{j}", "kind": "shape", "cls": cls, "params": ps, "height": h})
            kinds = ["Centroid", "Centroid", "MeanOfMaximum", "SmallestOfMaximum", "LargestOfMaximum"] if exact else ["Centroid"]
            defuzz = {"kind": rng.choice(kinds), "resolution": rng.choice([4, 8, 16, 32] if exact else [5, 10, 20, 37])}
            agg = rng.choice(EXACT_S[:5] if exact else CONT_S[:5])
        dv = rng.choice([math.nan, math.nan, (lo + hi) / 2, hi + 1.0])
        outputs.append({"name": f"out{o}", "enabled": rng.random() < 0.92, "min": lo, "max": hi,
                        "lock_range": rng.random() < 0.3, "lock_previous": rng.random() < 0.3, "default": dv,
                        "aggregation": agg, "defuzzifier": defuzz, "terms": terms})
    blocks = []
    for b in range(rng.randint(1, 2)):
        if activation == "general":
            act = {"cls": "General"}
        else:
            cls = rng.choice(["General", "First", "Last", "Highest", "Lowest", "Proportional", "Threshold"])
            act = {"cls": cls}
            if cls in ("First", "Last"):
                act.update(n=rng.randint(0, 3), threshold=rng.choice([0.0, 0.25, 0.5, 0.1]))
            if cls in ("Highest", "Lowest"):
                act.update(n=rng.randint(0, 3))
            if cls == "Threshold":
                act.update(cmp=rng.choice(["<", "<=", "==", "!=", ">=", ">"]), threshold=rng.choice([0.0, 0.25, 0.5, 1.0]))
        rules = []
        for r in range(rng.randint(1, 4)):
            avail = outputs if (b > 0 or r > 0) else []
            ante = gen_ante(rng, inputs, [o for o in avail if o["terms"]], rng.choice([0, 1, 1, 2, 3]), exact)
            concls = []
            for _ in range(rng.choice([1, 1, 2])):
                ov = rng.choice(outputs)
                hs = hedge_chain(rng, exact, rng.choice([0, 0, 0, 1, 2]), allow_sqrt=False)   # a sqrt hedge here would compose with one in the antecedent
                concls.append({"var": ov["name"], "hedges": hs, "term": rng.choice(ov["terms"])["name"]})
            w = rng.choice([1.0, 1.0, 0.5, 0.25, 0.75])
            rules.append({"enabled": rng.random() < 0.9, "weight": w, "ante": ante, "concls": concls,
                          "paren_seed": rng.randrange(1 << 30)})
        blocks.append({"name": f"rb{b}", "enabled": rng.random() < 0.9,
                       "conjunction": rng.choice(EXACT_T if exact else CONT_T),
                       "disjunction": rng.choice(EXACT_S[:5] if exact else CONT_S[:5]),
                       "implication": rng.choice(EXACT_T if exact else CONT_T),
                       "activation": act, "rules": rules})
    return {"exact": exact, "inputs": inputs, "outputs": outputs, "blocks": blocks}


def gen_chained(rng, exact=None, activation="general"):
    """C01: `an output variable used in an antecedent sees exactly the contributions accumulated so far` - at EVERY
    position of the rule in its block.  A rule block is an arbitrary sequence of rules: antecedents (the same text, the
    same parentheses) and whole rules may occur several times, and the rules in between may conclude the very term such
    an antecedent reads, so two rules with one antecedent text generally have different degrees.  The first block of a
    generated engine is rebuilt as a random interleaving of
      writers  `if <inputs> then out is [hedge] T [with w]`   (contributions to ONE term T of one output variable) and
      readers  `if <A> then ...` whose antecedent A reads `out is [hedges] T`, alone or and/or-ed with an input
               proposition; the readers of a block share one or two distinct antecedents;
    one rule is sometimes repeated verbatim further down."""
    import copy
    desc = gen_engine(rng, exact=exact, activation=activation)
    exact = desc["exact"]
    outs = desc["outputs"]
    src = rng.choice(outs)
    src["enabled"] = True
    b = desc["blocks"][0]
    b["enabled"] = True
    target = rng.choice(src["terms"])["name"]

    def reader():
        p = ["prop", src["name"], hedge_chain(rng, exact, rng.choice([0, 0, 1]), allow_sqrt=False), target]
        if rng.random() < 0.4:
            q = gen_ante(rng, desc["inputs"], [], 0, exact)
            p = [rng.choice(["and", "or"])] + ([p, q] if rng.random() < 0.5 else [q, p])
        return p, rng.randrange(1 << 30)

    readers = [reader() for _ in range(rng.choice([1, 1, 2]))]
    rules = []
    for k in range(rng.randint(4, 7)):
        if k == 0 or rng.random() < 0.45:
            ante, seed = gen_ante(rng, desc["inputs"], [], rng.choice([0, 0, 1]), exact), rng.randrange(1 << 30)
            concl = {"var": src["name"], "hedges": hedge_chain(rng, exact, rng.choice([0, 0, 0, 1]), allow_sqrt=False),
                     "term": target}
        else:
            ante, seed = rng.choice(readers)
            ov = rng.choice(outs)
            concl = {"var": ov["name"], "hedges": hedge_chain(rng, exact, rng.choice([0, 0, 0, 1]), allow_sqrt=False),
                     "term": rng.choice(ov["terms"])["name"]}
        rules.append({"enabled": rng.random() < 0.95, "weight": rng.choice([1.0, 1.0, 0.5, 0.25, 0.75]),
                      "ante": copy.deepcopy(ante), "concls": [concl], "paren_seed": seed})
    if rng.random() < 0.5:
        j = rng.randrange(len(rules))
        rules.insert(rng.randint(j + 1, len(rules)), copy.deepcopy(rules[j]))
    b["rules"] = rules
    return desc


def gen_saturated(rng, exact=None):
    """C01: `the contributions to a variable are combined with its aggregation operator and defuzzified ... over its
    range` - ALL of them, in order, with every registered S-norm.  S(1, b) = 1 holds for some S-norms only (not for
    UnboundedSum or NormalizedSum), so a fuzzy output that already equals 1 over the whole range still has to take in
    the contributions that follow.  An output variable with an integral defuzzifier gets a term that is 1 on the whole
    range (Rectangle / Trapezoid / Binary / saturated Ramp reaching beyond both bounds) and a rule that concludes it
    with degree exactly 1 (weight 1; antecedent `any`, or an input term that is 1 on and beyond the input's range), at
    any position of the first block, once or twice, with at least one further contribution to the variable after it;
    the aggregation is drawn from every S-norm of the family, UnboundedSum included."""
    desc = gen_engine(rng, exact=exact, activation="general", weighted=False)
    exact = desc["exact"]
    ov = rng.choice(desc["outputs"])
    ov["enabled"] = True
    lo, hi = ov["min"], ov["max"]
    w = hi - lo
    cls, ps = rng.choice([("Rectangle", [lo - w, hi + w]), ("Trapezoid", [lo - 2 * w, lo - w, hi + w, hi + 2 * w]),
                          ("Binary", [lo - w, math.inf]), ("Ramp", [lo - 2 * w, lo - w]), ("Rectangle", [lo, hi])])
    full = {"name": f"{ov['name']}full", "kind": "shape", "cls": cls, "params": ps, "height": 1.0}
    ov["terms"].append(full)
    ov["aggregation"] = rng.choice(EXACT_S if exact else CONT_S)
    iv = rng.choice(desc["inputs"])
    if rng.random() < 0.5:
        ante = ["prop", iv["name"], ["any"], None]
    else:
        iv["enabled"] = True
        ilo, ihi = iv["min"], iv["max"]
        iw = ihi - ilo
        iv["terms"].append({"name": f"{iv['name']}full", "kind": "shape", "cls": "Rectangle",
                            "params": [ilo - 4 * iw, ihi + 4 * iw], "height": 1.0})
        ante = ["prop", iv["name"], [], f"{iv['name']}full"]
    b = desc["blocks"][0]
    b["enabled"] = True
    sat = {"enabled": True, "weight": 1.0, "ante": ante,
           "concls": [{"var": ov["name"], "hedges": [], "term": full["name"]}], "paren_seed": rng.randrange(1 << 30)}
    at = rng.randint(0, len(b["rules"]))
    b["rules"].insert(at, sat)
    if rng.random() < 0.3:
        import copy
        b["rules"].insert(rng.randint(at + 1, len(b["rules"])), copy.deepcopy(sat))
    # at least one further contribution to the saturated variable after the saturating rule
    for _ in range(rng.choice([1, 1, 2])):
        t = rng.choice(ov["terms"][:-1])
        b["rules"].append({"enabled": True, "weight": rng.choice([1.0, 1.0, 0.5, 0.25, 0.75]),
                           "ante": gen_ante(rng, desc["inputs"], [], rng.choice([0, 0, 1]), exact),
                           "concls": [{"var": ov["name"], "hedges": [], "term": t["name"]}],
                           "paren_seed": rng.randrange(1 << 30)})
    return desc


def rule_text(rule):
    import random
    rng = random.Random(rule["paren_seed"])
    a = ante_text(rule["ante"], rng=rng)
    c = " and ".join(" ".join([c["var"], "is"] + c["hedges"] + [c["term"]]) for c in rule["concls"])
    t = f"if {a} then {c}"
    if rule["weight"] != 1.0:
        t += f" with {rule['weight']}"
    return t


def discrete_term(rng, name, lo, hi, exact):
    """a Discrete term: increasing abscissae inside (and slightly beyond) the range, ordinates in [0, 1]"""
    w = hi - lo
    if exact:
        k = rng.choice([2, 3, 5])
        xs = [lo + i * w / 4 for i in sorted(rng.sample(range(0, 5), k))]
        # power-of-two gaps only (slopes must be dyadic): keep consecutive quarter points or halves
        xs = [lo, lo + w / 2, hi][: max(2, min(3, k))] if rng.random() < 0.5 else [lo + w / 4, lo + w / 2]
        ys = [rng.choice([0.0, 0.25, 0.5, 1.0]) for _ in xs]
        h = rng.choice([1.0, 0.5])
    else:
        n = rng.randint(1, 5)
        xs = sorted({round(rng.uniform(lo - 0.1 * w, hi + 0.1 * w), 3) for _ in range(n)})
        ys = [round(rng.random(), 3) for _ in xs]
        h = rng.choice([1.0, 1.0, 0.5, round(rng.uniform(0.2, 1.0), 2)])
    return {"name": name, "kind": "discrete", "xy": [v for p in zip(xs, ys) for v in p], "height": h}


def mk_term(t, engine=None):
    if t["kind"] == "discrete":
        return fl.Discrete(t["name"], list(t["xy"]), t["height"])
    if t["kind"] == "shape":
        return getattr(fl, t["cls"])(t["name"], *t["params"], height=t["height"])
    if t["kind"] == "constant":
        return fl.Constant(t["name"], t["value"])
    if t["kind"] == "linear":
        return fl.Linear(t["name"], list(t["coeffs"]), engine)
    if t["kind"] == "function":
        # implementation-only streams (C13 copy-graph): the engine model has no Function terms (`term_sx` rejects them)
        return fl.Function(t["name"], t["formula"], engine if t.get("with_engine", True) else None,
                           variables=dict(t["variables"]), load=True)
    raise AssertionError(t)


def norm(name):
    return None if name is None else getattr(fl, name)()


def mk_activation(a):
    c = a["cls"]
    if c == "General": return fl.General()
    if c == "First": return fl.First(a["n"], a["threshold"])
    if c == "Last": return fl.Last(a["n"], a["threshold"])
    if c == "Highest": return fl.Highest(a["n"])
    if c == "Lowest": return fl.Lowest(a["n"])
    if c == "Proportional": return fl.Proportional()
    if c == "Threshold": return fl.Threshold(a["cmp"], a["threshold"])
    raise AssertionError(a)


def build(desc):
    e = fl.Engine(name="g")
    for iv in desc["inputs"]:
        e.input_variables.append(fl.InputVariable(name=iv["name"], enabled=iv["enabled"], minimum=iv["min"], maximum=iv["max"],
                                                  lock_range=iv["lock_range"], terms=[mk_term(t, e) for t in iv["terms"]]))
    for ov in desc["outputs"]:
        d = ov["defuzzifier"]
        if d["kind"] in ("WeightedAverage", "WeightedSum"):
            df = getattr(fl, d["kind"])(d["type"])
        else:
            df = getattr(fl, d["kind"])(d["resolution"])
        e.output_variables.append(fl.OutputVariable(name=ov["name"], enabled=ov["enabled"], minimum=ov["min"], maximum=ov["max"],
                                                    lock_range=ov["lock_range"], lock_previous=ov["lock_previous"],
                                                    default_value=ov["default"], aggregation=norm(ov["aggregation"]),
                                                    defuzzifier=df, terms=[mk_term(t, e) for t in ov["terms"]]))
    for b in desc["blocks"]:
        rb = fl.RuleBlock(name=b["name"], enabled=b["enabled"], conjunction=norm(b["conjunction"]),
                          disjunction=norm(b["disjunction"]), implication=norm(b["implication"]),
                          activation=mk_activation(b["activation"]))
        for r in b["rules"]:
            rule = fl.Rule.create(rule_text(r), e)
            rule.enabled = r["enabled"]
            rb.rules.append(rule)
        e.rule_blocks.append(rb)
    return e


def term_sx(t):
    if t["kind"] == "discrete":
        return ["discrete", t["name"], list(t["xy"][0::2]), list(t["xy"][1::2]), t["height"]]
    if t["kind"] == "shape":
        return ["shape", t["name"], t["cls"], list(t["params"]), t["height"]]
    if t["kind"] == "constant":
        return ["constant", t["name"], t["value"]]
    return ["linear", t["name"], list(t["coeffs"])]


def ante_sx(a):
    if a[0] == "prop":
        return ["prop", a[1], list(a[2]), a[3] if a[3] is not None else "none"]
    return [a[0], ante_sx(a[1]), ante_sx(a[2])]


def act_sx(a):
    c = a["cls"]
    if c in ("General", "Proportional"): return [c.lower()]
    if c in ("First", "Last"): return [c.lower(), str(a["n"]), a["threshold"]]
    if c in ("Highest", "Lowest"): return [c.lower(), str(a["n"])]
    return ["threshold", a["cmp"], a["threshold"]]


def engine_sx(desc, loaded=None):
    ins = [["invar", v["name"], v["enabled"], v["min"], v["max"], v["lock_range"], [term_sx(t) for t in v["terms"]]]
           for v in desc["inputs"]]
    outs = []
    for v in desc["outputs"]:
        d = v["defuzzifier"]
        df = ["weighted", d["kind"], d["type"]] if "type" in d else ["integral", d["kind"], str(d["resolution"])]
        outs.append(["outvar", v["name"], v["enabled"], v["min"], v["max"], v["lock_range"], v["lock_previous"],
                     v["default"], v["aggregation"] or "none", df, [term_sx(t) for t in v["terms"]]])
    bs = []
    for b in desc["blocks"]:
        rs = [["rule", r["enabled"], True, r["weight"], ante_sx(r["ante"]),
               [["concl", c["var"], list(c["hedges"]), c["term"]] for c in r["concls"]]] for r in b["rules"]]
        bs.append(["block", b["enabled"], b["conjunction"] or "none", b["disjunction"] or "none",
                   b["implication"] or "none", act_sx(b["activation"]), rs])
    return ["engine", ins, outs, bs]


def gen_rows(rng, desc, n, special=True):
    """input rows: interior, range bounds, term breakpoints, out of range, +-inf, NaN"""
    rows = []
    for _ in range(n):
        row = []
        for iv in desc["inputs"]:
            lo, hi = iv["min"], iv["max"]
            r = rng.random()
            if desc["exact"]:
                pool = [lo + k * (hi - lo) / 16 for k in range(-2, 19)]
                v = rng.choice(pool)
                if special and r < 0.06:
                    v = rng.choice([math.nan, math.inf, -math.inf])
            else:
                if r < 0.55:
                    v = rng.uniform(lo, hi)
                elif r < 0.65:
                    v = rng.choice([lo, hi])
                elif r < 0.8:
                    ps = [p for t in iv["terms"] if t["kind"] == "shape" for p in t["params"]
                          if math.isfinite(p) and lo - (hi - lo) <= p <= hi + (hi - lo)]   # location parameters only
                    # poles of eagerly evaluated (masked) branches: Concave divides by (2*end - inflection - x)
                    ps += [2 * t["params"][1] - t["params"][0] for t in iv["terms"]
                           if t["kind"] == "shape" and t["cls"] == "Concave"
                           and lo - (hi - lo) <= 2 * t["params"][1] - t["params"][0] <= hi + (hi - lo)]
                    v = rng.choice(ps) if ps else lo
                elif r < 0.9:
                    v = rng.choice([lo - 0.37 * (hi - lo), hi + 0.21 * (hi - lo)])
                elif special:
                    v = rng.choice([math.nan, math.inf, -math.inf])
                else:
                    v = rng.uniform(lo, hi)
            row.append(float(v))
        rows.append(row)
    return rows
