"""Generators of engines over every registered component (shared by C14 and C15) and the translation of a real
engine into the S-expression of the Lean model `Op.FllIO.Engine`.

All randomness comes from the `random.Random` passed in; an engine is described by a JSON-able *spec* (pure data:
class names, parameter values as float.hex strings, texts, flags) from which `build(spec)` constructs the real
engine, so that every case replays from its JSON alone."""
from __future__ import annotations

import inspect
import math
import re
from fractions import Fraction

import numpy as np

import common as C
import fuzzylite as fl

ATOL = 1e-3


# --------------------------------------------------------------------------------------------- numbers

def fhex(x: float) -> str:
    x = float(x)
    if x != x:
        return "nan"
    if x in (math.inf, -math.inf):
        return "inf" if x > 0 else "-inf"
    return x.hex()


def unhex(s) -> float:
    if isinstance(s, (int, float)):
        return float(s)
    if s == "nan":
        return math.nan
    if s == "inf":
        return math.inf
    if s == "-inf":
        return -math.inf
    return float.fromhex(s)


def nstr(x) -> str:
    """float -> token of Drv.asNum (exact, with the sign of zero)"""
    x = float(x)
    if x != x:
        return "nan"
    if x == math.inf:
        return "inf"
    if x == -math.inf:
        return "-inf"
    if x == 0 and math.copysign(1.0, x) < 0:
        return "-0"
    n, d = x.as_integer_ratio()
    return f"{n}/{d}" if d != 1 else str(n)


def parse_n(s: str):
    """token of Drv.ofNum -> Fraction | 'nan' | 'inf' | '-inf' | '-0'"""
    if s in ("nan", "inf", "-inf", "-0"):
        return s
    return Fraction(s)


def same_num(real: float, model) -> bool:
    """real float against a model number (exact decimal): the nearest double"""
    real = float(real)
    if isinstance(model, str):
        if model == "nan":
            return real != real
        if model == "inf":
            return real == math.inf
        if model == "-inf":
            return real == -math.inf
        return real == 0 and math.copysign(1.0, real) < 0
    if real != real or real in (math.inf, -math.inf):
        return False
    if model == 0:
        return real == 0 and math.copysign(1.0, real) > 0
    return C.close(real, model, atol=1e-12, rtol=1e-12)


def on_grid(x: float, d: int) -> float:
    return float(f"{x:.{d}f}")


def height_pool(rng, d: int, representable: bool):
    """heights / weights: 1, clearly different from 1, inside the tolerance, and the zone where the printed form
    is 1 although the value is outside the tolerance (F11: exists for d <= 2)"""
    r = rng.random()
    if r < 0.35:
        return 1.0
    if r < 0.65 or representable:
        while True:
            v = on_grid(rng.choice([0.25, 0.5, 0.75, 0.9, 0.95, 1.1, 1.5, 2.0, 0.1]) + (rng.randrange(-20, 21) / 10 ** d if rng.random() < 0.5 else 0), d)
            if abs(v - 1) > 2 * ATOL and v > 0:
                return v
    if r < 0.8:   # inside the tolerance, not 1
        return 1.0 + rng.choice([-1, 1]) * rng.uniform(1e-6, 0.9 * ATOL)
    # around the rounding boundary of the printed form
    half = 0.5 * 10.0 ** -d
    lo, hi = sorted((ATOL * 1.05, max(half, ATOL * 1.05) * 1.6))
    return 1.0 + rng.choice([-1, 1]) * rng.uniform(lo, hi)


def fragile_height(x: float, d: int) -> bool:
    """the printed form is at exact distance atol from 1 (0.999 / 1.001): exact arithmetic and float64 disagree
    on `is_close` (DESIGN section 7); also values within 1e-12 of the tolerance boundary itself"""
    if x != x or abs(x) == math.inf:
        return False
    fx = Fraction(x)
    if abs(abs(fx - 1) - Fraction(ATOL)) < Fraction(1, 10 ** 12):
        return True
    p = Fraction(f"{x:.{d}f}")
    return abs(abs(p - 1) - Fraction(1, 1000)) < Fraction(1, 10 ** 12)


def number(rng, d: int, mode: str, lo=-2.0, hi=3.0) -> float:
    if mode == "grid":
        return on_grid(rng.uniform(lo, hi), d) + 0.0
    r = rng.random()
    if r < 0.6:
        return rng.uniform(lo, hi)
    if r < 0.75:
        return on_grid(rng.uniform(lo, hi), min(d, 3))
    if r < 0.85:   # halfway cases of the rounding and their float neighbours
        k = rng.randrange(-3000, 3000)
        v = (k + 0.5) / 10 ** min(d, 6)
        return float(np.nextafter(v, rng.choice([-math.inf, math.inf]))) if rng.random() < 0.5 else v
    if r < 0.9:
        return rng.choice([0.0, -0.0, 1.0, -1.0, 1e-12, -1e-12, 123456.789, -4e-10])
    if r < 0.95:
        return rng.uniform(-1, 1) * 10.0 ** rng.randrange(-8, 9)
    return rng.choice([0.5, 0.25, 2.0])


# --------------------------------------------------------------------------------------------- names and texts

IDENT_FIRST = "abcdefghijklmnopqrstuvwxyzABCDEFGHIJKLMNOPQRSTUVWXYZ_"
IDENT_REST = IDENT_FIRST + "0123456789"
RESERVED = {"if", "is", "then", "and", "or", "with", "not", "any", "very", "somewhat", "seldom", "extremely", "none",
            "nan", "inf", "pi", "e"}


# "identifier names" are what the library itself keeps as an identifier (the documentation of `Op.as_identifier`: the characters
# that are alphanumeric - str.isalnum, the Unicode classes, not the ASCII ones - or '_' are kept, a name that starts with a
# numeric character - str.isnumeric - gets '_' in front): `température`, `tiède`, `Größe`, `λ_2`, `温度`, `x²`, `n٣` are
# identifiers exactly as `temperature` is.  Letters with diacritics, other alphabets and scripts without case; decimal digits
# of other scripts, digits that are not decimal (superscripts) and numeric characters that are not digits (fractions, Roman
# numerals) after the first character.  Precomposed characters only (a combining accent is not alphanumeric).
IDENT_FIRST_WIDE = "éèêàâçùüöäßñøåæœžšłőğþÉÈÀÜÖÄÑØÅÆŽŠŁαβγδλμπσωΩΔΣжядбшщЖЯДאבגبتثकखग温度速力あいカキ한글ªµ"
IDENT_REST_WIDE = IDENT_FIRST_WIDE + "٠١٢٣۴۵۶०१२३０１２３４５６７８９²³¹⁴½¼¾ⅧⅣⅻ①②"


def is_identifier(name: str) -> bool:
    """the definition above, spelled out on the characters (a reference that does not call the library)"""
    return bool(name) and all(c.isalnum() or c == "_" for c in name) and not name[0].isnumeric()


def ident(rng, used, prefix="", first=IDENT_FIRST, rest=IDENT_REST):
    fm = fl.settings.factory_manager
    while True:
        s = prefix + rng.choice(first) + "".join(rng.choice(rest) for _ in range(rng.randrange(0, 6)))
        # "k" is the name of the inert substitution variable that `gen_term` gives to Function terms: an engine variable of
        # that name is a name clash that membership() rejects (C17) and that the FuzzyLite Language cannot carry
        if s in used or s.lower() in RESERVED or s in fm.function.objects or s in fm.hedge.constructors or s == "k":
            continue
        used.add(s)
        return s


WORDS = ["speed", "of", "the", "motor", "in", "rad/s", "level:", "high", "'quoted'", '"double"', "50%", "a=b", "(x)",
         "temp.", "café", "über", "\\n", "[1,2]", "{k}", "1.5", "0.999", "-"]


def free_text(rng, allow_empty=True, quotes=True):
    if allow_empty and rng.random() < 0.4:
        return ""
    ws = [w for w in WORDS if quotes or ("'" not in w and '"' not in w and "\\" not in w)]
    return " ".join(rng.choice(ws) for _ in range(rng.randrange(1, 5)))


# C14's quantifier claims the round trip for "single-line descriptions without '#'" - free text as people type it, not a list
# of blank-separated tokens: two blanks after a full stop, columns aligned with tabs, colons, quotes, brackets, every printable
# punctuation character.  The importer reads a description as "everything after the first colon of the line" and the formula of a
# Function term as "everything after the class name": the interior of both must come back unchanged.
# Left out: texts that begin or end with a blank (the key / value cutter strips both ends).
SEPARATORS = [" ", " ", " ", "  ", "   ", "\t", " \t", "\t\t", "  \t  ", ".  ", ": ", " : ", ":", ",  ", " -  ", "\u00a0", "      "]
PUNCTUATION = [c for c in "!\"$%&'()*+,-./:;<=>?@[\\]^_`{|}~"]


def spaced_text(rng, quotes=True):
    """a single-line text without '#' whose first and last characters are visible: words and punctuation separated by single
    blanks, runs of blanks, tabs, no-break spaces and mixtures of them"""
    ok = [c for c in PUNCTUATION if quotes or c not in "'\"\\"]
    ws = [w for w in WORDS if quotes or ("'" not in w and '"' not in w and "\\" not in w)] + ["Simple", "dimmer.", "x", "1", "::", "key: value"]
    n = rng.randrange(2, 7)
    out = ""
    for i in range(n):
        w = rng.choice(ws) if rng.random() < 0.75 else "".join(rng.choice(ok) for _ in range(rng.randrange(1, 4)))
        out += w + (rng.choice(SEPARATORS) if i + 1 < n else "")
    return out


FORMULA_TOKEN = __import__("re").compile(r"[A-Za-z_][A-Za-z_0-9]*|\d+\.?\d*(?:[eE][-+]?\d+)?|\*\*|[-+*/^%~!(),]|\S")


def spaced_formula(rng, formula):
    """the same formula typed with other spacing between its tokens (none next to a parenthesis or comma, one blank, runs of
    blanks, tabs); the first and last characters stay visible"""
    toks = FORMULA_TOKEN.findall(formula)
    out = toks[0] if toks else formula
    for a, b in zip(toks, toks[1:]):
        tight = (a in "(," or b in "(),") and rng.random() < 0.5
        out += ("" if tight else rng.choice([" ", " ", "  ", "   ", "\t", " \t ", "     "])) + b
    return out


def respace(rng, spec, quotes=True):
    """rewrites (in place) the descriptions of the engine, its variables and rule blocks and the formulas of its Function terms
    with `spaced_text` / `spaced_formula`"""
    for holder in [spec] + spec["inputs"] + spec["outputs"] + spec["blocks"]:
        if rng.random() < 0.8:
            holder["description"] = spaced_text(rng, quotes=quotes)
    for v in spec["inputs"] + spec["outputs"]:
        for t in v["terms"]:
            if t["cls"] == "Function":
                t["formula"] = spaced_formula(rng, t["formula"])
    return spec


WEIRD_TERM_NAMES = ["t 1", "9lives", "a-b", "x.y", "(p)", "__", "m&m", "3", "a b c", "z!"]


# --------------------------------------------------------------------------------------------- specs

def term_classes():
    fm = fl.settings.factory_manager
    return {k: fm.term.constructors[k] for k in sorted(fm.term.constructors) if k}


def shape_params(cls) -> list:
    return [p for p in inspect.signature(cls.__init__).parameters if p not in ("self", "name", "height")]


def has_height(cls) -> bool:
    return "height" in inspect.signature(cls.__init__).parameters


def gen_term(rng, cls_name, name, d, mode, inputs, representable):
    cls = term_classes()[cls_name]
    spec = {"cls": cls_name, "name": name}
    if cls_name == "Function":
        vs = [v for v in inputs] or ["x"]
        forms = ["{a} * 2.000 + 1", "sin ( {a} ) + {b}", "max({a}, {b}) - 0.5", "{a} ^ 2", "({a} + {b}) / 2.0",
                 "~{a}", "1.5", "{a} - {b} * pi"]
        spec["formula"] = rng.choice(forms).format(a=rng.choice(vs), b=rng.choice(vs))
        spec["variables"] = {} if rng.random() < 0.7 else {"k": fhex(number(rng, d, mode))}
        return spec
    if cls_name == "Linear":
        n = len(inputs) + rng.choice([0, 1])
        spec["coefficients"] = [fhex(number(rng, d, mode)) for _ in range(n)]
        return spec
    if cls_name == "Discrete":
        n = rng.randrange(1, 5)
        xs = sorted(number(rng, d, mode) for _ in range(n))
        # open shoulders: the first / last abscissa may be infinite (an array with inf and without nan)
        if n >= 2 and rng.random() < 0.12:
            xs[0] = -math.inf
        if n >= 2 and rng.random() < 0.12:
            xs[-1] = math.inf
        ys = [number(rng, d, mode, 0.0, 1.0) for _ in range(n)]
        spec["values"] = [fhex(v) for pair in zip(xs, ys) for v in pair]
    else:
        ps = shape_params(cls)
        vals = sorted(number(rng, d, mode) for _ in ps) if rng.random() < 0.7 else [number(rng, d, mode) for _ in ps]
        if rng.random() < 0.04 and not representable:
            vals[rng.randrange(len(vals))] = rng.choice([math.inf, -math.inf, math.nan])
        spec["params"] = [fhex(v) for v in vals]
    if has_height(cls):
        spec["height"] = fhex(height_pool(rng, d, representable))
    return spec


def unhex_value(v):
    """a substitution variable of a Function term: a number or (a list) an array of numbers"""
    return np.array([unhex(x) for x in v], dtype=float) if isinstance(v, list) else unhex(v)


# the ways the public interface offers to arrive at the same term (spec key "via"; absent = the constructor with
# positional parameters, a flat list for Discrete): every one must give the same object, in particular the same
# order of the pairs of a Discrete term
DISCRETE_PATHS = ["list", "array", "configure", "attribute", "create-tuple", "create-list", "create-text"]


def build_term(spec):
    cls = term_classes()[spec["cls"]]
    name = spec["name"]
    via = spec.get("via", "list")
    if spec["cls"] == "Function":
        return cls(name, spec["formula"], variables={k: unhex_value(v) for k, v in spec.get("variables", {}).items()})
    if spec["cls"] == "Linear":
        return cls(name, [unhex(v) for v in spec["coefficients"]])
    kw = {}
    if "height" in spec:
        kw["height"] = unhex(spec["height"])
    if spec["cls"] == "Discrete":
        vals = [unhex(v) for v in spec["values"]]
        xs, ys = vals[0::2], vals[1::2]
        if via == "array":
            return cls(name, np.array(list(zip(xs, ys)), dtype=float).reshape(-1, 2), **kw)
        if via == "configure":
            t = cls(name)
            t.configure(" ".join(repr(v) for v in vals + ([kw["height"]] if "height" in kw else [])))
            return t
        if via == "attribute":
            t = cls(name, **kw)
            t.values = np.array(list(zip(xs, ys)), dtype=float).reshape(-1, 2)
            return t
        if via == "create-tuple":
            return cls.create(name, (xs, ys), **kw)
        if via == "create-list":
            return cls.create(name, vals, **kw)
        if via == "create-text":
            return cls.create(name, " ".join(repr(v) for v in vals), **kw)
        return cls(name, vals, **kw)
    if via == "configure":
        t = cls(name)
        t.configure(" ".join(repr(unhex(v)) for v in spec["params"] + ([spec["height"]] if "height" in spec else [])))
        return t
    return cls(name, *[unhex(v) for v in spec["params"]], **kw)


def keys(factory):
    return [k for k in sorted(factory.constructors) if k]


def gen_defuzz(rng, sugeno):
    fm = fl.settings.factory_manager
    r = rng.random()
    if r < 0.08:
        return None
    names = keys(fm.defuzzifier)
    integral = [n for n in names if issubclass(fm.defuzzifier.constructors[n], fl.IntegralDefuzzifier)]
    weighted = [n for n in names if n not in integral]
    if sugeno or r < 0.3:
        return {"cls": rng.choice(weighted), "type": rng.choice(["Automatic", "Automatic", "TakagiSugeno", "Tsukamoto"])}
    return {"cls": rng.choice(integral), "resolution": rng.choice([1000, 1000, 10, 25, 50, 100, 7])}


def build_defuzz(spec):
    if spec is None:
        return None
    cls = fl.settings.factory_manager.defuzzifier.constructors[spec["cls"]]
    if "type" in spec:
        return cls(spec["type"])
    return cls(spec["resolution"])


def gen_activation(rng, d, mode):
    fm = fl.settings.factory_manager
    if rng.random() < 0.08:
        return None
    name = rng.choice(keys(fm.activation))
    cls = fm.activation.constructors[name]
    ps = [p for p in inspect.signature(cls.__init__).parameters if p not in ("self", "args", "kwargs")] \
        if cls.__init__ is not object.__init__ else []
    spec = {"cls": name}
    for p in ps:
        if p == "rules":
            spec["rules"] = rng.choice([1, 1, 2, 3, 5])
        elif p == "threshold":
            spec["threshold"] = fhex(number(rng, d, mode, 0.0, 1.0))
        elif p == "comparator":
            spec["comparator"] = rng.choice([c.value for c in fl.activation.Threshold.Comparator])
    return spec


def build_activation(spec):
    if spec is None:
        return None
    cls = fl.settings.factory_manager.activation.constructors[spec["cls"]]
    kw = {k: (unhex(v) if k == "threshold" else v) for k, v in spec.items() if k != "cls"}
    return cls(**kw)


def gen_norm(rng, kind, none_p=0.15):
    fm = fl.settings.factory_manager
    if rng.random() < none_p:
        return None
    return rng.choice(keys(fm.tnorm if kind == "t" else fm.snorm))


def build_norm(name, kind):
    if name is None:
        return None
    fm = fl.settings.factory_manager
    return (fm.tnorm if kind == "t" else fm.snorm).constructors[name]()


HEDGES = ["not", "very", "somewhat", "seldom", "extremely", "any"]


def gen_rule(rng, ins, outs, d, representable):
    """ins / outs: {variable name: [term names usable in rules]}"""
    def prop(vs, antecedent=True):
        v = rng.choice(sorted(vs))
        hs = [rng.choice(HEDGES[:-1]) for _ in range(rng.choice([0, 0, 0, 1, 2]))]
        if antecedent and rng.random() < 0.08:     # `any` closes the proposition: no term follows
            return " ".join([v, "is"] + hs + ["any"])
        return " ".join([v, "is"] + hs + [rng.choice(vs[v])])

    n = rng.choice([1, 1, 2, 3])
    parts = [prop(ins)]
    for _ in range(n - 1):
        parts += [rng.choice(["and", "or"]), prop(ins)]
    ante = " ".join(parts)
    if n == 3 and rng.random() < 0.5:
        ante = f"( {parts[0]} {parts[1]} {parts[2]} ) {parts[3]} {parts[4]}"
    cons = " and ".join(prop(outs, False) for _ in range(rng.choice([1, 1, 2])))
    # a weight of exactly 0 (a muted rule) is legal, representable at every number of decimals, and falsy in Python
    w = 0.0 if rng.random() < 0.06 else height_pool(rng, d, representable)
    return {"antecedent": ante, "consequent": cons, "weight": fhex(w)}


def build_rule(spec):
    r = fl.Rule()
    r.antecedent.text = spec["antecedent"]
    r.consequent.text = spec["consequent"]
    r.weight = unhex(spec["weight"])
    return r


def gen_engine_spec(rng, d: int, mode: str = "float", representable: bool = False, size: str = "small",
                    force_terms=None, quotes=True):
    """mode: 'grid' (every number on the d-decimal grid) | 'float'.  representable: heights / weights are 1 or
    clearly outside the tolerance (the engine then computes the same outputs after a round trip)."""
    used = set()
    tcs = list(term_classes())
    force = list(force_terms or [])
    n_in = rng.choice([1, 2, 2, 3]) if size == "small" else rng.choice([2, 3, 4])
    n_out = rng.choice([1, 1, 2])
    n_blocks = rng.choice([1, 1, 2])
    in_names = [ident(rng, used) for _ in range(n_in)]

    def var(name, output):
        special = (not representable) and rng.random() < 0.25
        lo = number(rng, d, mode, -2, 0)
        hi = lo + abs(number(rng, d, mode, 0.5, 3))
        if mode == "grid":
            hi = on_grid(hi, d)
        if special:
            lo, hi = rng.choice([(-math.inf, math.inf), (-math.inf, hi), (lo, math.inf), (math.nan, math.nan)])
        sugeno = output and rng.random() < 0.35
        terms = []
        for _ in range(rng.randrange(1, 4) + (1 if force else 0)):
            if force:
                cn = force.pop()
            elif sugeno:
                cn = rng.choice(["Constant", "Linear", "Function"])
            else:
                cn = rng.choice([c for c in tcs if output or c not in ("Linear",)])
            terms.append(gen_term(rng, cn, ident(rng, used), d, mode, in_names, representable))
        referable = [t["name"] for t in terms]
        if (not representable) and rng.random() < 0.3:   # unreferenced terms with names that are not identifiers
            terms.append(gen_term(rng, rng.choice(["Triangle", "Constant", "Ramp"]), rng.choice(WEIRD_TERM_NAMES), d, mode,
                                  in_names, representable))
        v = {"name": name, "description": free_text(rng, quotes=quotes), "enabled": rng.random() < 0.85,
             "minimum": fhex(lo), "maximum": fhex(hi), "lock_range": rng.random() < 0.3, "terms": terms}
        if output:
            dv = number(rng, d, mode) if rng.random() < 0.4 else math.nan
            if (not representable) and rng.random() < 0.05:
                dv = rng.choice([math.inf, -math.inf])
            v.update({"lock_previous": rng.random() < 0.3, "default_value": fhex(dv),
                      "aggregation": gen_norm(rng, "s"), "defuzzifier": gen_defuzz(rng, sugeno)})
        return v, referable

    ins, outs, refs_in, refs_out = [], [], {}, {}
    for nm in in_names:
        v, ref = var(nm, False)
        ins.append(v)
        refs_in[nm] = ref
    for _ in range(n_out):
        nm = ident(rng, used)
        v, ref = var(nm, True)
        outs.append(v)
        refs_out[nm] = ref
    blocks = []
    for _ in range(n_blocks):
        blocks.append({"name": free_text(rng, quotes=quotes) if rng.random() < 0.7 else ident(rng, used),
                       "description": free_text(rng, quotes=quotes),
                       "enabled": rng.random() < 0.85, "conjunction": gen_norm(rng, "t"), "disjunction": gen_norm(rng, "s"),
                       "implication": gen_norm(rng, "t"), "activation": gen_activation(rng, d, mode),
                       "rules": [gen_rule(rng, refs_in, refs_out, d, representable) for _ in range(rng.randrange(0, 5))]})
    return {"name": free_text(rng, quotes=quotes), "description": free_text(rng, quotes=quotes), "inputs": ins, "outputs": outs,
            "blocks": blocks}


def build(spec) -> fl.Engine:
    def terms(v):
        return [build_term(t) for t in v["terms"]]

    ins = [fl.InputVariable(name=v["name"], description=v["description"], enabled=v["enabled"], minimum=unhex(v["minimum"]),
                            maximum=unhex(v["maximum"]), lock_range=v["lock_range"], terms=terms(v)) for v in spec["inputs"]]
    outs = [fl.OutputVariable(name=v["name"], description=v["description"], enabled=v["enabled"],
                              minimum=unhex(v["minimum"]), maximum=unhex(v["maximum"]), lock_range=v["lock_range"],
                              lock_previous=v["lock_previous"], default_value=unhex(v["default_value"]),
                              aggregation=build_norm(v["aggregation"], "s"), defuzzifier=build_defuzz(v["defuzzifier"]),
                              terms=terms(v)) for v in spec["outputs"]]
    blocks = [fl.RuleBlock(name=b["name"], description=b["description"], enabled=b["enabled"],
                           conjunction=build_norm(b["conjunction"], "t"), disjunction=build_norm(b["disjunction"], "s"),
                           implication=build_norm(b["implication"], "t"), activation=build_activation(b["activation"]),
                           rules=[build_rule(r) for r in b["rules"]]) for b in spec["blocks"]]
    return fl.Engine(name=spec["name"], description=spec["description"], input_variables=ins, output_variables=outs,
                     rule_blocks=blocks)


def rename_identifiers(rng, spec):
    """gives every variable and every referable term of the engine (in place) a new identifier over the wide alphabets above,
    mixed with the ASCII ones, and rewrites what refers to them by name: the propositions of the rules and the variable
    names used in Function formulas.  Returns the mapping old name -> new name."""
    used = names_of(spec) | {k for v in spec["inputs"] + spec["outputs"] for t in v["terms"] for k in t.get("variables", {})}
    first, rest = IDENT_FIRST_WIDE + IDENT_FIRST[:26], IDENT_REST_WIDE + IDENT_REST[:26] + "_0123456789"
    renamed = {}
    for v in spec["inputs"] + spec["outputs"]:
        for holder in [v] + v["terms"]:
            old = holder["name"]
            if is_identifier(old) and old not in renamed:
                while True:
                    new = ident(rng, used, first=first, rest=rest)
                    if any(ord(c) > 127 for c in new) or rng.random() < 0.1:
                        break
                renamed[old] = new
    for v in spec["inputs"] + spec["outputs"]:
        for holder in [v] + v["terms"]:
            holder["name"] = renamed.get(holder["name"], holder["name"])
            if holder.get("cls") == "Function":
                holder["formula"] = re.sub(r"[A-Za-z_]\w*", lambda m: renamed.get(m.group(0), m.group(0)), holder["formula"])
    for b in spec["blocks"]:
        for r in b["rules"]:
            for part in ("antecedent", "consequent"):
                r[part] = " ".join(renamed.get(tok, tok) for tok in r[part].split(" "))
    return renamed


def heights_and_weights(spec):
    for v in spec["inputs"] + spec["outputs"]:
        for t in v["terms"]:
            if "height" in t:
                yield unhex(t["height"]), t["cls"]
    for b in spec["blocks"]:
        for r in b["rules"]:
            yield unhex(r["weight"]), "Rule"


def spec_is_fragile(spec, d):
    return any(fragile_height(h, d) for h, _ in heights_and_weights(spec))


# --------------------------------------------------------------------------------------------- layouts and sizes

def names_of(spec):
    used = {v["name"] for v in spec["inputs"] + spec["outputs"]}
    used |= {t["name"] for v in spec["inputs"] + spec["outputs"] for t in v["terms"]}
    return used


def references(spec):
    """({input name: referable term names}, {output name: ...}) as `gen_rule` takes them"""
    def of(vs):
        return {v["name"]: [t["name"] for t in v["terms"] if t["name"] not in WEIRD_TERM_NAMES] for v in vs
                if any(t["name"] not in WEIRD_TERM_NAMES for t in v["terms"])}
    return of(spec["inputs"]), of(spec["outputs"])


def discrete_layouts(rng, spec, d, mode, p_other=0.3):
    """"every engine" includes Discrete terms whose pairs are not in ascending order of x (descending, shuffled, with a
    repeated abscissa) and terms that were not built by the constructor call the exporters print: each Discrete term gets
    an order and one of the construction paths `DISCRETE_PATHS`, other shape terms are configured from their parameter
    text with probability `p_other` (in place)"""
    for v in spec["inputs"] + spec["outputs"]:
        for t in v["terms"]:
            if t["cls"] == "Discrete":
                pairs = list(zip(t["values"][0::2], t["values"][1::2]))
                if len(pairs) < 3 and rng.random() < 0.7:
                    pairs += [(fhex(number(rng, d, mode)), fhex(number(rng, d, mode, 0.0, 1.0))) for _ in range(rng.randrange(1, 4))]
                how = rng.choice(["reverse", "shuffle", "shuffle", "repeat", "repeat-apart", "keep"])
                if how == "reverse":
                    pairs.reverse()
                elif how == "shuffle":
                    rng.shuffle(pairs)
                elif how.startswith("repeat"):
                    x = rng.choice(pairs)[0]
                    extra = (x, fhex(number(rng, d, mode, 0.0, 1.0)))
                    pairs.insert(rng.randrange(len(pairs) + 1) if how == "repeat-apart" else pairs.index(next(p for p in pairs if p[0] == x)), extra)
                t["values"] = [v_ for pr in pairs for v_ in pr]
                t["via"] = rng.choice(DISCRETE_PATHS)
            elif "params" in t and rng.random() < p_other:
                t["via"] = "configure"
    return spec


# the sizes at which `reprlib` starts to abbreviate (defaults of reprlib.Repr: 4 dict entries, 5 array elements, 6 list / tuple
# / set elements, 30 characters of a string or of any other object, 40 digits of an integer, 6 levels of nesting)
def sizes_around(rng, limit, most):
    return rng.choice([limit, limit + 1, limit + 1, limit + 2, 2 * limit + 1, rng.randrange(limit + 1, most + 1), most])


def enlarge(rng, spec, d, mode, kinds=None):
    """"every engine" has no size limit: pushes the sizes of the engine (in place) to and beyond every size at which a
    generic representation abbreviates: entries of Function.variables (also array-valued: one level deeper), pairs of a
    Discrete term, coefficients of a Linear term (with the input variables they need), terms of a variable, rules of a
    block, variables of the engine, lengths of descriptions / names / formulas / rule texts, digits of an integer
    parameter.  Returns the kinds applied."""
    all_kinds = ["variables", "variables", "discrete", "inputs+coefficients", "terms", "rules", "texts", "digits", "blocks"]
    kinds = kinds or rng.sample(all_kinds, rng.randrange(1, 4))
    used = names_of(spec)
    in_names = [v["name"] for v in spec["inputs"]]
    for kind in kinds:
        if kind == "variables":
            n = sizes_around(rng, 4, 40)
            ks = []
            while len(ks) < n:
                k = f"k{len(ks)}" if f"k{len(ks)}" not in used else ident(rng, used, "k")
                used.add(k)
                ks.append(k)
            vals = {k: fhex(number(rng, d, mode)) for k in ks}
            if rng.random() < 0.25:      # an array as the value of a substitution variable: dict -> array, one level deeper
                vals[ks[rng.randrange(n)]] = [fhex(number(rng, d, mode)) for _ in range(sizes_around(rng, 5, 12))]
            picked = rng.sample(ks, min(n, rng.randrange(1, 6)))
            formula = " + ".join(f"{k} * {rng.choice(in_names + ['x'])}" if rng.random() < 0.6 else k for k in picked)
            v = rng.choice(spec["inputs"] + spec["outputs"])
            v["terms"].append({"cls": "Function", "name": ident(rng, used), "formula": formula, "variables": vals})
        elif kind == "discrete":
            n = sizes_around(rng, 5, 200)
            xs = sorted(number(rng, d, mode) for _ in range(n))
            vals = [fhex(x) for pr in zip(xs, (number(rng, d, mode, 0.0, 1.0) for _ in xs)) for x in pr]
            v = rng.choice(spec["inputs"] + spec["outputs"])
            v["terms"].append({"cls": "Discrete", "name": ident(rng, used), "values": vals,
                               "height": fhex(height_pool(rng, d, True))})
        elif kind == "inputs+coefficients":
            n = sizes_around(rng, 6, 10)
            while len(spec["inputs"]) < n:
                nm = ident(rng, used)
                spec["inputs"].append({"name": nm, "description": "", "enabled": True, "minimum": fhex(0.0), "maximum": fhex(1.0),
                                       "lock_range": False,
                                       "terms": [gen_term(rng, "Triangle", ident(rng, used), d, mode, in_names, True)]})
                in_names.append(nm)
            o = rng.choice(spec["outputs"])
            o["terms"].append({"cls": "Linear", "name": ident(rng, used),
                               "coefficients": [fhex(number(rng, d, mode)) for _ in range(len(in_names) + rng.choice([0, 1]))]})
        elif kind == "terms":
            v = rng.choice(spec["inputs"] + spec["outputs"])
            n = sizes_around(rng, 6, 20)
            tcs = [c for c in term_classes() if c not in ("Linear", "Function")]
            while len(v["terms"]) < n:
                v["terms"].append(gen_term(rng, rng.choice(tcs), ident(rng, used), d, mode, in_names, True))
        elif kind == "rules":
            ins, outs = references(spec)
            if ins and outs:
                if not spec["blocks"]:
                    spec["blocks"].append({"name": "many", "description": "", "enabled": True, "conjunction": "Minimum",
                                           "disjunction": "Maximum", "implication": "Minimum", "activation": {"cls": "General"},
                                           "rules": []})
                b = rng.choice(spec["blocks"])
                n = sizes_around(rng, 6, 30)
                while len(b["rules"]) < n:
                    b["rules"].append(gen_rule(rng, ins, outs, d, True))
        elif kind == "blocks":
            n = sizes_around(rng, 6, 9)
            while len(spec["blocks"]) < n:
                spec["blocks"].append({"name": ident(rng, used), "description": "", "enabled": rng.random() < 0.8,
                                       "conjunction": gen_norm(rng, "t"), "disjunction": gen_norm(rng, "s"),
                                       "implication": gen_norm(rng, "t"), "activation": gen_activation(rng, d, mode), "rules": []})
        elif kind == "texts":
            def long_text(most):
                n = sizes_around(rng, 30, most)
                s = ""
                while len(s) < n:
                    s += (" " if s else "") + rng.choice(WORDS)
                return s[:n].rstrip() or "x"
            spec["description"] = long_text(400)
            spec["name"] = long_text(80)
            for holder in spec["inputs"] + spec["outputs"] + spec["blocks"]:
                if rng.random() < 0.5:
                    holder["description"] = long_text(200)
            v = rng.choice(spec["inputs"] + spec["outputs"])
            v["terms"].append(gen_term(rng, "Triangle", ident(rng, used, "long_" + "n" * sizes_around(rng, 30, 60)), d, mode, in_names, True))
            ins, outs = references(spec)
            if ins and outs and spec["blocks"]:
                r = gen_rule(rng, ins, outs, d, True)
                for _ in range(sizes_around(rng, 6, 12)):
                    r["antecedent"] += " " + rng.choice(["and", "or"]) + " " + gen_rule(rng, ins, outs, d, True)["antecedent"].replace("( ", "").replace(" )", "")
                rng.choice(spec["blocks"])["rules"].append(r)
            fn = [t for v_ in spec["inputs"] + spec["outputs"] for t in v_["terms"] if t["cls"] == "Function"]
            for t in fn:
                t["formula"] = "(" + t["formula"] + ")" + "".join(f" + {i}.5 * 0" for i in range(sizes_around(rng, 4, 12)))
        elif kind == "digits":
            # the number of rules of First / Last / Highest / Lowest is an integer without an upper bound
            n = sizes_around(rng, 40, 48)
            for b in spec["blocks"]:
                if b["activation"] and "rules" in b["activation"]:
                    b["activation"]["rules"] = 10 ** (n - 1) + rng.randrange(10 ** 6)
            if not any(b["activation"] and "rules" in b["activation"] for b in spec["blocks"]) and spec["blocks"]:
                rng.choice(spec["blocks"])["activation"] = {"cls": rng.choice(["Highest", "Lowest"]), "rules": 10 ** (n - 1) + rng.randrange(10 ** 6)}
    return kinds


# --------------------------------------------------------------------------------------------- real engine -> model

def m_text(s: str):
    return C.hexs(s)


def m_term(t) -> list:
    cn = type(t).__name__
    if cn == "Discrete":
        body = ["discrete", [nstr(v) for v in t.to_list()], nstr(t.height)]
    elif cn == "Linear":
        body = ["linear", [nstr(v) for v in t.coefficients]]
    elif cn == "Function":
        body = ["function", m_text(t.formula)]
    else:
        ps = [nstr(getattr(t, p)) for p in shape_params(type(t))]
        body = ["shape", ps, nstr(t.height) if has_height(type(t)) else "none"]
    return ["term", m_text(t.name), cn, body]


def m_defuzz(x):
    if x is None:
        return "none"
    if isinstance(x, fl.IntegralDefuzzifier):
        return ["integral", type(x).__name__, str(int(x.resolution))]
    return ["weighted", type(x).__name__, x.type.name]


def m_activ(a):
    if a is None:
        return "none"
    cn = type(a).__name__
    if hasattr(a, "comparator"):
        return ["threshold", cn, m_text(a.comparator.value), nstr(a.threshold)]
    if hasattr(a, "rules") and hasattr(a, "threshold"):
        return ["nth", cn, str(int(a.rules)), nstr(a.threshold)]
    if hasattr(a, "rules"):
        return ["best", cn, str(int(a.rules))]
    return ["plain", cn]


def m_norm(n):
    return "none" if n is None else type(n).__name__


def m_rule(r):
    return ["rule", [m_text(w) for w in r.antecedent.text.split()], [m_text(w) for w in r.consequent.text.split()],
            nstr(r.weight)]


def m_var(v):
    return ["var", m_text(v.name), m_text(v.description), "1" if v.enabled else "0", nstr(v.minimum), nstr(v.maximum),
            "1" if v.lock_range else "0", [m_term(t) for t in v.terms]]


def m_out(v):
    return ["out", m_var(v), m_norm(v.aggregation), m_defuzz(v.defuzzifier), nstr(v.default_value),
            "1" if v.lock_previous else "0"]


def m_block(b):
    return ["block", m_text(b.name), m_text(b.description), "1" if b.enabled else "0", m_norm(b.conjunction),
            m_norm(b.disjunction), m_norm(b.implication), m_activ(b.activation), [m_rule(r) for r in b.rules]]


def m_engine(e):
    return ["engine", m_text(e.name), m_text(e.description), [m_var(v) for v in e.input_variables],
            [m_out(v) for v in e.output_variables], [m_block(b) for b in e.rule_blocks]]


def untext(atom: str) -> str:
    assert atom.startswith("h"), atom
    return bytes.fromhex(atom[1:]).decode("utf-8")


def same_model(real, model, path="engine"):
    """compare two parsed S-expressions of engines: real side built by m_engine (numbers = exact floats), model side
    from the driver (numbers = exact decimals); returns None or the path of the first difference"""
    if isinstance(real, list) != isinstance(model, list):
        return f"{path}: shape {real!r} vs {model!r}"
    if isinstance(real, list):
        if len(real) != len(model):
            return f"{path}: length {len(real)} vs {len(model)}"
        for i, (a, b) in enumerate(zip(real, model)):
            r = same_model(a, b, f"{path}/{real[0] if real and isinstance(real[0], str) else ''}[{i}]")
            if r:
                return r
        return None
    if real == model:
        return None
    # numbers
    try:
        ra, mb = parse_n(real), parse_n(model)
    except (ValueError, ZeroDivisionError):
        return f"{path}: {real!r} vs {model!r}"
    rf = {"nan": math.nan, "inf": math.inf, "-inf": -math.inf, "-0": -0.0}.get(ra, None) if isinstance(ra, str) else float(ra)
    if same_num(rf, mb):
        return None
    return f"{path}: number {real} vs {model}"


# --------------------------------------------------------------------------------------------- evaluation

def input_rows(rng, spec, n):
    rows = []
    for _ in range(n):
        row = []
        for v in spec["inputs"]:
            lo, hi = unhex(v["minimum"]), unhex(v["maximum"])
            if not (math.isfinite(lo) and math.isfinite(hi)):
                lo, hi = -1.0, 2.0
            r = rng.random()
            if r < 0.8:
                row.append(rng.uniform(lo - 0.2, hi + 0.2))
            elif r < 0.9:
                row.append(rng.choice([lo, hi, 0.5 * (lo + hi)]))
            else:
                row.append(rng.choice([math.nan, math.inf, -math.inf]))
        rows.append([fhex(x) for x in row])
    return rows


def run_rows(engine, rows):
    """outputs row by row through the scalar path and once as a batch; exceptions are part of the observation"""
    out = []
    with np.errstate(all="ignore"):
        engine.restart()
        for row in rows:
            try:
                for iv, x in zip(engine.input_variables, row):
                    iv.value = unhex(x)
                engine.process()
                out.append([fhex(float(np.asarray(ov.value).reshape(-1)[-1])) for ov in engine.output_variables])
            except Exception as ex:  # noqa: BLE001
                out.append(f"{type(ex).__name__}")
        engine.restart()
        try:
            engine.input_values = np.array([[unhex(x) for x in row] for row in rows], dtype=float)
            engine.process()
            ov = np.atleast_2d(np.asarray(engine.output_values, dtype=float))
            out.append([[fhex(v) for v in r] for r in ov.tolist()])
        except Exception as ex:  # noqa: BLE001
            out.append(f"batch:{type(ex).__name__}")
    return out
