"""Generators of engines over every registered component (shared by C14 and C15) and the translation of a real
engine into the S-expression of the Lean model `Op.FllIO.Engine`.

All randomness comes from the `random.Random` passed in; an engine is described by a JSON-able *spec* (pure data:
class names, parameter values as float.hex strings, texts, flags) from which `build(spec)` constructs the real
engine, so that every case replays from its JSON alone."""
from __future__ import annotations

import inspect
import math
from fractions import Fraction

import numpy as np

import common as C
import fuzzylite as fl

ATOL = 1e-3


# --------------------------------------------------------------------------------------------- numbers

def fhex(x: float) -> str:
    x = float(x)
    if x != x:
        return "nan"
    if x in (math.inf, -math.inf):
        return "inf" if x > 0 else "-inf"
    return x.hex()


def unhex(s) -> float:
    if isinstance(s, (int, float)):
        return float(s)
    if s == "nan":
        return math.nan
    if s == "inf":
        return math.inf
    if s == "-inf":
        return -math.inf
    return float.fromhex(s)


def nstr(x) -> str:
    """float -> token of Drv.asNum (exact, with the sign of zero)"""
    x = float(x)
    if x != x:
        return "nan"
    if x == math.inf:
        return "inf"
    if x == -math.inf:
        return "-inf"
    if x == 0 and math.copysign(1.0, x) < 0:
        return "-0"
    n, d = x.as_integer_ratio()
    return f"{n}/{d}" if d != 1 else str(n)


def parse_n(s: str):
    """token of Drv.ofNum -> Fraction | 'nan' | 'inf' | '-inf' | '-0'"""
    if s in ("nan", "inf", "-inf", "-0"):
        return s
    return Fraction(s)


def same_num(real: float, model) -> bool:
    """real float against a model number (exact decimal): the nearest double"""
    real = float(real)
    if isinstance(model, str):
        if model == "nan":
            return real != real
        if model == "inf":
            return real == math.inf
        if model == "-inf":
            return real == -math.inf
        return real == 0 and math.copysign(1.0, real) < 0
    if real != real or real in (math.inf, -math.inf):
        return False
    if model == 0:
        return real == 0 and math.copysign(1.0, real) > 0
    return C.close(real, model, atol=1e-12, rtol=1e-12)


def on_grid(x: float, d: int) -> float:
    return float(f"{x:.{d}f}")


def height_pool(rng, d: int, representable: bool):
    """heights / weights: 1, clearly different from 1, inside the tolerance, and the zone where the printed form
    is 1 although the value is outside the tolerance (F11: exists for d <= 2)"""
    r = rng.random()
    if r < 0.35:
        return 1.0
    if r < 0.65 or representable:
        while True:
            v = on_grid(rng.choice([0.25, 0.5, 0.75, 0.9, 0.95, 1.1, 1.5, 2.0, 0.1]) + (rng.randrange(-20, 21) / 10 ** d if rng.random() < 0.5 else 0), d)
            if abs(v - 1) > 2 * ATOL and v > 0:
                return v
    if r < 0.8:   # inside the tolerance, not 1
        return 1.0 + rng.choice([-1, 1]) * rng.uniform(1e-6, 0.9 * ATOL)
    # around the rounding boundary of the printed form
    half = 0.5 * 10.0 ** -d
    lo, hi = sorted((ATOL * 1.05, max(half, ATOL * 1.05) * 1.6))
    return 1.0 + rng.choice([-1, 1]) * rng.uniform(lo, hi)


def fragile_height(x: float, d: int) -> bool:
    """the printed form is at exact distance atol from 1 (0.999 / 1.001): exact arithmetic and float64 disagree
    on `is_close` (DESIGN section 7); also values within 1e-12 of the tolerance boundary itself"""
    if x != x or abs(x) == math.inf:
        return False
    fx = Fraction(x)
    if abs(abs(fx - 1) - Fraction(ATOL)) < Fraction(1, 10 ** 12):
        return True
    p = Fraction(f"{x:.{d}f}")
    return abs(abs(p - 1) - Fraction(1, 1000)) < Fraction(1, 10 ** 12)


def number(rng, d: int, mode: str, lo=-2.0, hi=3.0) -> float:
    if mode == "grid":
        return on_grid(rng.uniform(lo, hi), d) + 0.0
    r = rng.random()
    if r < 0.6:
        return rng.uniform(lo, hi)
    if r < 0.75:
        return on_grid(rng.uniform(lo, hi), min(d, 3))
    if r < 0.85:   # halfway cases of the rounding and their float neighbours
        k = rng.randrange(-3000, 3000)
        v = (k + 0.5) / 10 ** min(d, 6)
        return float(np.nextafter(v, rng.choice([-math.inf, math.inf]))) if rng.random() < 0.5 else v
    if r < 0.9:
        return rng.choice([0.0, -0.0, 1.0, -1.0, 1e-12, -1e-12, 123456.789, -4e-10])
    if r < 0.95:
        return rng.uniform(-1, 1) * 10.0 ** rng.randrange(-8, 9)
    return rng.choice([0.5, 0.25, 2.0])


# --------------------------------------------------------------------------------------------- names and texts

IDENT_FIRST = "abcdefghijklmnopqrstuvwxyzABCDEFGHIJKLMNOPQRSTUVWXYZ_"
IDENT_REST = IDENT_FIRST + "0123456789"
RESERVED = {"if", "is", "then", "and", "or", "with", "not", "any", "very", "somewhat", "seldom", "extremely", "none",
            "nan", "inf", "pi", "e"}


def ident(rng, used, prefix=""):
    fm = fl.settings.factory_manager
    while True:
        s = prefix + rng.choice(IDENT_FIRST) + "".join(rng.choice(IDENT_REST) for _ in range(rng.randrange(0, 6)))
        if s in used or s.lower() in RESERVED or s in fm.function.objects or s in fm.hedge.constructors:
            continue
        used.add(s)
        return s


WORDS = ["speed", "of", "the", "motor", "in", "rad/s", "level:", "high", "'quoted'", '"double"', "50%", "a=b", "(x)",
         "temp.", "café", "über", "\\n", "[1,2]", "{k}", "1.5", "0.999", "-"]


def free_text(rng, allow_empty=True, quotes=True):
    if allow_empty and rng.random() < 0.4:
        return ""
    ws = [w for w in WORDS if quotes or ("'" not in w and '"' not in w and "\\" not in w)]
    return " ".join(rng.choice(ws) for _ in range(rng.randrange(1, 5)))


# C14's quantifier claims the round trip for "single-line descriptions without '#'" - free text as people type it, not a list
# of blank-separated tokens: two blanks after a full stop, columns aligned with tabs, colons, quotes, brackets, every printable
# punctuation character.  The importer reads a description as "everything after the first colon of the line" and the formula of a
# Function term as "everything after the class name": the interior of both must come back unchanged.
# Left out: texts that begin or end with a blank (the key / value cutter strips both ends).
SEPARATORS = [" ", " ", " ", "  ", "   ", "\t", " \t", "\t\t", "  \t  ", ".  ", ": ", " : ", ":", ",  ", " -  ", "\u00a0", "      "]
PUNCTUATION = [c for c in "!\"$%&'()*+,-./:;<=>?@[\\]^_`{|}~"]


def spaced_text(rng, quotes=True):
    """a single-line text without '#' whose first and last characters are visible: words and punctuation separated by single
    blanks, runs of blanks, tabs, no-break spaces and mixtures of them"""
    ok = [c for c in PUNCTUATION if quotes or c not in "'\"\\"]
    ws = [w for w in WORDS if quotes or ("'" not in w and '"' not in w and "\\" not in w)] + ["Simple", "dimmer.", "x", "1", "::", "key: value"]
    n = rng.randrange(2, 7)
    out = ""
    for i in range(n):
        w = rng.choice(ws) if rng.random() < 0.75 else "".join(rng.choice(ok) for _ in range(rng.randrange(1, 4)))
        out += w + (rng.choice(SEPARATORS) if i + 1 < n else "")
    return out


FORMULA_TOKEN = __import__("re").compile(r"[A-Za-z_][A-Za-z_0-9]*|\d+\.?\d*(?:[eE][-+]?\d+)?|\*\*|[-+*/^%~!(),]|\S")


def spaced_formula(rng, formula):
    """the same formula typed with other spacing between its tokens (none next to a parenthesis or comma, one blank, runs of
    blanks, tabs); the first and last characters stay visible"""
    toks = FORMULA_TOKEN.findall(formula)
    out = toks[0] if toks else formula
    for a, b in zip(toks, toks[1:]):
        tight = (a in "(," or b in "(),") and rng.random() < 0.5
        out += ("" if tight else rng.choice([" ", " ", "  ", "   ", "\t", " \t ", "     "])) + b
    return out


def respace(rng, spec, quotes=True):
    """rewrites (in place) the descriptions of the engine, its variables and rule blocks and the formulas of its Function terms
    with `spaced_text` / `spaced_formula`"""
    for holder in [spec] + spec["inputs"] + spec["outputs"] + spec["blocks"]:
        if rng.random() < 0.8:
            holder["description"] = spaced_text(rng, quotes=quotes)
    for v in spec["inputs"] + spec["outputs"]:
        for t in v["terms"]:
            if t["cls"] == "Function":
                t["formula"] = spaced_formula(rng, t["formula"])
    return spec


WEIRD_TERM_NAMES = ["t 1", "9lives", "a-b", "x.y", "(p)", "__", "m&m", "3", "a b c", "z!"]


# --------------------------------------------------------------------------------------------- specs

def term_classes():
    fm = fl.settings.factory_manager
    return {k: fm.term.constructors[k] for k in sorted(fm.term.constructors) if k}


def shape_params(cls) -> list:
    return [p for p in inspect.signature(cls.__init__).parameters if p not in ("self", "name", "height")]


def has_height(cls) -> bool:
    return "height" in inspect.signature(cls.__init__).parameters


def gen_term(rng, cls_name, name, d, mode, inputs, representable):
    cls = term_classes()[cls_name]
    spec = {"cls": cls_name, "name": name}
    if cls_name == "Function":
        vs = [v for v in inputs] or ["x"]
        forms = ["{a} * 2.000 + 1", "sin ( {a} ) + {b}", "max({a}, {b}) - 0.5", "{a} ^ 2", "({a} + {b}) / 2.0",
                 "~{a}", "1.5", "{a} - {b} * pi"]
        spec["formula"] = rng.choice(forms).format(a=rng.choice(vs), b=rng.choice(vs))
        spec["variables"] = {} if rng.random() < 0.7 else {"k": fhex(number(rng, d, mode))}
        return spec
    if cls_name == "Linear":
        n = len(inputs) + rng.choice([0, 1])
        spec["coefficients"] = [fhex(number(rng, d, mode)) for _ in range(n)]
        return spec
    if cls_name == "Discrete":
        n = rng.randrange(1, 5)
        xs = sorted(number(rng, d, mode) for _ in range(n))
        # open shoulders: the first / last abscissa may be infinite (an array with inf and without nan)
        if n >= 2 and rng.random() < 0.12:
            xs[0] = -math.inf
        if n >= 2 and rng.random() < 0.12:
            xs[-1] = math.inf
        ys = [number(rng, d, mode, 0.0, 1.0) for _ in range(n)]
        spec["values"] = [fhex(v) for pair in zip(xs, ys) for v in pair]
    else:
        ps = shape_params(cls)
        vals = sorted(number(rng, d, mode) for _ in ps) if rng.random() < 0.7 else [number(rng, d, mode) for _ in ps]
        if rng.random() < 0.04 and not representable:
            vals[rng.randrange(len(vals))] = rng.choice([math.inf, -math.inf, math.nan])
        spec["params"] = [fhex(v) for v in vals]
    if has_height(cls):
        spec["height"] = fhex(height_pool(rng, d, representable))
    return spec


def build_term(spec):
    cls = term_classes()[spec["cls"]]
    name = spec["name"]
    if spec["cls"] == "Function":
        return cls(name, spec["formula"], variables={k: unhex(v) for k, v in spec.get("variables", {}).items()})
    if spec["cls"] == "Linear":
        return cls(name, [unhex(v) for v in spec["coefficients"]])
    kw = {}
    if "height" in spec:
        kw["height"] = unhex(spec["height"])
    if spec["cls"] == "Discrete":
        return cls(name, [unhex(v) for v in spec["values"]], **kw)
    return cls(name, *[unhex(v) for v in spec["params"]], **kw)


def keys(factory):
    return [k for k in sorted(factory.constructors) if k]


def gen_defuzz(rng, sugeno):
    fm = fl.settings.factory_manager
    r = rng.random()
    if r < 0.08:
        return None
    names = keys(fm.defuzzifier)
    integral = [n for n in names if issubclass(fm.defuzzifier.constructors[n], fl.IntegralDefuzzifier)]
    weighted = [n for n in names if n not in integral]
    if sugeno or r < 0.3:
        return {"cls": rng.choice(weighted), "type": rng.choice(["Automatic", "Automatic", "TakagiSugeno", "Tsukamoto"])}
    return {"cls": rng.choice(integral), "resolution": rng.choice([1000, 1000, 10, 25, 50, 100, 7])}


def build_defuzz(spec):
    if spec is None:
        return None
    cls = fl.settings.factory_manager.defuzzifier.constructors[spec["cls"]]
    if "type" in spec:
        return cls(spec["type"])
    return cls(spec["resolution"])


def gen_activation(rng, d, mode):
    fm = fl.settings.factory_manager
    if rng.random() < 0.08:
        return None
    name = rng.choice(keys(fm.activation))
    cls = fm.activation.constructors[name]
    ps = [p for p in inspect.signature(cls.__init__).parameters if p not in ("self", "args", "kwargs")] \
        if cls.__init__ is not object.__init__ else []
    spec = {"cls": name}
    for p in ps:
        if p == "rules":
            spec["rules"] = rng.choice([1, 1, 2, 3, 5])
        elif p == "threshold":
            spec["threshold"] = fhex(number(rng, d, mode, 0.0, 1.0))
        elif p == "comparator":
            spec["comparator"] = rng.choice([c.value for c in fl.activation.Threshold.Comparator])
    return spec


def build_activation(spec):
    if spec is None:
        return None
    cls = fl.settings.factory_manager.activation.constructors[spec["cls"]]
    kw = {k: (unhex(v) if k == "threshold" else v) for k, v in spec.items() if k != "cls"}
    return cls(**kw)


def gen_norm(rng, kind, none_p=0.15):
    fm = fl.settings.factory_manager
    if rng.random() < none_p:
        return None
    return rng.choice(keys(fm.tnorm if kind == "t" else fm.snorm))


def build_norm(name, kind):
    if name is None:
        return None
    fm = fl.settings.factory_manager
    return (fm.tnorm if kind == "t" else fm.snorm).constructors[name]()


HEDGES = ["not", "very", "somewhat", "seldom", "extremely", "any"]


def gen_rule(rng, ins, outs, d, representable):
    """ins / outs: {variable name: [term names usable in rules]}"""
    def prop(vs, antecedent=True):
        v = rng.choice(sorted(vs))
        hs = [rng.choice(HEDGES[:-1]) for _ in range(rng.choice([0, 0, 0, 1, 2]))]
        if antecedent and rng.random() < 0.08:     # `any` closes the proposition: no term follows
            return " ".join([v, "is"] + hs + ["any"])
        return " ".join([v, "is"] + hs + [rng.choice(vs[v])])

    n = rng.choice([1, 1, 2, 3])
    parts = [prop(ins)]
    for _ in range(n - 1):
        parts += [rng.choice(["and", "or"]), prop(ins)]
    ante = " ".join(parts)
    if n == 3 and rng.random() < 0.5:
        ante = f"( {parts[0]} {parts[1]} {parts[2]} ) {parts[3]} {parts[4]}"
    cons = " and ".join(prop(outs, False) for _ in range(rng.choice([1, 1, 2])))
    # a weight of exactly 0 (a muted rule) is legal, representable at every number of decimals, and falsy in Python
    w = 0.0 if rng.random() < 0.06 else height_pool(rng, d, representable)
    return {"antecedent": ante, "consequent": cons, "weight": fhex(w)}


def build_rule(spec):
    r = fl.Rule()
    r.antecedent.text = spec["antecedent"]
    r.consequent.text = spec["consequent"]
    r.weight = unhex(spec["weight"])
    return r


def gen_engine_spec(rng, d: int, mode: str = "float", representable: bool = False, size: str = "small",
                    force_terms=None, quotes=True):
    """mode: 'grid' (every number on the d-decimal grid) | 'float'.  representable: heights / weights are 1 or
    clearly outside the tolerance (the engine then computes the same outputs after a round trip)."""
    used = set()
    tcs = list(term_classes())
    force = list(force_terms or [])
    n_in = rng.choice([1, 2, 2, 3]) if size == "small" else rng.choice([2, 3, 4])
    n_out = rng.choice([1, 1, 2])
    n_blocks = rng.choice([1, 1, 2])
    in_names = [ident(rng, used) for _ in range(n_in)]

    def var(name, output):
        special = (not representable) and rng.random() < 0.25
        lo = number(rng, d, mode, -2, 0)
        hi = lo + abs(number(rng, d, mode, 0.5, 3))
        if mode == "grid":
            hi = on_grid(hi, d)
        if special:
            lo, hi = rng.choice([(-math.inf, math.inf), (-math.inf, hi), (lo, math.inf), (math.nan, math.nan)])
        sugeno = output and rng.random() < 0.35
        terms = []
        for _ in range(rng.randrange(1, 4) + (1 if force else 0)):
            if force:
                cn = force.pop()
            elif sugeno:
                cn = rng.choice(["Constant", "Linear", "Function"])
            else:
                cn = rng.choice([c for c in tcs if output or c not in ("Linear",)])
            terms.append(gen_term(rng, cn, ident(rng, used), d, mode, in_names, representable))
        referable = [t["name"] for t in terms]
        if (not representable) and rng.random() < 0.3:   # unreferenced terms with names that are not identifiers
            terms.append(gen_term(rng, rng.choice(["Triangle", "Constant", "Ramp"]), rng.choice(WEIRD_TERM_NAMES), d, mode,
                                  in_names, representable))
        v = {"name": name, "description": free_text(rng, quotes=quotes), "enabled": rng.random() < 0.85,
             "minimum": fhex(lo), "maximum": fhex(hi), "lock_range": rng.random() < 0.3, "terms": terms}
        if output:
            dv = number(rng, d, mode) if rng.random() < 0.4 else math.nan
            if (not representable) and rng.random() < 0.05:
                dv = rng.choice([math.inf, -math.inf])
            v.update({"lock_previous": rng.random() < 0.3, "default_value": fhex(dv),
                      "aggregation": gen_norm(rng, "s"), "defuzzifier": gen_defuzz(rng, sugeno)})
        return v, referable

    ins, outs, refs_in, refs_out = [], [], {}, {}
    for nm in in_names:
        v, ref = var(nm, False)
        ins.append(v)
        refs_in[nm] = ref
    for _ in range(n_out):
        nm = ident(rng, used)
        v, ref = var(nm, True)
        outs.append(v)
        refs_out[nm] = ref
    blocks = []
    for _ in range(n_blocks):
        blocks.append({"name": free_text(rng, quotes=quotes) if rng.random() < 0.7 else ident(rng, used),
                       "description": free_text(rng, quotes=quotes),
                       "enabled": rng.random() < 0.85, "conjunction": gen_norm(rng, "t"), "disjunction": gen_norm(rng, "s"),
                       "implication": gen_norm(rng, "t"), "activation": gen_activation(rng, d, mode),
                       "rules": [gen_rule(rng, refs_in, refs_out, d, representable) for _ in range(rng.randrange(0, 5))]})
    return {"name": free_text(rng, quotes=quotes), "description": free_text(rng, quotes=quotes), "inputs": ins, "outputs": outs,
            "blocks": blocks}


def build(spec) -> fl.Engine:
    def terms(v):
        return [build_term(t) for t in v["terms"]]

    ins = [fl.InputVariable(name=v["name"], description=v["description"], enabled=v["enabled"], minimum=unhex(v["minimum"]),
                            maximum=unhex(v["maximum"]), lock_range=v["lock_range"], terms=terms(v)) for v in spec["inputs"]]
    outs = [fl.OutputVariable(name=v["name"], description=v["description"], enabled=v["enabled"],
                              minimum=unhex(v["minimum"]), maximum=unhex(v["maximum"]), lock_range=v["lock_range"],
                              lock_previous=v["lock_previous"], default_value=unhex(v["default_value"]),
                              aggregation=build_norm(v["aggregation"], "s"), defuzzifier=build_defuzz(v["defuzzifier"]),
                              terms=terms(v)) for v in spec["outputs"]]
    blocks = [fl.RuleBlock(name=b["name"], description=b["description"], enabled=b["enabled"],
                           conjunction=build_norm(b["conjunction"], "t"), disjunction=build_norm(b["disjunction"], "s"),
                           implication=build_norm(b["implication"], "t"), activation=build_activation(b["activation"]),
                           rules=[build_rule(r) for r in b["rules"]]) for b in spec["blocks"]]
    return fl.Engine(name=spec["name"], description=spec["description"], input_variables=ins, output_variables=outs,
                     rule_blocks=blocks)


def heights_and_weights(spec):
    for v in spec["inputs"] + spec["outputs"]:
        for t in v["terms"]:
            if "height" in t:
                yield unhex(t["height"]), t["cls"]
    for b in spec["blocks"]:
        for r in b["rules"]:
            yield unhex(r["weight"]), "Rule"


def spec_is_fragile(spec, d):
    return any(fragile_height(h, d) for h, _ in heights_and_weights(spec))


# --------------------------------------------------------------------------------------------- real engine -> model

def m_text(s: str):
    return C.hexs(s)


def m_term(t) -> list:
    cn = type(t).__name__
    if cn == "Discrete":
        body = ["discrete", [nstr(v) for v in t.to_list()], nstr(t.height)]
    elif cn == "Linear":
        body = ["linear", [nstr(v) for v in t.coefficients]]
    elif cn == "Function":
        body = ["function", m_text(t.formula)]
    else:
        ps = [nstr(getattr(t, p)) for p in shape_params(type(t))]
        body = ["shape", ps, nstr(t.height) if has_height(type(t)) else "none"]
    return ["term", m_text(t.name), cn, body]


def m_defuzz(x):
    if x is None:
        return "none"
    if isinstance(x, fl.IntegralDefuzzifier):
        return ["integral", type(x).__name__, str(int(x.resolution))]
    return ["weighted", type(x).__name__, x.type.name]


def m_activ(a):
    if a is None:
        return "none"
    cn = type(a).__name__
    if hasattr(a, "comparator"):
        return ["threshold", cn, m_text(a.comparator.value), nstr(a.threshold)]
    if hasattr(a, "rules") and hasattr(a, "threshold"):
        return ["nth", cn, str(int(a.rules)), nstr(a.threshold)]
    if hasattr(a, "rules"):
        return ["best", cn, str(int(a.rules))]
    return ["plain", cn]


def m_norm(n):
    return "none" if n is None else type(n).__name__


def m_rule(r):
    return ["rule", [m_text(w) for w in r.antecedent.text.split()], [m_text(w) for w in r.consequent.text.split()],
            nstr(r.weight)]


def m_var(v):
    return ["var", m_text(v.name), m_text(v.description), "1" if v.enabled else "0", nstr(v.minimum), nstr(v.maximum),
            "1" if v.lock_range else "0", [m_term(t) for t in v.terms]]


def m_out(v):
    return ["out", m_var(v), m_norm(v.aggregation), m_defuzz(v.defuzzifier), nstr(v.default_value),
            "1" if v.lock_previous else "0"]


def m_block(b):
    return ["block", m_text(b.name), m_text(b.description), "1" if b.enabled else "0", m_norm(b.conjunction),
            m_norm(b.disjunction), m_norm(b.implication), m_activ(b.activation), [m_rule(r) for r in b.rules]]


def m_engine(e):
    return ["engine", m_text(e.name), m_text(e.description), [m_var(v) for v in e.input_variables],
            [m_out(v) for v in e.output_variables], [m_block(b) for b in e.rule_blocks]]


def untext(atom: str) -> str:
    assert atom.startswith("h"), atom
    return bytes.fromhex(atom[1:]).decode("utf-8")


def same_model(real, model, path="engine"):
    """compare two parsed S-expressions of engines: real side built by m_engine (numbers = exact floats), model side
    from the driver (numbers = exact decimals); returns None or the path of the first difference"""
    if isinstance(real, list) != isinstance(model, list):
        return f"{path}: shape {real!r} vs {model!r}"
    if isinstance(real, list):
        if len(real) != len(model):
            return f"{path}: length {len(real)} vs {len(model)}"
        for i, (a, b) in enumerate(zip(real, model)):
            r = same_model(a, b, f"{path}/{real[0] if real and isinstance(real[0], str) else ''}[{i}]")
            if r:
                return r
        return None
    if real == model:
        return None
    # numbers
    try:
        ra, mb = parse_n(real), parse_n(model)
    except (ValueError, ZeroDivisionError):
        return f"{path}: {real!r} vs {model!r}"
    rf = {"nan": math.nan, "inf": math.inf, "-inf": -math.inf, "-0": -0.0}.get(ra, None) if isinstance(ra, str) else float(ra)
    if same_num(rf, mb):
        return None
    return f"{path}: number {real} vs {model}"


# --------------------------------------------------------------------------------------------- evaluation

def input_rows(rng, spec, n):
    rows = []
    for _ in range(n):
        row = []
        for v in spec["inputs"]:
            lo, hi = unhex(v["minimum"]), unhex(v["maximum"])
            if not (math.isfinite(lo) and math.isfinite(hi)):
                lo, hi = -1.0, 2.0
            r = rng.random()
            if r < 0.8:
                row.append(rng.uniform(lo - 0.2, hi + 0.2))
            elif r < 0.9:
                row.append(rng.choice([lo, hi, 0.5 * (lo + hi)]))
            else:
                row.append(rng.choice([math.nan, math.inf, -math.inf]))
        rows.append([fhex(x) for x in row])
    return rows


def run_rows(engine, rows):
    """outputs row by row through the scalar path and once as a batch; exceptions are part of the observation"""
    out = []
    with np.errstate(all="ignore"):
        engine.restart()
        for row in rows:
            try:
                for iv, x in zip(engine.input_variables, row):
                    iv.value = unhex(x)
                engine.process()
                out.append([fhex(float(np.asarray(ov.value).reshape(-1)[-1])) for ov in engine.output_variables])
            except Exception as ex:  # noqa: BLE001
                out.append(f"{type(ex).__name__}")
        engine.restart()
        try:
            engine.input_values = np.array([[unhex(x) for x in row] for row in rows], dtype=float)
            engine.process()
            ov = np.atleast_2d(np.asarray(engine.output_values, dtype=float))
            out.append([[fhex(v) for v in r] for r in ov.tolist()])
        except Exception as ex:  # noqa: BLE001
            out.append(f"batch:{type(ex).__name__}")
    return out
