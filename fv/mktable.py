"""Prints the overview table of DESIGN.md section 0.1 from the evidence files (development tool)."""
import json, os
V = os.path.dirname(os.path.dirname(os.path.abspath(__file__)))
print("| id | theorems (all audit-clean) | quick: cases / distinct non-trivial | code ties (functions regenerated from source) |")
print("|---|---|---|---|")
for i in range(1, 21):
    pid = f"C{i:02d}"
    ev = json.load(open(os.path.join(V, "evidence", pid + ".json")))
    cov = ev.get("coverage", ev)
    ties = sorted(k[len("code:fuzzylite."):] for k, ok in cov.get("tie_a", {}).items() if k.startswith("code:") and ok)
    print(f"| {pid} | {cov.get('discharged')} | {cov.get('evaluations'):,} / {cov.get('distinct_nontrivial'):,} | {', '.join(ties) or '–'} |".replace(",", " ", 0))
