"""Elementwise functions on arrays of every memory layout, size and container (shared by the C03 / C04 / C05 / C11 harnesses).

The properties say "elementwise on arrays": the value at an element depends on that element only, whatever the array that
holds it looks like.  `check_elementwise` evaluates a function on the same numbers held in

  * C-ordered, Fortran-ordered and transposed 2-D arrays, a 3-D array, strided / reversed / read-only views, a 0-d array,
    `np.float64`, a Python float, a Python list and a tuple,
  * one long array (more than 2**16 elements, not a multiple of any power of two) made of the same numbers repeated,

and compares every element with the scalar call.  It also observes two things a functional model cannot see: the operand
arrays are left as they were (no in-place write into the caller's data), and a result returned earlier is not changed by a
later call on the same object (no shared output buffer).
"""
from __future__ import annotations

import numpy as np

LONG = 70001        # > 2 * 32768, odd


def _same(u, w, tol):
    if u != u or w != w:
        return u != u and w != w
    return u == w or abs(u - w) <= tol * (1 + abs(u))


def variants(values):
    """(label, array-like, flat list of the numbers in the order the result will have after .reshape(-1) in C order)"""
    v = [float(x) for x in values]
    if len(v) % 2:
        v = v + [v[0]]
    n = len(v)
    base = np.array(v, dtype=float)
    c2 = base.reshape(2, n // 2)
    out = [("1-D", base.copy(), v),
           ("2-D C-ordered", c2.copy(), v),
           ("2-D Fortran-ordered", np.asfortranarray(c2), v),
           ("transposed view", base.reshape(n // 2, 2).T, list(base.reshape(n // 2, 2).T.reshape(-1))),
           ("3-D", base.reshape(2, 1, n // 2).copy(), v),
           ("3-D Fortran-ordered", np.asfortranarray(base.reshape(2, 1, n // 2)), v),
           ("strided view", np.repeat(base, 2)[::2], v),
           ("reversed view", np.array(v[::-1])[::-1], v),
           ("column", base.reshape(n, 1).copy(), v),
           ("list", list(v), v),
           ("tuple", tuple(v), v),
           ("nested list", [list(v[: n // 2]), list(v[n // 2:])], v)]
    ro = base.copy()
    ro.setflags(write=False)
    out.append(("read-only", ro, v))
    return out


def long_variant(values):
    v = [float(x) for x in values]
    reps = LONG // len(v) + 1
    arr = np.tile(np.array(v, dtype=float), reps)[:LONG]
    return "long 1-D (%d elements)" % LONG, arr, arr.tolist()


def check_elementwise(f, values, what, scalar=None, tol=1e-12, long=False, extra=()):
    """f(array_like) -> array; scalar(x: float) -> float (default: f on the float).  Returns (ok, message)."""
    scalar = scalar or (lambda x: float(np.asarray(f(x), dtype=float)))
    memo = {}

    def sc(x):
        k = repr(x)
        if k not in memo:
            memo[k] = scalar(x)
        return memo[k]

    held = []
    vs = variants(values) + list(extra)
    if long:
        vs.append(long_variant(values))
    for label, arr, flat in vs:
        before = np.array(arr, dtype=float, copy=True) if isinstance(arr, np.ndarray) else None
        with np.errstate(all="ignore"):
            try:
                res = f(arr)
            except Exception as ex:  # noqa: BLE001
                return False, f"{what}: raises {type(ex).__name__}: {ex} on a {label} of the degrees {list(values)[:6]!r}"
        res_arr = np.asarray(res, dtype=float)
        shape = np.shape(arr)
        if res_arr.shape != shape:
            return False, f"{what}: result of a {label} of shape {shape} has shape {res_arr.shape}"
        if before is not None and not np.array_equal(before, np.asarray(arr, dtype=float), equal_nan=True):
            return False, f"{what}: the operand ({label}) was modified in place by the call"
        got = res_arr.reshape(-1)
        for i, (x, w) in enumerate(zip(flat, got)):
            u = sc(x)
            if not _same(u, float(w), tol):
                return False, (f"{what}: on a {label} the element {i} (x = {x!r}) is {float(w)!r}, the scalar call gives {u!r}"
                               f" (array of the numbers {list(values)[:8]!r})")
        if isinstance(res, np.ndarray) and label != "long 1-D (%d elements)" % LONG:
            held.append((label, res, res_arr.copy()))
    for label, res, copy in held:
        if not np.array_equal(np.asarray(res, dtype=float), copy, equal_nan=True):
            return False, f"{what}: the array returned for the {label} was changed by a later call on the same object"
    return True, "ok"


def check_elementwise2(f, a_values, b_values, what, scalar=None, tol=1e-12, long=False):
    """binary f(a, b): the same layouts for both operands, and one operand a plain number"""
    a_values = [float(x) for x in a_values]
    b_values = [float(x) for x in b_values]
    if len(a_values) % 2:
        a_values, b_values = a_values + [a_values[0]], b_values + [b_values[0]]
    scalar0 = scalar or (lambda x, y: float(np.asarray(f(x, y), dtype=float)))
    memo = {}

    def scalar(x, y):
        k = (repr(x), repr(y))
        if k not in memo:
            memo[k] = scalar0(x, y)
        return memo[k]

    va, vb = variants(a_values), variants(b_values)
    if long:
        va.append(long_variant(a_values))
        vb.append(long_variant(b_values))
    held = []
    for (label, a, fa), (_, b, fb) in zip(va, vb):
        for mode in ("both", "left", "right"):
            if mode == "both":
                aa, bb, xs, ys = a, b, fa, fb
            elif mode == "left":
                aa, bb, xs, ys = a, b_values[0], fa, [b_values[0]] * len(fa)
            else:
                aa, bb, xs, ys = a_values[0], b, [a_values[0]] * len(fb), fb
            before = [np.array(z, dtype=float, copy=True) if isinstance(z, np.ndarray) else None for z in (aa, bb)]
            with np.errstate(all="ignore"):
                try:
                    res = f(aa, bb)
                except Exception as ex:  # noqa: BLE001
                    return False, f"{what}: raises {type(ex).__name__}: {ex} on {label} operands ({mode})"
            res_arr = np.asarray(res, dtype=float)
            shape = np.shape(aa) if mode != "right" else np.shape(bb)
            if res_arr.shape != shape:
                return False, f"{what}: result of {label} operands ({mode}) of shape {shape} has shape {res_arr.shape}"
            for z, z0 in zip((aa, bb), before):
                if z0 is not None and not np.array_equal(z0, np.asarray(z, dtype=float), equal_nan=True):
                    return False, f"{what}: an operand ({label}) was modified in place by the call"
            got = res_arr.reshape(-1)
            for i, (x, y, w) in enumerate(zip(xs, ys, got)):
                u = scalar(x, y)
                if not _same(u, float(w), tol):
                    return False, (f"{what}: on {label} operands ({mode}) the element {i} ({x!r}, {y!r}) is {float(w)!r}, the scalar "
                                   f"call gives {u!r}")
            if isinstance(res, np.ndarray) and not label.startswith("long"):
                held.append((label, res, res_arr.copy()))
    for label, res, copy in held:
        if not np.array_equal(np.asarray(res, dtype=float), copy, equal_nan=True):
            return False, f"{what}: the array returned for {label} operands was changed by a later call on the same object"
    return True, "ok"
