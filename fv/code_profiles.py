"""Translation profiles for `pylean.py`: which functions of /repo are regenerated as Lean code, the types of
their locals (Python is untyped) and the externals (library calls the translator does not look into).

`file` groups the definitions into `Gen/<file>.lean`; `imports` are the Lean modules the externals live in."""

STR_EXT = [
    ("_0.find('#')", "(Py.findChar {0} '#')", "Int", True),
    ("_0[0:_1]", "(Py.strPrefix {0} {1})", "String", True),
    ("_0.split()", "(Py.split {0})", "List String", True, ["String"]),
    ("float(_0)", "(Py.float {0})", "X Rat", False),
    ("' '.join(_0)", "(Py.joinSp {0})", "String", True),
]

# ---------------------------------------------------------------- the element table of FunctionFactory
ELEM_EXT = [
    ("factory.objects.get(_0)", "(Lang.Table.lookup tbl {0})", "Option Lang.Elem", True),
    ("_0 in factory.objects", "(Lang.Table.lookup tbl {0}).isSome", "Bool", True),
    ("factory.objects[_0]", "(Py.lookupElem tbl {0})", "Lang.Elem", False),
    ("_0.is_function()", "(!{0}.isOp)", "Bool", True, ["Lang.Elem"]),
    ("_0.is_operator()", "{0}.isOp", "Bool", True, ["Lang.Elem"]),
    ("_0.associativity", "{0}.assoc", "Int", True, ["Lang.Elem"]),
    ("_0.precedence", "{0}.prec", "Nat", True, ["Lang.Elem"]),
    ("_0.arity", "{0}.arity", "Nat", True, ["Lang.Elem"]),
]

# ---------------------------------------------------------------- activation methods
VIS = "Op.Activation.Visit Rat"
TRIG_LOCAL = "(let p := Op.Activation.trigger σ.rule.1 σ.rule.2; {{ σ with rule := (σ.rule.1, p.1), fires := σ.fires ++ p.2 }})"
ACT_STMT = [
    ("rule.deactivate()", "{{ σ with rule := (σ.rule.1, Op.Activation.deactivate σ.rule.2) }}", True),
    ("rule.activate_with(conjunction, disjunction)", "{{ σ with rule := (σ.rule.1, Op.Activation.activateWith σ.rule.2) }}", True),
    ("activation_degree = rule.activate_with(conjunction, disjunction)",
     "{{ σ with rule := (σ.rule.1, Op.Activation.activateWith σ.rule.2), activation_degree := (Op.Activation.activateWith σ.rule.2).actDegree }}", True),
    ("self.assert_is_not_vector(activation_degree)", "(if σ.rule.2.vector then .error .value else .ok σ)", False),
    ("rule.trigger(implication)", TRIG_LOCAL, True),
    ("heapq.heappush(activate, (-activation_degree, index))",
     "{{ σ with activate := Op.Activation.heappush σ.activate (X.neg σ.activation_degree, σ.index) }}", True),
    ("heapq.heappush(activate, (activation_degree, index))",
     "{{ σ with activate := Op.Activation.heappush σ.activate (σ.activation_degree, σ.index) }}", True),
    ("index = heapq.heappop(activate)[1]", "(Py.popTop σ.activate >>= fun p => .ok {{ σ with activate := p.2, index := p.1.2 }})", False),
    ("rule_block.rules[index].trigger(implication)",
     "(Py.Act.triggerAt σ.visited σ.fires σ.index >>= fun p => .ok {{ σ with visited := p.1, fires := p.2 }})", False),
    # Proportional: the list `activate` holds rule objects = positions among the visited rules
    ("activate.append(rule)", "{{ σ with activate := σ.activate ++ [σ.rule.1] }}", True),
    ("ref.activation_degree /= sum_degrees",
     "(Py.Act.modifyAt σ.visited σ.ref (fun r => {{ r with actDegree := X.div r.actDegree σ.sum_degrees }}) >>= fun v => .ok {{ σ with visited := v }})", False),
    ("ref.trigger(implication)",
     "(Py.Act.triggerAt σ.visited σ.fires σ.ref >>= fun p => .ok {{ σ with visited := p.1, fires := p.2 }})", False),
]
ACT_EXT = [
    ("rule.is_loaded()", "σ.rule.2.loaded", "Bool", True),
    ("rule_block.rules", "rules", f"List ({VIS})", True),
    ("self.rules", "n", "Nat", True),
    ("self.threshold", "t", "X Rat", True),
    ("self.comparator.operator(_0, _1)", "(cmp.eval {0} {1})", "Bool", True),
    ("scalar(_0)", "{0}", "X Rat", True, ["X Rat"]),
]


def act(cls, extra_locals=None, params=None, **kw):
    loc = {"rule": VIS, "visited": f"List ({VIS})", "fires": "List (Op.Activation.Fire Rat)"}
    loc.update(extra_locals or {})
    return dict({"name": f"{cls}_activate", "module": "fuzzylite.activation", "object": f"{cls}.activate", "file": "CodeActivation",
                 "params": [("rules", f"List ({VIS})")] + (params or []),
                 "ignore_locals": ["conjunction", "disjunction", "implication"],
                 "locals": loc, "externals": ACT_EXT, "stmt_externals": ACT_STMT,
                 "loop_writeback": {"rule": "{ σ with visited := σ.visited ++ [σ.rule] }"}}, **kw)


# ---- loaders of rule.py (Consequent.load, Antecedent.load)
# Objects: engine = Op.EngineInfo `e`, variable = Op.VarInfo, hedge / term object = the name it was looked up by,
# `{o.name: o for o in l}` = the list l (get: last entry of the name).  `proposition` is a second reference to the
# Proposition appended last (alias_last).
PROP = "Py.Load.Proposition"
LOAD_EXT = [
    ("self.text", "text", "String", True),
    ("_0.split()", "(Py.split {0})", "List String", True, ["String"]),
    ("engine.output_variables", "(Py.Load.outputs e)", "List Op.VarInfo", True),
    ("engine.variables", "e.vars", "List Op.VarInfo", True),
    ("{v.name: v for v in _0}", "{0}", "List Op.VarInfo", True, ["List Op.VarInfo"]),
    ("_0.get(_1)", "(Py.Load.varGet {0} {1})", "Option Op.VarInfo", True, ["List Op.VarInfo", "String"]),
    ("Proposition(_0)", "({{ variable_ := {0} }} : Py.Load.Proposition)", PROP, True, ["Op.VarInfo"]),
    ("_0 in factory", "(e.hedges.contains {0})", "Bool", True, ["String"]),
    ("factory.construct(_0)", "{0}", "String", True, ["String"]),
    ("_0.terms", "{0}.terms", "List String", True, ["Op.VarInfo"]),
    ("{t.name: t for t in _0}", "{0}", "List String", True, ["List String"]),
    ("_0.get(_1)", "(Py.Load.termGet {0} {1})", "Option String", True, ["List String", "String"]),
]
LOAD_FIELDS = {(PROP, "variable"): "Op.VarInfo", (PROP, "hedges"): "List String", (PROP, "term"): "Option String",
               ("Py.Load.Operator", "left"): "Py.Load.Expression", ("Py.Load.Operator", "right"): "Py.Load.Expression"}
LOAD_TRUTHY = {"Option Op.VarInfo": "(Py.Load.varTruthy {0})"}
# ---- end loaders

DEG = {"activation_degree": "X Rat"}
HEAP = {"activated": "Nat", "activation_degree": "X Rat", "index": "Nat", "activate": "List (X Rat × Nat)"}

PROFILES = [
    {
        "name": "Rule_parse", "module": "fuzzylite.rule", "object": "Rule.parse", "file": "CodeRule",
        "params": [("text", "String")],
        "locals": {"comment_index": "Int", "rule": "String", "antecedent": "List String", "consequent": "List String",
                   "weight": "X Rat", "state": "Nat", "token": "String",
                   "self_antecedent_text": "String", "self_consequent_text": "String", "self_weight": "X Rat"},
        "externals": STR_EXT,
    },
    {
        "name": "infix_to_postfix", "module": "fuzzylite.term", "object": "Function.infix_to_postfix", "file": "CodeFunction",
        "params": [("tbl", "Lang.Table"), ("formula", "String")],
        "rebind": {"formula": "formula1"},
        "ignore_locals": ["factory"],
        "locals": {"formula1": "List String", "queue": "List String", "stack": "Stack String", "token": "String",
                   "element": "Option Lang.Elem", "is_operand": "Bool", "top": "Lang.Elem", "postfix": "String"},
        "ret": "String",
        "fuel": {2: "σ.stack.length + 1", 3: "σ.stack.length + 1", 4: "σ.stack.length + 1", 5: "σ.stack.length + 1"},
        "externals": ELEM_EXT + [("cls.format_infix(_0)", "(Op.formatInfix tbl {0})", "List String", True),
                                 ("_0.split()", "{0}", "List String", True, ["List String"]),
                                 ("deque()", "[]", "List String", True),
                                 ("' '.join(_0)", "(Py.joinSp {0})", "String", True)],
    },
    # ---- loaders of rule.py
    {
        "name": "Consequent_load", "module": "fuzzylite.rule", "object": "Consequent.load", "file": "CodeLoad",
        "params": [("e", "Op.EngineInfo"), ("text", "String")],
        "locals": {"state": "Nat", "conclusions": f"List {PROP}", "output_variables": "List Op.VarInfo", "token": "String",
                   "variable": "Option Op.VarInfo", "hedge": "String", "terms": "List String", "term": "Option String",
                   "self_conclusions": f"List {PROP}"},
        "alias_last": {"proposition": "conclusions"},
        "record_fields": LOAD_FIELDS, "truthy": LOAD_TRUTHY, "none_init": ["token"],
        "externals": LOAD_EXT,
        "stmt_externals": [("self.unload()", "{{ σ with self_conclusions := [] }}", True),
                           ("factory = settings.factory_manager.hedge", "σ", True)],
    },
    {
        # the callee `Function.infix_to_postfix` is the parameter `post` (its own tie is `infix_to_postfix`)
        "name": "Antecedent_load", "module": "fuzzylite.rule", "object": "Antecedent.load", "file": "CodeLoad",
        "params": [("e", "Op.EngineInfo"), ("post", "String → Py.M String"), ("text", "String")],
        "locals": {"postfix": "String", "state": "Nat", "stack": "Stack Py.Load.Expression", "variables": "List Op.VarInfo",
                   "token": "String", "variable": "Option Op.VarInfo", "hedge": "String", "terms": "List String",
                   "term": "Option String", "operator": "Py.Load.Operator", "self_expression": "Py.Load.Expression"},
        "alias_last": {"proposition": {"list": "stack", "type": PROP, "embed": "(Py.Load.Expression.prop {0})",
                                       "view": "(Py.Load.Expression.asProp {0})"}},
        "record_fields": LOAD_FIELDS, "truthy": LOAD_TRUTHY, "none_init": ["token"],
        "skip_stmts": ["settings.logger.debug(_0)"],
        "externals": LOAD_EXT + [("Function.infix_to_postfix(_0)", "(post {0})", "String", False, ["String"]),
                                 ("deque()", "[]", "List Py.Load.Expression", True),
                                 ("isinstance(_0, Any)", '({0} == "any")', "Bool", True, ["String"]),
                                 ("Operator(_0)", "({{ name := {0} }} : Py.Load.Operator)", "Py.Load.Operator", True, ["String"]),
                                 ("operator", "(Py.Load.Expression.ofOp σ.operator)", "Py.Load.Expression", True)],
        "stmt_externals": [("self.unload()", "{{ σ with self_expression := Py.Load.Expression.none }}", True),
                           ("factory = settings.factory_manager.hedge", "σ", True),
                           ("errors = ' '.join((str(element) for element in stack))", "σ", True)],
    },
    # ---- end loaders
    act("General"),
    act("First", dict(DEG, activated="Nat"), [("n", "Nat"), ("t", "X Rat")]),
    act("Last", dict(DEG, activated="Nat"), [("n", "Nat"), ("t", "X Rat")]),
    act("Threshold", DEG, [("cmp", "Spec.Activation.Comparator"), ("t", "X Rat")]),
    act("Highest", HEAP, [("n", "Nat")], fuel={2: "σ.activate.length + 1"}),
    act("Lowest", HEAP, [("n", "Nat")], fuel={2: "σ.activate.length + 1"}),
    act("Proportional", dict(DEG, sum_degrees="X Rat", activate="List Nat", ref="Nat"), loop_rename={2: {"rule": "ref"}}),
]

FILES = {
    "CodeRule": {"imports": ["FlVerif.Op.PyExt"]},
    "CodeFunction": {"imports": ["FlVerif.Op.PyExt"]},
    "CodeActivation": {"imports": ["FlVerif.Op.PyExtAct"]},
    "CodeLoad": {"imports": ["FlVerif.Op.PyExtLoad"]},  # loaders of rule.py
}
