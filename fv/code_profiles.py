"""Translation profiles for `pylean.py`: which functions of /repo are regenerated as Lean code, the types of
their locals (Python is untyped) and the externals (library calls the translator does not look into).

`file` groups the definitions into `Gen/<file>.lean`; `imports` are the Lean modules the externals live in."""

STR_EXT = [
    ("_0.find('#')", "(Py.findChar {0} '#')", "Int", True),
    ("_0[0:_1]", "(Py.strPrefix {0} {1})", "String", True),
    ("_0.split()", "(Py.split {0})", "List String", True, ["String"]),
    ("float(_0)", "(Py.float {0})", "X Rat", False),
    ("' '.join(_0)", "(Py.joinSp {0})", "String", True),
]

# ---------------------------------------------------------------- the element table of FunctionFactory
ELEM_EXT = [
    ("factory.objects.get(_0)", "(Lang.Table.lookup tbl {0})", "Option Lang.Elem", True),
    ("_0 in factory.objects", "(Lang.Table.lookup tbl {0}).isSome", "Bool", True),
    ("factory.objects[_0]", "(Py.lookupElem tbl {0})", "Lang.Elem", False),
    ("_0.is_function()", "(!{0}.isOp)", "Bool", True, ["Lang.Elem"]),
    ("_0.is_operator()", "{0}.isOp", "Bool", True, ["Lang.Elem"]),
    ("_0.associativity", "{0}.assoc", "Int", True, ["Lang.Elem"]),
    ("_0.precedence", "{0}.prec", "Nat", True, ["Lang.Elem"]),
    ("_0.arity", "{0}.arity", "Nat", True, ["Lang.Elem"]),
]

# ---------------------------------------------------------------- activation methods
VIS = "Op.Activation.Visit Rat"
TRIG_LOCAL = "(let p := Op.Activation.trigger σ.rule.1 σ.rule.2; {{ σ with rule := (σ.rule.1, p.1), fires := σ.fires ++ p.2 }})"
ACT_STMT = [
    ("rule.deactivate()", "{{ σ with rule := (σ.rule.1, Op.Activation.deactivate σ.rule.2) }}", True),
    ("rule.activate_with(conjunction, disjunction)", "{{ σ with rule := (σ.rule.1, Op.Activation.activateWith σ.rule.2) }}", True),
    ("activation_degree = rule.activate_with(conjunction, disjunction)",
     "{{ σ with rule := (σ.rule.1, Op.Activation.activateWith σ.rule.2), activation_degree := (Op.Activation.activateWith σ.rule.2).actDegree }}", True),
    ("self.assert_is_not_vector(activation_degree)", "(if σ.rule.2.vector then .error .value else .ok σ)", False),
    ("rule.trigger(implication)", TRIG_LOCAL, True),
    ("heapq.heappush(activate, (-activation_degree, index))",
     "{{ σ with activate := Op.Activation.heappush σ.activate (X.neg σ.activation_degree, σ.index) }}", True),
    ("heapq.heappush(activate, (activation_degree, index))",
     "{{ σ with activate := Op.Activation.heappush σ.activate (σ.activation_degree, σ.index) }}", True),
    ("index = heapq.heappop(activate)[1]", "(Py.popTop σ.activate >>= fun p => .ok {{ σ with activate := p.2, index := p.1.2 }})", False),
    ("rule_block.rules[index].trigger(implication)",
     "(Py.Act.triggerAt σ.visited σ.fires σ.index >>= fun p => .ok {{ σ with visited := p.1, fires := p.2 }})", False),
    # Proportional: the list `activate` holds rule objects = positions among the visited rules
    ("activate.append(rule)", "{{ σ with activate := σ.activate ++ [σ.rule.1] }}", True),
    ("ref.activation_degree /= sum_degrees",
     "(Py.Act.modifyAt σ.visited σ.ref (fun r => {{ r with actDegree := X.div r.actDegree σ.sum_degrees }}) >>= fun v => .ok {{ σ with visited := v }})", False),
    ("ref.trigger(implication)",
     "(Py.Act.triggerAt σ.visited σ.fires σ.ref >>= fun p => .ok {{ σ with visited := p.1, fires := p.2 }})", False),
]
ACT_EXT = [
    ("rule.is_loaded()", "σ.rule.2.loaded", "Bool", True),
    ("rule_block.rules", "rules", f"List ({VIS})", True),
    ("self.rules", "n", "Nat", True),
    ("self.threshold", "t", "X Rat", True),
    ("self.comparator.operator(_0, _1)", "(cmp.eval {0} {1})", "Bool", True),
    ("scalar(_0)", "{0}", "X Rat", True, ["X Rat"]),
]


def act(cls, extra_locals=None, params=None, **kw):
    loc = {"rule": VIS, "visited": f"List ({VIS})", "fires": "List (Op.Activation.Fire Rat)"}
    loc.update(extra_locals or {})
    return dict({"name": f"{cls}_activate", "module": "fuzzylite.activation", "object": f"{cls}.activate", "file": "CodeActivation",
                 "params": [("rules", f"List ({VIS})")] + (params or []),
                 "ignore_locals": ["conjunction", "disjunction", "implication"],
                 "locals": loc, "externals": ACT_EXT, "stmt_externals": ACT_STMT,
                 "loop_writeback": {"rule": "{ σ with visited := σ.visited ++ [σ.rule] }"}}, **kw)


DEG = {"activation_degree": "X Rat"}
HEAP = {"activated": "Nat", "activation_degree": "X Rat", "index": "Nat", "activate": "List (X Rat × Nat)"}

PROFILES = [
    {
        "name": "Rule_parse", "module": "fuzzylite.rule", "object": "Rule.parse", "file": "CodeRule",
        "params": [("text", "String")],
        "locals": {"comment_index": "Int", "rule": "String", "antecedent": "List String", "consequent": "List String",
                   "weight": "X Rat", "state": "Nat", "token": "String",
                   "self_antecedent_text": "String", "self_consequent_text": "String", "self_weight": "X Rat"},
        "externals": STR_EXT,
    },
    {
        "name": "infix_to_postfix", "module": "fuzzylite.term", "object": "Function.infix_to_postfix", "file": "CodeFunction",
        "params": [("tbl", "Lang.Table"), ("formula", "String")],
        "rebind": {"formula": "formula1"},
        "ignore_locals": ["factory"],
        "locals": {"formula1": "List String", "queue": "List String", "stack": "Stack String", "token": "String",
                   "element": "Option Lang.Elem", "is_operand": "Bool", "top": "Lang.Elem", "postfix": "String"},
        "ret": "String",
        "fuel": {2: "σ.stack.length + 1", 3: "σ.stack.length + 1", 4: "σ.stack.length + 1", 5: "σ.stack.length + 1"},
        "externals": ELEM_EXT + [("cls.format_infix(_0)", "(Op.formatInfix tbl {0})", "List String", True),
                                 ("_0.split()", "{0}", "List String", True, ["List String"]),
                                 ("deque()", "[]", "List String", True),
                                 ("' '.join(_0)", "(Py.joinSp {0})", "String", True)],
    },
    act("General"),
    act("First", dict(DEG, activated="Nat"), [("n", "Nat"), ("t", "X Rat")]),
    act("Last", dict(DEG, activated="Nat"), [("n", "Nat"), ("t", "X Rat")]),
    act("Threshold", DEG, [("cmp", "Spec.Activation.Comparator"), ("t", "X Rat")]),
    act("Highest", HEAP, [("n", "Nat")], fuel={2: "σ.activate.length + 1"}),
    act("Lowest", HEAP, [("n", "Nat")], fuel={2: "σ.activate.length + 1"}),
    act("Proportional", dict(DEG, sum_degrees="X Rat", activate="List Nat", ref="Nat"), loop_rename={2: {"rule": "ref"}}),
]

# ---- FLD grid (Op.increment, FldExporter.write_from_scope)
# `Op.increment` mutates the list `x` in place: the parameter `x0` initialises the local `x`, the recursive call
# copies the callee's final `x` back (`inout`).  The digits are naturals; the maxima are integers because
# `write_from_scope` computes them by subtraction (`values - 1` is -1 for `values = 0`).
FLD_VAR = "Py.Fld.Var"
PROFILES += [
    {
        "name": "Op_increment", "module": "fuzzylite.operation", "object": "Operation.increment", "file": "CodeFld",
        "params": [("x0", "List Nat"), ("minimum", "List Nat"), ("maximum", "List Int"), ("position0", "Option Int")],
        "init": {"x": "x0", "position": "position0"},
        "locals": {"x": "List Nat", "position": "Option Int", "incremented": "Bool"},
        "ret": "Bool",
        "self_call": "Op.increment(_0, _1, _2, _3)", "rec_fuel": "x0.length + 1", "inout": {"x0": "x"},
    },
    {
        # the call with `active_variables` given (the membership test is the field `active` of a variable); the
        # floating-point guess of the root is an arbitrary function `guess values inputs`; the export itself
        # (`self.write`) is outside: the observable is the list `input_values` of rows
        "name": "write_from_scope", "module": "fuzzylite.exporter", "object": "FldExporter.write_from_scope", "file": "CodeFld",
        "params": [("vars", f"List {FLD_VAR}"), ("values", "Nat"), ("allVariables", "Bool"), ("guess", "Nat → Nat → Nat")],
        "skip_if": ["active_variables is None"],
        "locals": {"inputs": "Nat", "root": "Int", "resolution": "Int", "sample_values": "List Nat", "min_values": "List Nat",
                   "max_values": "List Int", "input_values": "List (List (X Rat))", "incremented": "Bool",
                   "row": "List (X Rat)", "index": "Nat", "variable": FLD_VAR, "dx": "X Rat", "value": "X Rat"},
        "fuel": {1: "Op.Fld.total (σ.max_values.map Int.toNat) + 1", 3: "σ.root.toNat + 1", 4: "values + 1"},
        "externals": [
            ("engine.input_variables", "vars", f"List {FLD_VAR}", True),
            ("scope == FldExporter.ScopeOfValues.AllVariables", "allVariables", "Bool", True),
            ("int(pow(_0, 1.0 / _1))", "(guess {0} {1})", "Nat", True, ["Nat", "Nat"]),
            ("_0 in active_variables", "{0}.active", "Bool", True, [FLD_VAR]),
            ("_0 not in active_variables", "(!{0}.active)", "Bool", True, [FLD_VAR]),
            ("_0.drange", "{0}.drange", "X Rat", True, [FLD_VAR]),
            ("_0.minimum", "{0}.minimum", "X Rat", True, [FLD_VAR]),
            ("np.take(_0.value, -1).astype(float)", "{0}.value", "X Rat", True, [FLD_VAR]),
        ],
        "stmt_externals": [
            # the call of the other translated function: its generated definition; `sample_values` is mutated in place
            ("incremented = Op.increment(sample_values, min_values, max_values)",
             "(Op_increment.run σ.sample_values σ.min_values σ.max_values none {{}} >>= fun r => Py.deref r.ret >>= fun v => "
             ".ok {{ σ with sample_values := r.x, incremented := v }})", False),
            ("self.write(engine, writer, np.array(input_values))", "σ", True),
        ],
    },
]

# ---- Python representation (Representation.construction_arguments)
# The call with `fields` given: `fields name` is the text `self.repr` produces for the value stored under `name`
# (`None` = the name is not a key); `signature` is `inspect.signature(...).parameters.values()` (with `self`),
# `noInit` says that the class has no constructor of its own.
PARAM = "Op.PyRepr.Param"
PROFILES += [
    {
        "name": "construction_arguments", "module": "fuzzylite.library", "object": "Representation.construction_arguments",
        "file": "CodeRepr",
        "params": [("noInit", "Bool"), ("signature", f"List {PARAM}"), ("fields", "String → Option String"), ("positional0", "Bool")],
        "init": {"positional": "positional0"},
        "skip_if": ["fields is None"],
        "locals": {"positional": "Bool", "arguments": "List String", "constructor": f"List {PARAM}", "parameter": PARAM,
                   "value": "String", "argument": "String"},
        "ret": "List String",
        "externals": [
            ("x.__class__.__init__ == object.__init__", "noInit", "Bool", True),
            ("list(inspect.signature((cast_as or x.__class__).__init__).parameters.values())", "signature", f"List {PARAM}", True),
            ("_0.name", "{0}.name", "String", True, [PARAM]),
            ("_0 in fields", "(fields {0}).isSome", "Bool", True, ["String"]),
            ("self.repr(fields[_0])", "(Py.Repr.field fields {0})", "String", False, ["String"]),
            ("_0.default != _0.empty", "{0}.hasDefault", "Bool", True, [PARAM]),
        ],
    },
]

# ---- Settings.context (generator-based context manager: enter = up to the yield, exit = the finally block)
# Keys are the indices of the keyword parameters / attributes (model `Op.Settings`), values are abstract identifiers;
# `None` = argument not given.  The object is the local `store` (attribute index -> value).  The renaming of the key
# `factory_manager` to the attribute `_factory_manager` keeps the index (and the entry stays last).
SET_LOCALS = {"context_settings": "List (Nat × Option Nat)", "rollback_settings": "Nat → Option Nat", "key": "Nat",
              "value": "Option Nat", "store": "Nat → Option Nat"}
SET_EXT = [("locals().items()", "kwargs", "List (Nat × Option Nat)", True),
           ("_0 == 'self'", "false", "Bool", True, ["Nat"]),
           ("vars(self).copy()", "σ.store", "Nat → Option Nat", True)]
SET_STMT = [("if 'factory_manager' in context_settings:\n    context_settings['_factory_manager'] = context_settings.pop('factory_manager')", "σ", True),
            ("setattr(self, key, value)", "{{ σ with store := Py.Settings.setattr σ.store σ.key σ.value }}", True),
            ("setattr(self, key, rollback_settings[key])", "{{ σ with store := Py.Settings.setattr σ.store σ.key (σ.rollback_settings σ.key) }}", True)]
PROFILES += [
    dict({"name": "Settings_context_enter", "module": "fuzzylite.library", "object": "Settings.context", "file": "CodeSettings",
          "part": "enter", "params": [("kwargs", "List (Nat × Option Nat)"), ("store0", "Nat → Option Nat")], "init": {"store": "store0"},
          "locals": SET_LOCALS, "externals": SET_EXT, "stmt_externals": SET_STMT}),
    dict({"name": "Settings_context_exit", "module": "fuzzylite.library", "object": "Settings.context", "file": "CodeSettings",
          "part": "exit", "params": [], "locals": SET_LOCALS, "externals": SET_EXT, "stmt_externals": SET_STMT}),
]

FILES = {
    "CodeRule": {"imports": ["FlVerif.Op.PyExt"]},
    "CodeFunction": {"imports": ["FlVerif.Op.PyExt"]},
    "CodeActivation": {"imports": ["FlVerif.Op.PyExtAct"]},
    # ---- FLD grid
    "CodeFld": {"imports": ["FlVerif.Op.PyExtFld"]},
    # ---- Python representation
    "CodeRepr": {"imports": ["FlVerif.Op.PyExtRepr"]},
    # ---- Settings.context
    "CodeSettings": {"imports": ["FlVerif.Op.PyExtSettings"]},
}
