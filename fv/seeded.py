"""Seeded-change bookkeeping (development tool, not part of any registered check).

  python fv/seeded.py collect <src_dir> <name>     copy patch.diff / demo.py / meta.json into seeded/<name>/
  python fv/seeded.py confirm <name>               in a scratch worktree: patch applies, demo exits 1 with it and 0 without,
                                                   the unedited test suite still passes
  python fv/seeded.py detect <name> [tier] [pid…]  apply to /repo, run ./check for the property, undo, record the outcome
"""
from __future__ import annotations

import json
import os
import re
import shutil
import subprocess
import sys

V = os.path.dirname(os.path.dirname(os.path.abspath(__file__)))
REPO = "/repo"
SCR = os.environ.get("SEED_SCR", "/tmp/seedchk")
PY = "/venv/bin/python"


def sh(cmd, cwd=None, timeout=3600, env=None):
    e = dict(os.environ)
    e.update(env or {})
    p = subprocess.run(cmd, cwd=cwd, shell=isinstance(cmd, str), capture_output=True, text=True, timeout=timeout, env=e)
    return p.returncode, (p.stdout + p.stderr)


def load(name):
    d = os.path.join(V, "seeded", name)
    return d, json.load(open(os.path.join(d, "meta.json")))


def save(d, meta):
    json.dump(meta, open(os.path.join(d, "meta.json"), "w"), indent=1)


def collect(src, name):
    d = os.path.join(V, "seeded", name)
    os.makedirs(d, exist_ok=True)
    for f in ("patch.diff", "demo.py", "meta.json"):
        shutil.copy(os.path.join(src, f), os.path.join(d, f))
    print("collected", name)


def confirm(name):
    d, meta = load(name)
    if not os.path.isdir(SCR):
        sh(["git", "-C", REPO, "worktree", "add", "-q", "--detach", SCR, "HEAD"])
    sh(["git", "-C", SCR, "checkout", "-q", "--detach", subprocess.check_output(["git", "-C", REPO, "rev-parse", "HEAD"], text=True).strip()])
    sh(["git", "-C", SCR, "checkout", "--", "."])
    demo = os.path.join(d, "demo.py")
    rc0, out0 = sh([PY, demo], cwd=SCR, env={"PYTHONPATH": SCR})   # a demo kept outside the tree imports the tree under test
    rca, outa = sh(["git", "-C", SCR, "apply", os.path.join(d, "patch.diff")])
    if rca != 0:
        rca, outa = sh(["git", "-C", SCR, "apply", "--3way", os.path.join(d, "patch.diff")])
    res = {"applies": rca == 0, "demo_clean_exit": rc0}
    if rca == 0:
        rc1, out1 = sh([PY, demo], cwd=SCR, env={"PYTHONPATH": SCR})
        res["demo_changed_exit"] = rc1
        res["demo_changed_tail"] = out1.strip().split("\n")[-1][:300]
        rct, outt = sh([PY, "-m", "pytest", "-q", "-p", "no:cacheprovider", "--timeout=900"], cwd=SCR, timeout=1800)
        failed = sorted(set(re.findall(r"^FAILED (\S+)", outt, flags=re.M)))
        res["suite_failed"] = failed
        res["suite_tail"] = outt.strip().split("\n")[-1]
        res["suite_ok"] = all(("test_object" in f) or ("test_measure" in f) for f in failed)
    sh(["git", "-C", SCR, "checkout", "--", "."])
    sh(["git", "-C", SCR, "clean", "-fdq"])
    res["confirmed"] = bool(res.get("applies") and res["demo_clean_exit"] == 0 and res.get("demo_changed_exit") == 1 and res.get("suite_ok"))
    meta["confirmation"] = res
    save(d, meta)
    print(name, "confirmed" if res["confirmed"] else "NOT CONFIRMED", json.dumps(res)[:400])


def detect(name, tier="quick", pids=None):
    """SEED_REPO=<scratch worktree of /repo>: apply the change there and run the checks with FV_REPO pointing at it
    (used while other processes read /repo); default: apply to /repo itself and undo afterwards"""
    global REPO
    d, meta = load(name)
    pids = pids or [meta["property"]]
    target = os.environ.get("SEED_REPO")
    if target:
        if not os.path.isdir(target):
            sh(["git", "-C", "/repo", "worktree", "add", "-q", "--detach", target, "HEAD"])
        REPO = target
        os.environ["FV_REPO"] = target
    rc, out = sh(["git", "-C", REPO, "status", "--porcelain"])
    if out.strip():
        print("refusing: /repo has uncommitted changes")
        return
    rca, outa = sh(["git", "-C", REPO, "apply", os.path.join(d, "patch.diff")])
    if rca != 0:
        rca, outa = sh(["git", "-C", REPO, "apply", "--3way", os.path.join(d, "patch.diff")])
    det = meta.setdefault("detection", {})
    try:
        if rca != 0:
            print("patch does not apply:", outa[-300:])
            return
        for pid in pids:
            ev = os.path.join(V, "evidence", f"{pid}.json")
            keep = open(ev).read() if os.path.exists(ev) else None     # evidence must come from runs on the unchanged tree
            rc, out = sh(["./check", pid, "--tier", tier], cwd=V, timeout=7200)
            if keep is not None:
                open(ev, "w").write(keep)
            lines = [l for l in out.split("\n") if l.startswith(("VIOLATION", "KNOWN-FINDING", "BROKEN")) or " seed=" in l]
            replay = None
            m = re.search(r"VIOLATION property=\S+ replay=(\S+)", out)
            if m and os.path.exists(m.group(1)):
                rp = json.load(open(m.group(1)))
                replay = {k: (str(v)[:500]) for k, v in rp.items() if k in ("what", "oracle", "case", "broken")}
            det[f"{pid}:{tier}"] = {"exit": rc, "lines": [l[:240] for l in lines[:6]], "replay": replay,
                                    "no_failing_input": "no-failing-input-found" in out}
            print(name, pid, tier, "exit", rc, "|", " | ".join(l[:110] for l in lines[:3]))
    finally:
        sh(["git", "-C", REPO, "checkout", "--", "."])
        sh(["git", "-C", REPO, "reset", "-q"])
        sh(["git", "-C", REPO, "checkout", "--", "."])
        # regenerate the Gen files from the unchanged tree
        sh([PY, os.path.join(V, "fv", "tracer.py"), os.path.join(V, "lean", "FlVerif", "Gen"), os.path.join(V, "work", "tracer_status.json")])
    save(d, meta)


if __name__ == "__main__":
    cmd = sys.argv[1]
    if cmd == "collect":
        collect(sys.argv[2], sys.argv[3])
    elif cmd == "confirm":
        confirm(sys.argv[2])
    elif cmd == "detect":
        detect(sys.argv[2], sys.argv[3] if len(sys.argv) > 3 else "quick", sys.argv[4:] or None)
