"""C04 — T-norms and S-norms compute their formulas and obey the norm laws (DESIGN.md section 8, C04)."""
from __future__ import annotations

import math
from fractions import Fraction as Fr

import numpy as np

import common as C
import layouts as L
import fuzzylite as fl

PID = "C04"
MODULES = ["FlVerif.Props.C04"]
NAMESPACE = "C04"
TIE_A = ["Norm."]
RULE = ("every registered norm x (exhaustive dyadic grid {k/64}^2 | random doubles in [0,1]^2 at relative distance >= 1e-6 "
        "from the derived thresholds a+b=1, ab=1 | out-of-range / NaN / +-inf operands | 1-D, 2-D and mixed arrays); "
        "a case is non-trivial when the model value is not 0, 1, a or b (i.e. a genuinely computed value) or lies on a "
        "branch boundary; distinct = distinct (norm, a, b)")
ASSUMPTIONS = ["float evaluation compared with the exact value within 1e-9 abs + 1e-9 rel",
               "array evaluation compared with element-by-element evaluation of the implementation itself"]

T = {"AlgebraicProduct": lambda a, b: a * b,
     "BoundedDifference": lambda a, b: max(Fr(0), a + b - 1),
     "DrasticProduct": lambda a, b: min(a, b) if max(a, b) == 1 else Fr(0),
     "EinsteinProduct": lambda a, b: (a * b) / (2 - (a + b - a * b)),
     "HamacherProduct": lambda a, b: (a * b) / (a + b - a * b) if a + b != 0 else Fr(0),
     "Minimum": lambda a, b: min(a, b),
     "NilpotentMinimum": lambda a, b: min(a, b) if a + b > 1 else Fr(0)}
S = {"AlgebraicSum": lambda a, b: a + b - a * b,
     "BoundedSum": lambda a, b: min(Fr(1), a + b),
     "DrasticSum": lambda a, b: max(a, b) if min(a, b) == 0 else Fr(1),
     "EinsteinSum": lambda a, b: (a + b) / (1 + a * b),
     "HamacherSum": lambda a, b: (a + b - 2 * a * b) / (1 - a * b) if a * b != 1 else Fr(1),
     "Maximum": lambda a, b: max(a, b),
     "NilpotentMaximum": lambda a, b: max(a, b) if a + b < 1 else Fr(1),
     "NormalizedSum": lambda a, b: (a + b) / max(Fr(1), a + b),
     "UnboundedSum": lambda a, b: a + b}
DOC = {**T, **S}
DUAL = {"AlgebraicSum": "AlgebraicProduct", "BoundedSum": "BoundedDifference", "DrasticSum": "DrasticProduct",
        "EinsteinSum": "EinsteinProduct", "HamacherSum": "HamacherProduct", "Maximum": "Minimum",
        "NilpotentMaximum": "NilpotentMinimum"}


def norms():
    fm = fl.settings.factory_manager
    out = {}
    for fac in (fm.tnorm, fm.snorm):
        for k in sorted(fac.constructors):
            if k:
                out[k] = fac.construct(k)
    return out


def impl(name, a, b):
    with np.errstate(all="ignore"):
        return float(norms_cache()[name].compute(a, b))


_N = None


def norms_cache():
    global _N
    if _N is None:
        _N = norms()
    return _N


def fragile(a, b):
    """random doubles too close to a derived threshold (a+b = 1, a*b = 1) for float and exact to agree on the branch"""
    return abs(a + b - 1.0) < 1e-6 or abs(a * b - 1.0) < 1e-6 or (a + b != 0 and abs(a + b) < 1e-300)


def key(case):
    return f"{case.get('norm')}"


def oracle(case):
    try:
        return oracle_(case)
    except Exception as ex:  # noqa: BLE001
        return False, f"{case.get('norm')}({case.get('a')}, {case.get('b')}): evaluation (scalar or array) raised {type(ex).__name__}: {ex}"


def oracle_(case):
    """property oracle on the real implementation: documented formula, range, laws, elementwise arrays"""
    if case["norm"] not in norms_cache():
        return False, f"norm {case['norm']} is not registered"
    if "as" in case:
        return oracle_layouts(case)
    name, a, b = case["norm"], float(case["a"]), float(case["b"])
    v = impl(name, a, b)
    if name in DOC and 0 <= a <= 1 and 0 <= b <= 1:
        fa, fb = Fr(a), Fr(b)
        doc = DOC[name](fa, fb)
        if not C.close(v, doc):
            return False, f"{name}({a},{b}) = {v!r}, documented formula gives {float(doc)!r}"
        if name != "UnboundedSum" and not (-1e-12 <= v <= 1 + 1e-12):
            return False, f"{name}({a},{b}) = {v!r} outside [0,1]"
        # commutativity on the implementation
        w = impl(name, b, a)
        if not C.close(w, doc):
            return False, f"{name}({b},{a}) = {w!r} but {name}({a},{b}) = {v!r}"
        if name in T and v > min(a, b) + 1e-12:
            return False, f"T-norm {name}({a},{b}) = {v!r} exceeds min"
        if name in S and name != "UnboundedSum" and v < max(a, b) - 1e-12:
            return False, f"S-norm {name}({a},{b}) = {v!r} below max"
        if name in DUAL and not fragile(a, b):
            d = 1.0 - impl(DUAL[name], 1.0 - a, 1.0 - b)
            # only where the complements 1-a, 1-b are exact in float (a tiny degree is absorbed: 1 - 1e-200 == 1.0)
            if Fr(1.0 - a) == 1 - Fr(a) and Fr(1.0 - b) == 1 - Fr(b) and not C.close(d, doc, atol=1e-9):
                return False, f"duality: {name}({a},{b}) documented {float(doc)!r} but 1 - {DUAL[name]}(1-a,1-b) = {d!r}"
    # elementwise on arrays
    n = norms_cache()[name]
    with np.errstate(all="ignore"):
        arr = np.asarray(n.compute(np.array([a, b, a]), np.array([b, a, a])), dtype=float)
        exp = [impl(name, a, b), impl(name, b, a), impl(name, a, a)]
        # broadcasting: scalar with array, column against row (the shapes Activated.membership produces)
        mixed = np.asarray(n.compute(a, np.array([b, a])), dtype=float)
        mixed2 = np.asarray(n.compute(np.array([a, b]), b), dtype=float)
        outer = np.asarray(n.compute(np.array([[a], [b]]), np.array([b, a, a])), dtype=float)
        exp_m = [impl(name, a, b), impl(name, a, a)]
        exp_m2 = [impl(name, a, b), impl(name, b, b)]
        exp_o = [[impl(name, a, b), impl(name, a, a), impl(name, a, a)], [impl(name, b, b), impl(name, b, a), impl(name, b, a)]]
    if mixed.shape != (2,) or not np.array_equal(mixed, np.array(exp_m), equal_nan=True):
        return False, f"{name}(scalar, array) = {mixed!r} differs from element-by-element {exp_m!r}"
    if mixed2.shape != (2,) or not np.array_equal(mixed2, np.array(exp_m2), equal_nan=True):
        return False, f"{name}(array, scalar) = {mixed2!r} differs from element-by-element {exp_m2!r}"
    if outer.shape != (2, 3) or not np.array_equal(outer, np.array(exp_o), equal_nan=True):
        return False, f"{name}(column, row) = {outer!r} differs from element-by-element {exp_o!r}"
    if arr.shape != (3,) or not all(C.close(x, Fr(y) if math.isfinite(y) else C.cls_of(y), atol=0, rtol=0) for x, y in zip(arr, exp)):
        return False, f"{name} on arrays {arr!r} differs from element-by-element {exp!r}"
    # operands held in reduced precision (float32 / float16 arrays of exactly representable degrees): the degrees are the
    # same numbers, so the result is the same as for float64 operands
    if 0 <= a <= 1 and 0 <= b <= 1:
        for dt in (np.float32, np.float16):
            if float(dt(a)) != a or float(dt(b)) != b:
                continue
            with np.errstate(all="ignore"):
                low = np.asarray(n.compute(np.array([a, b, a], dtype=dt), np.array([b, a, a], dtype=dt)), dtype=float)
            if low.shape != (3,) or not all((x != x and y != y) or abs(x - y) <= 1e-9 * (1 + abs(y)) for x, y in zip(low, exp)):
                return False, (f"{name} on {dt.__name__} arrays of the degrees ({a}, {b}) gives {low!r}, on the same degrees as "
                               f"float64 {exp!r}")
    return True, "ok"


def oracle_layouts(case):
    """the norm on the same degrees held in arrays of every layout / size / container (fv/layouts.py)"""
    name = case["norm"]
    n = norms_cache()[name]
    return L.check_elementwise2(lambda a, b: n.compute(a, b), case["as"], case["bs"], f"norm {name}",
                                scalar=lambda a, b: impl(name, a, b), long=bool(case.get("long")))


def layout_cases(ctx):
    rng = ctx.rng
    for name in sorted(norms_cache()):
        yield {"norm": name, "as": [0.0, 0.25, 0.5, 1.0, 0.75, 0.375, 1.0, 0.0], "bs": [1.0, 0.5, 0.5, 0.25, 0.0, 0.375, 1.0, 0.0], "long": True}
        yield {"norm": name, "as": [math.nan, 0.25, 1.0, 0.0, 0.5, 0.75], "bs": [0.5, math.nan, 1.0, 0.0, 0.0, 1.0]}
        for _ in range(ctx.scale(2, 30)):
            k = rng.choice([6, 8, 12])
            yield {"norm": name, "as": [rng.choice([0.0, 1.0, rng.random()]) for _ in range(k)],
                   "bs": [rng.choice([0.0, 1.0, rng.random()]) for _ in range(k)]}


def grid(n):
    return [k / n for k in range(n + 1)]


def cases(ctx):
    rng = ctx.rng
    names = sorted(norms_cache())
    g = grid(ctx.scale(64, 256)) if not ctx.thorough else grid(128)
    for name in names:
        for a in g:
            for b in g:
                yield name, a, b, "grid"
    nrand = ctx.scale(1500, 40000)
    for name in names:
        for _ in range(nrand):
            a, b = rng.random(), rng.random()
            if rng.random() < 0.1:
                a = rng.choice([0.0, 1.0, 0.5, a])
            if fragile(a, b):
                ctx.stats.skipped_fragile += 1
                continue
            yield name, a, b, "random"
    # very small positive degrees (tails of Gaussian terms): products underflow, the degrees themselves are not zero
    tiny = [2.0 ** -540, 2.0 ** -1000, 5e-324, 1e-200, 2.0 ** -30]
    for name in names:
        for a in tiny:
            for b in tiny + [0.0, 0.25, 1.0]:
                yield name, a, b, "tiny"
                yield name, b, a, "tiny"
    special = [math.nan, math.inf, -math.inf, -1.5, -0.5, 0.0, 0.25, 0.5, 1.0, 1.5, 2.0, 3.0]
    for name in names:
        for a in special:
            for b in special:
                yield name, a, b, "special"


def correspond(ctx):
    st = ctx.stats
    mism = []
    cs = list(cases(ctx))
    lines = [C.sx(["norm", name, a, b]) for name, a, b, _ in cs]
    outs = ctx.driver.eval(lines)
    for (name, a, b, kind), o in zip(cs, outs):
        st.count(f"{kind}")
        if o in ("bad-op", "bad-parse"):
            mism.append({"case": {"norm": name, "a": a, "b": b}, "impl": None, "model": o,
                         "what": f"norm {name} unknown to the regenerated model"})
            continue
        m = C.parse_x(o)
        v = impl(name, a, b)
        nontrivial = isinstance(m, Fr) and (m not in (0, 1, Fr(a) if a == a and abs(a) != math.inf else None,
                                                      Fr(b) if b == b and abs(b) != math.inf else None)
                                            or (a == a and b == b and abs(a) != math.inf and abs(b) != math.inf and (a + b == 1 or a * b == 1)))
        st.case((name, a, b), bool(nontrivial), sample={"norm": name, "a": a, "b": b, "impl": v, "model": o} if kind == "random" else None)
        st.validated += 1
        if not C.close(v, m):
            mism.append({"case": {"norm": name, "a": a, "b": b}, "impl": v, "model": o,
                         "what": f"{name}({a},{b}): implementation {v!r}, regenerated model {o}"})
            if len(mism) > 20:
                break
    # property oracle on the implementation (documented formulas, laws, arrays) on a sub-stream
    step = max(1, len(cs) // ctx.scale(6000, 60000))
    for name, a, b, kind in cs[::step]:
        ok, detail = oracle({"norm": name, "a": a, "b": b})
        st.count("oracle")
        if not ok:
            mism.append({"case": {"norm": name, "a": a, "b": b}, "violation": True, "detail": detail, "what": detail})
            if len(mism) > 20:
                break
    # the same degrees held in arrays of every memory layout, container and size
    for case in layout_cases(ctx):
        ok, detail = oracle(case)
        st.count("layouts")
        if not ok:
            mism.append({"case": case, "violation": True, "detail": detail, "what": detail})
            break
    # associativity / monotonicity of the implementation on the coarse grid (supporting exploration)
    g = grid(8)
    for name, n in norms_cache().items():
        if name in ("UnboundedSum",):
            continue
        A, B, Cc = np.meshgrid(g, g, g, indexing="ij")
        with np.errstate(all="ignore"):
            l = n.compute(n.compute(A, B), Cc)
            r = n.compute(A, n.compute(B, Cc))
            bad = np.argwhere(np.abs(l - r) > 1e-12)
            st.count("assoc-grid", l.size)
            if name != "NormalizedSum" or True:
                if len(bad):
                    i = tuple(bad[0])
                    mism.append({"case": {"norm": name, "a": float(A[i]), "b": float(B[i]), "c": float(Cc[i])},
                                 "violation": True, "detail": "not associative on the implementation",
                                 "what": f"{name} not associative at {float(A[i]), float(B[i]), float(Cc[i])}"})
            m1 = n.compute(A, B)
            # monotone in the first argument along axis 0
            if np.any(np.diff(m1, axis=0) < -1e-12):
                i = tuple(np.argwhere(np.diff(m1, axis=0) < -1e-12)[0])
                mism.append({"case": {"norm": name, "a": float(A[i]), "b": float(B[i])}, "violation": True,
                             "detail": "not monotone", "what": f"{name} not monotone near {float(A[i]), float(B[i])}"})
    return mism


def search(ctx):
    """failing-input search on the real code (used when a theorem or the tie stops checking)"""
    out = []
    for case in layout_cases(ctx):
        ok, d = oracle(case)
        if not ok:
            return [(case, d)]
    g = grid(64)
    for name in sorted(norms_cache()):
        for a in g:
            for b in g:
                ok, d = oracle({"norm": name, "a": a, "b": b})
                if not ok:
                    return [({"norm": name, "a": a, "b": b}, d)]
    rng = ctx.rng
    for name in sorted(norms_cache()):
        for _ in range(3000):
            a, b = rng.random(), rng.random()
            if fragile(a, b):
                continue
            ok, d = oracle({"norm": name, "a": a, "b": b})
            if not ok:
                return [({"norm": name, "a": a, "b": b}, d)]
    return out

LEVEL_TEXT = ("Lean theorems over every linearly ordered field (hence all float64 inputs as exact rationals, and R): the "
              "formula traced from each compute() equals the documented formula (16 gen_* theorems, re-proved against the "
              "regenerated definitions on every run), and the documented formulas satisfy range, commutativity, monotonicity, "
              "associativity, identity, annihilator, <= min / >= max and the seven dualities for ALL a, b, c in [0,1] - no grid. "
              "The correspondence run compares the implementation with the regenerated model at exact rationals on the "
              "exhaustive dyadic grid, random doubles, special values and arrays.")
LEVEL_NOTE = ("Trusted: Lean kernel, axioms propext/Classical.choice/Quot.sound, Mathlib, the tracer (validated by running the "
              "generated definitions against the real functions), tolerance 1e-9. Not proved: float rounding (e.g. a result "
              "exceeding 1 by an ulp) and NumPy broadcasting - both sampled by the correspondence only.")
TECHNIQUE = "Lean 4 proof (ordered-field algebra) over definitions regenerated from norm.py by symbolic tracing + differential run against the Lean driver"
