"""C13 — Processing is history-free; restart and copy give clean independent engines (DESIGN.md section 8, C13)."""
from __future__ import annotations

import copy as pycopy
import math

import numpy as np

import common as C
import fuzzylite as fl
import gen_engine as G
from props import c01
from streams import copy_graph as S_GRAPH

PID = "C13"
MODULES = ["FlVerif.Props.C13"]
NAMESPACE = "C13"
TIE_A = ["Norm.", "Hedge.", "Term.", "code:fuzzylite.engine.Engine.restart", "code:fuzzylite.variable.OutputVariable.clear",
         "code:fuzzylite.rule.RuleBlock.reload_rules", "code:fuzzylite.rule.RuleBlock.load_rules",
         "code:fuzzylite.rule.RuleBlock.unload_rules", "code:fuzzylite.rule.Rule.load", "code:fuzzylite.rule.Rule.unload",
         "code:fuzzylite.engine.Engine.copy"]

# fifth wave: the constructors of the component classes as record builders (block "Tie A: constructors" of Props/C13.lean)
TIE_A += [
    "code:fuzzylite.term.Term.__init__", "code:fuzzylite.variable.Variable.__init__",
    "code:fuzzylite.variable.InputVariable.__init__", "code:fuzzylite.term.Aggregated.__init__",
    "code:fuzzylite.variable.OutputVariable.__init__", "code:fuzzylite.term.Activated.degree.fset",
    "code:fuzzylite.term.Activated.__init__", "code:fuzzylite.rule.Proposition.__init__",
    "code:fuzzylite.rule.Operator.__init__", "code:fuzzylite.rule.Antecedent.__init__",
    "code:fuzzylite.rule.Consequent.__init__", "code:fuzzylite.rule.Rule.__init__", "code:fuzzylite.rule.Rule.create",
    "code:fuzzylite.rule.RuleBlock.__init__", "code:fuzzylite.engine.Engine.__init__",
]
RULE = ("operation sequences (length <= 8 quick / 12 thorough) of {set inputs, process, restart, copy and switch to the copy, "
        "edit a parameter of the current engine (term height, rule weight, Linear coefficient), toggle an enabled flag - "
        "process - restore} on generated engines (General activation; Mamdani / Takagi-Sugeno with Linear terms holding an "
        "engine reference / Tsukamoto; rules over output variables; with and without lock-previous); every engine object "
        "(original and all copies) is observed after each of its process steps and once more at the end. non-trivial: the "
        "sequence contains a copy or a restart followed by a process that yields a finite value; distinct = distinct "
        "(engine, sequence)")
RULE += (" Every restart of a sequence is run by the driver as Op.Session.restartR (command restart-r of session-r): all rules load -> returns; a rule naming an unknown term -> raises with the inputs NaN and the outputs kept.")
ASSUMPTIONS = ["values compared within 1e-7 with the fragile-point filter of C01 for the model; implementation-vs-fresh-"
               "implementation comparisons within 1e-12",
               "aliasing can only be observed, not modelled: the model's copies are independent by construction"]
LEVEL_TEXT = ("Lean theorems about the engine state machine Op.Session (set inputs / process / restart / reconfigure over the "
              "executable engine model): process_history_free (all outputs lock-previous off => what a process step yields "
              "depends only on configuration and current inputs, for EVERY prior state), process_twice, restart_eq_fresh / "
              "restart_forgets_history / restart_outputs_cleared / restart_idempotent, toggle_restore_noop, step_outs_length "
              "(state shape invariant of every command); together with C01.process_history_free (fuzzy outputs cleared "
              "first). 'Shares no state after copy()' cannot be a theorem about immutable values: it is carried by the "
              "correspondence - every engine object and each of its copies follows its own model stream through "
              "interleaved operations and in-place edits.")
LEVEL_NOTE = ("Trusted: Lean kernel, standard axioms, Op.Session / Op.Engine models tied to engine.py by the correspondence, "
              "copy.deepcopy. The no-aliasing clause is correspondence-only (labelled so).")
RULE += (" Stream `copy-graph` (fv/streams/copy_graph.py, implementation only): engines with Function terms holding substitution "
         "variables, Linear, Discrete and shape terms, copied fresh or after process steps; every mutable object reachable from the "
         "edited engine (dict, array, list, attribute-carrying object) is edited in place - on the copy, on the original, on a copy "
         "of the copy - and the other engines are read after every edit (repr, FLL, values, fuzzy values, memberships of all terms) "
         "and processed at the end against a freshly built engine.")
TECHNIQUE = "Lean 4 proof (state-machine invariants over the executable engine model) + differential run of interleaved operation sequences on engines and their copies"


def mk_seq(rng, desc, length):
    if desc.get("tsukamoto_scenario"):
        # a first step in which no term reaches the output (all blocks off), then ordinary steps; a copy whose weighted
        # defuzzifier is reconfigured; the original must be unaffected and every step must equal a fresh engine's
        r1 = G.gen_rows(rng, desc, 1, special=False)[0]
        r2 = G.gen_rows(rng, desc, 1, special=False)[0]
        return [["set", r1], ["toggle_blocks"], ["process"], ["copy"], ["edit", "wtype", 0, 0.0], ["set", r2], ["process"],
                ["restart"], ["set", r1], ["process"]]
    if rng.random() < 0.3:
        # scenario: a value is established, then restart (or copy + restart), then a step whose outputs are NaN:
        # anything that survived the restart shows up through lock-previous
        r1 = G.gen_rows(rng, desc, 1, special=False)[0]
        nan_row = [math.nan] * len(desc["inputs"])
        mid = rng.choice([[["restart"]], [["copy"], ["restart"]], [["restart"], ["copy"]]])
        return [["set", r1], ["process"]] + mid + [["set", nan_row], ["process"], ["set", r1], ["process"]]
    if rng.random() < 0.2:
        # scenario: process, then edit a component IN PLACE (height of an input / output term, rule weight, coefficient) and
        # process again WITHOUT setting the inputs in between: the result must be that of the edited engine (nothing
        # computed in the first step may be reused)
        r1 = G.gen_rows(rng, desc, 1, special=False)[0]
        ops = [["set", r1], ["process"]]
        for _ in range(rng.choice([1, 2, 3])):
            kind = rng.choice(["params", "params", "height", "weight", "coeff"])
            ops += [["edit", kind, rng.randrange(1 << 20), rng.choice([0.5, 0.25, 0.75])], ["process"]]
        return ops
    ops = []
    n_in = len(desc["inputs"])
    for _ in range(length):
        r = rng.random()
        if r < 0.3:
            ops.append(["set", G.gen_rows(rng, desc, 1)[0]])
        elif r < 0.6:
            ops.append(["process"])
        elif r < 0.7:
            ops.append(["restart"])
        elif r < 0.8:
            ops.append(["copy"])
        elif r < 0.86:
            ops.append(["ruletext", rng.randrange(1 << 20), rng.randrange(1 << 20)])
        elif r < 0.88:
            ops.append(["badrule", rng.randrange(1 << 20)])
        elif r < 0.93:
            kind = rng.choice(["height", "weight", "coeff", "params"])
            ops.append(["edit", kind, rng.randrange(1 << 20), rng.choice([0.5, 0.25, 0.75, 1.0])])
        else:
            ops.append(["toggle", rng.choice(["rule", "block", "input", "output"]), rng.randrange(1 << 20)])
    ops.append(["set", G.gen_rows(rng, desc, 1, special=False)[0]])
    ops.append(["process"])
    return ops


def apply_edit(e, d, op):
    """edit the real engine `e` and its description `d` in the same way; returns False when not applicable"""
    _, kind, pick, val = op
    if kind == "height":
        cands = [(vi, ti, "inputs") for vi, v in enumerate(d["inputs"]) for ti, t in enumerate(v["terms"]) if t["kind"] == "shape"]
        cands += [(vi, ti, "outputs") for vi, v in enumerate(d["outputs"]) for ti, t in enumerate(v["terms"]) if t["kind"] == "shape"]
        if not cands:
            return False
        vi, ti, grp = cands[pick % len(cands)]
        d[grp][vi]["terms"][ti]["height"] = val
        var = (e.input_variables if grp == "inputs" else e.output_variables)[vi]
        var.terms[ti].height = val
        return True
    if kind == "params":
        # new parameters (same class, valid for the variable's range) assigned IN PLACE to the term object of an input
        # variable: the term object stays the same, its membership function changes
        import inspect
        import random as _random
        cands = [(vi, ti) for vi, v in enumerate(d["inputs"]) for ti, t in enumerate(v["terms"]) if t["kind"] == "shape"]
        if not cands:
            return False
        vi, ti = cands[pick % len(cands)]
        v, t = d["inputs"][vi], d["inputs"][vi]["terms"][ti]
        cls, ps, _h = G.shape_term(_random.Random(pick), t["name"], v["min"], v["max"], bool(d.get("exact")), classes=[t["cls"]])
        names = [n for n in inspect.signature(getattr(fl, cls).__init__).parameters if n not in ("self", "name", "height")]
        if len(names) != len(ps):
            return False
        t["params"] = list(ps)
        obj = e.input_variables[vi].terms[ti]
        for n, x in zip(names, ps):
            setattr(obj, n, x)
        return True
    if kind == "wtype":
        # a weighted output over monotonic terms, left at Automatic (Tsukamoto inferred): fix the kind to TakagiSugeno
        cands = [vi for vi, v in enumerate(d["outputs"]) if "type" in v["defuzzifier"] and v["defuzzifier"]["type"] == "Automatic"
                 and all(t["kind"] == "shape" for t in v["terms"])]
        if not cands:
            return False
        vi = cands[pick % len(cands)]
        d["outputs"][vi]["defuzzifier"]["type"] = "TakagiSugeno"
        e.output_variables[vi].defuzzifier.type = fl.WeightedDefuzzifier.Type.TakagiSugeno
        return True
    if kind == "weight":
        cands = [(bi, ri) for bi, b in enumerate(d["blocks"]) for ri, _ in enumerate(b["rules"])]
        bi, ri = cands[pick % len(cands)]
        d["blocks"][bi]["rules"][ri]["weight"] = val
        e.rule_blocks[bi].rules[ri].weight = val
        return True
    cands = [(vi, ti) for vi, v in enumerate(d["outputs"]) for ti, t in enumerate(v["terms"]) if t["kind"] == "linear"]
    if not cands:
        return False
    vi, ti = cands[pick % len(cands)]
    d["outputs"][vi]["terms"][ti]["coeffs"][0] = val
    e.output_variables[vi].terms[ti].coefficients[0] = val
    return True


def toggle_target(e, d, what, pick):
    if what == "rule":
        cands = [(bi, ri) for bi, b in enumerate(d["blocks"]) for ri, _ in enumerate(b["rules"])]
        bi, ri = cands[pick % len(cands)]
        return e.rule_blocks[bi].rules[ri], d["blocks"][bi]["rules"][ri]
    if what == "block":
        bi = pick % len(d["blocks"])
        return e.rule_blocks[bi], d["blocks"][bi]
    if what == "input":
        vi = pick % len(d["inputs"])
        return e.input_variables[vi], d["inputs"][vi]
    vi = pick % len(d["outputs"])
    return e.output_variables[vi], d["outputs"][vi]


def lock_free(d):
    return not any(o["lock_previous"] for o in d["outputs"])


def observe(e):
    return [float(np.take(ov.value, -1)) if ov.enabled else "disabled" for ov in e.output_variables]


def state_at_rest(e):
    with np.errstate(all="ignore"):
        return ([float(np.take(iv.value, -1)) for iv in e.input_variables]
                + [x for ov in e.output_variables
                   for x in (float(np.take(ov.value, -1)), float(np.take(ov.previous_value, -1)), float(len(ov.fuzzy.terms)))])


def proc(e):
    try:
        with np.errstate(all="ignore"):
            e.process()
        return observe(e)
    except Exception as ex:  # noqa: BLE001
        return ["error", type(ex).__name__]


def restart_obs(e):
    """`restart()` of an engine whose rules all load: observed as the model observes it (`restart-r` of the driver)"""
    try:
        e.restart()
        return ["restart", "ok"]
    except Exception as ex:  # noqa: BLE001
        return ["restart", "raises" if isinstance(ex, RuntimeError) else type(ex).__name__]


def run_impl(desc, ops):
    """returns per engine object: (model command stream, observations of its process steps)"""
    engines = [{"e": G.build(desc), "d": pycopy.deepcopy(desc), "stream": [], "obs": [], "inputs": None,
                "clean": True, "fresh_pairs": []}]
    cur = 0
    for op in ops:
        E = engines[cur]
        if op[0] == "set":
            for iv, v in zip(E["e"].input_variables, op[1]):
                iv.value = v
            E["stream"].append(["set"] + list(op[1]))
            E["inputs"] = list(op[1])
        elif op[0] == "process":
            got = proc(E["e"])
            if E["clean"] or (lock_free(E["d"]) and all(o["enabled"] for o in E["d"]["outputs"])):
                # first process after construction / restart: must behave exactly like a freshly built engine
                # (whose inputs are NaN unless they were set since)
                f = G.build(E["d"])
                for iv, v in zip(f.input_variables, E["inputs"] or [math.nan] * len(f.input_variables)):
                    iv.value = v
                E["fresh_pairs"].append((got, proc(f)))
            E["clean"] = False
            E["obs"].append(got)
            E["stream"].append(["process"])
        elif op[0] == "restart":
            E["obs"].append(restart_obs(E["e"]))
            E["stream"].append(["restart-r"])     # the model with the reload step (Op.Session.restartR): every rule loads
            E["inputs"] = None
            E["clean"] = True
            if E["obs"][-1] == ["restart", "ok"]:
                # "restart gives a clean engine": what can be read from it before anything is processed (input values, output
                # values and previous values, sizes of the fuzzy outputs) is what a freshly built engine shows
                E["fresh_pairs"].append((state_at_rest(E["e"]), state_at_rest(G.build(E["d"]))))
        elif op[0] == "copy":
            c = E["e"].copy()
            engines.append({"e": c, "d": pycopy.deepcopy(E["d"]), "stream": list(E["stream"]), "obs": list(E["obs"]),
                            "inputs": E["inputs"], "clean": E["clean"], "fresh_pairs": []})
            cur = len(engines) - 1
        elif op[0] == "ruletext":
            # rewrite a rule (another term in its first conclusion), then restart: the rule must be reloaded
            d = E["d"]
            cands = [(bi, ri) for bi, b in enumerate(d["blocks"]) for ri, _ in enumerate(b["rules"])]
            bi, ri = cands[op[1] % len(cands)]
            rd = d["blocks"][bi]["rules"][ri]
            ov = next(o for o in d["outputs"] if o["name"] == rd["concls"][0]["var"])
            rd["concls"][0]["term"] = ov["terms"][op[2] % len(ov["terms"])]["name"]
            E["e"].rule_blocks[bi].rules[ri].text = G.rule_text(rd)
            E["obs"].append(restart_obs(E["e"]))
            E["stream"].append(["reconfig", G.engine_sx(d)])
            E["stream"].append(["restart-r"])
            E["inputs"] = None
            E["clean"] = True
        elif op[0] == "badrule":
            # a rule whose text no longer loads (unknown term), then restart: `reload_rules` raises RuntimeError after
            # the input values were reset and before any output variable is cleared (model `Op.Session.restartR`,
            # theorem `C13.code_restart`: the driver runs it on the engine whose rule names the unknown term - command
            # `restart-r` - and continues from the state it gives: inputs NaN, the output states kept).
            # The rule is then restored and loaded again - no restart, so what the outputs kept shows in later steps.
            d = E["d"]
            cands = [(bi, ri) for bi, b in enumerate(d["blocks"]) for ri, _ in enumerate(b["rules"])]
            bi, ri = cands[op[1] % len(cands)]
            rule = E["e"].rule_blocks[bi].rules[ri]
            good = rule.consequent.text
            before = [(np.array(ov.value, dtype=float).tolist(), float(ov.previous_value)) for ov in E["e"].output_variables]
            c0 = d["blocks"][bi]["rules"][ri]["concls"][0]
            rule.consequent.text = " ".join([c0["var"], "is"] + c0["hedges"] + ["no_such_term"])
            d_bad = pycopy.deepcopy(d)
            d_bad["blocks"][bi]["rules"][ri]["concls"][0]["term"] = "no_such_term"
            E["stream"].append(["reconfig", G.engine_sx(d_bad)])
            raised = None
            try:
                E["e"].restart()
            except Exception as ex:  # noqa: BLE001
                raised = type(ex).__name__
            E["obs"].append(["restart", "raises" if raised == "RuntimeError" else raised or "ok"])
            E["stream"].append(["restart-r"])
            after = [(np.array(ov.value, dtype=float).tolist(), float(ov.previous_value)) for ov in E["e"].output_variables]
            ins = [float(np.take(iv.value, -1)) for iv in E["e"].input_variables]
            fails = E.setdefault("restart_fail", [])
            if raised != "RuntimeError":
                fails.append(f"restart() of an engine with a rule that does not load raised {raised}, expected RuntimeError")
            if not all(math.isnan(v) for v in ins):
                fails.append(f"restart() that raised left the input values {ins}, expected NaN")
            if repr(before) != repr(after):
                fails.append(f"restart() that raised changed the output variables: (value, previous) {before} -> {after}")
            if rule.is_loaded():
                fails.append("a rule whose load failed reports is_loaded()")
            rule.consequent.text = good
            rule.load(E["e"])
            n_in = len(E["e"].input_variables)
            E["stream"].append(["reconfig", G.engine_sx(d)])
            E["inputs"] = [math.nan] * n_in
        elif op[0] == "edit":
            if apply_edit(E["e"], E["d"], op):
                E["stream"].append(["reconfig", G.engine_sx(E["d"])])
        elif op[0] == "toggle_blocks":
            # every rule block is switched off for one processing step (no term reaches any output), then restored
            olds = [b.enabled for b in E["e"].rule_blocks]
            for b, bd in zip(E["e"].rule_blocks, E["d"]["blocks"]):
                b.enabled = False
                bd["enabled"] = False
            E["stream"].append(["reconfig", G.engine_sx(E["d"])])
            got = proc(E["e"])
            if lock_free(E["d"]) and all(o["enabled"] for o in E["d"]["outputs"]):
                f = G.build(E["d"])
                for iv, v in zip(f.input_variables, E["inputs"] or [math.nan] * len(f.input_variables)):
                    iv.value = v
                E["fresh_pairs"].append((got, proc(f)))
            E["obs"].append(got)
            E["stream"].append(["process"])
            E["clean"] = False
            for b, bd, old in zip(E["e"].rule_blocks, E["d"]["blocks"], olds):
                b.enabled = old
                bd["enabled"] = old
            E["stream"].append(["reconfig", G.engine_sx(E["d"])])
        elif op[0] == "toggle":
            obj, dd = toggle_target(E["e"], E["d"], op[1], op[2])
            old = obj.enabled
            obj.enabled = not old
            dd["enabled"] = not old
            E["stream"].append(["reconfig", G.engine_sx(E["d"])])
            got = proc(E["e"])
            if lock_free(E["d"]) and all(o["enabled"] for o in E["d"]["outputs"]):
                f = G.build(E["d"])
                for iv, v in zip(f.input_variables, E["inputs"] or [math.nan] * len(f.input_variables)):
                    iv.value = v
                E["fresh_pairs"].append((got, proc(f)))
            E["obs"].append(got)
            E["stream"].append(["process"])
            E["clean"] = False
            obj.enabled = old
            dd["enabled"] = old
            E["stream"].append(["reconfig", G.engine_sx(E["d"])])
    # every engine object is processed once more at the end: operating the others must not have changed it
    for E in engines:
        E["obs"].append(proc(E["e"]))
        E["stream"].append(["process"])
    return engines



def oracle(case):
    """history-freeness / restart / copy on the implementation itself, against freshly built engines"""
    if case.get("stream") == S_GRAPH.STREAM:
        return S_GRAPH.oracle(case)
    desc, ops = case["engine"], case["ops"]
    engines = run_impl(desc, ops)
    for k, E in enumerate(engines):
        for msg in E.get("restart_fail", []):
            return False, f"engine object {k}: {msg}"
        for got, want in E["fresh_pairs"]:
            if len(want) != len(got) or not all(c01.feq(a, b, 1e-12) if not isinstance(a, str) else a == b for a, b in zip(got, want)):
                return False, (f"engine object {k}: a process step (after restart(), or with lock-previous off) - or the engine at "
                               f"rest right after restart(): inputs, then value / previous value / number of activated terms per "
                               f"output - gives {got}, a freshly built engine with the same configuration and inputs gives {want}")
        # the final process of every engine object (lock-previous off): equals a fresh engine of its (edited)
        # description processing the same inputs once
        if lock_free(E["d"]) and E["inputs"] is not None and all(o["enabled"] for o in E["d"]["outputs"]):
            f = G.build(E["d"])
            for iv, v in zip(f.input_variables, E["inputs"]):
                iv.value = v
            want = proc(f)
            got = E["obs"][-1]
            if len(want) != len(got) or not all(c01.feq(a, b, 1e-12) if not isinstance(a, str) else a == b for a, b in zip(got, want)):
                return False, (f"engine object {k} ({'original' if k == 0 else 'copy'}): final process gives {got}, a freshly built "
                               f"engine with the same configuration and inputs gives {want}")
    return True, "ok"


def session_fragile(case, base):
    """the implementation's own observations move by more than 1e-9 when every input value moves by one ulp, or pass
    through a degree / value that the C01 filter classifies as fragile"""
    for up in (True, False):
        ops = [[o[0], c01.perturbed(o[1], up)] if o[0] == "set" else o for o in case["ops"]]
        other = run_impl(case["engine"], ops)
        for E, E2 in zip(base, other):
            for o, o2 in zip(E["obs"], E2["obs"]):
                if len(o) != len(o2):
                    return True
                for a, b in zip(o, o2):
                    if isinstance(a, str) or isinstance(b, str):
                        if a != b:
                            return True
                    elif not c01.feq(a, b, 1e-9):
                        return True
    # single-step fragility (tiny degrees, threshold ties, Tsukamoto singularities) at every processed input
    rows_seen = [o[1] for o in case["ops"] if o[0] == "set"]
    for E in base:
        for row in rows_seen:
            o = c01.run_impl(E["d"], [row])[0]
            if c01.is_fragile(E["d"], row, o):
                return True
    # degrees of the exact model that are positive but below 1e-12 (float evaluation underflows / absorbs them)
    lines = [C.sx(["process", G.engine_sx(E["d"]), rows_seen]) for E in base if rows_seen]
    try:
        for line in C.Driver().eval(lines):
            m = C.parse_sx(line)
            if any(mr != "error" and c01.model_tiny(mr) for mr in m[0]):
                return True
    except Exception:  # noqa: BLE001
        pass
    return False


def key(case):
    return case.get("stream") or "session"


def gen_cases(ctx):
    rng = ctx.rng
    for _ in range(ctx.scale(160, 1500)):
        desc = G.gen_engine(rng, activation="general", weighted=rng.random() < 0.5)
        for o in desc["outputs"]:
            if rng.random() < 0.6:
                o["lock_previous"] = False
        if rng.random() < 0.15:
            # an output of the Tsukamoto kind left at Automatic: monotonic terms only
            o = desc["outputs"][0]
            for t in list(o["terms"]):
                cls, ps, h = G.shape_term(rng, "", o["min"], o["max"], False, classes=["Ramp", "SShape", "ZShape", "Sigmoid"])
                t.clear()
                t.update({"name": t.get("name") or "", "kind": "shape", "cls": cls, "params": ps, "height": h})
            for j, t in enumerate(o["terms"]):
                t["name"] = f"o0t{j}"
            o["defuzzifier"] = {"kind": rng.choice(["WeightedAverage", "WeightedSum"]), "type": "Automatic"}
            o["aggregation"] = None
            for oo in desc["outputs"]:
                oo["lock_previous"] = False
                oo["enabled"] = True
            desc["exact"] = False
            desc["tsukamoto_scenario"] = True
        yield {"engine": desc, "ops": mk_seq(rng, desc, rng.randint(3, ctx.scale(8, 12)))}


def correspond(ctx):
    st = ctx.stats
    mism = []
    cases = list(gen_cases(ctx))
    runs = [run_impl(c["engine"], c["ops"]) for c in cases]
    lines, owner = [], []
    for ci, engines in enumerate(runs):
        for k, E in enumerate(engines):
            lines.append(C.sx(["session-r", G.engine_sx(cases[ci]["engine"]), E["stream"]]))
            owner.append((ci, k))
    outs = ctx.driver.eval(lines)
    bad_cases = set()
    for (ci, k), line in zip(owner, outs):
        case, E = cases[ci], runs[ci][k]
        if ci in bad_cases:
            continue
        if line in ("bad-op", "bad-parse"):
            mism.append({"case": case, "model": line, "what": "model rejected the session"})
            bad_cases.add(ci)
            continue
        m = C.parse_sx(line)
        m = [] if m == "()" else m
        bad = None
        if len(m) != len(E["obs"]):
            bad = f"engine object {k}: {len(E['obs'])} observations, model {len(m)}"
        for si, (o, mo) in enumerate(zip(E["obs"], m)):
            if o and o[0] == "restart" or (isinstance(mo, list) and mo and mo[0] == "restart"):
                if list(o) != list(mo):
                    bad = f"engine object {k} step #{si}: restart() {o}, model (Op.Session.restartR) {mo}"
                    break
                continue
            if o and o[0] == "error" or mo == "error":
                if not (o and o[0] == "error" and mo == "error"):
                    bad = f"engine object {k} process #{si}: implementation {o}, model {mo}"
                break
            for oi, (a, b) in enumerate(zip(o, mo)):
                if a == "disabled" or b == "disabled":
                    if a != b:
                        bad = f"engine object {k} process #{si} output {oi}: {a} vs model {b}"
                    continue
                if not C.close(a, C.parse_x(b), **c01.TOL):
                    bad = f"engine object {k} process #{si} output {oi}: value {a!r}, model {b[:40]}"
            if bad:
                break
        if bad:
            ok, detail = oracle(case)
            if len(mism) > 8:
                break
            if not ok:
                mism.append({"case": case, "violation": True, "detail": detail, "what": f"{bad}; {detail}"})
            elif session_fragile(case, runs[ci]):
                st.skipped_fragile += 1
            else:
                mism.append({"case": case, "impl": [E["obs"] for E in runs[ci]], "model": str(m)[:300], "what": bad})
            bad_cases.add(ci)
    for ci, case in enumerate(cases):
        ops = case["ops"]
        nt = any(o[0] in ("copy", "restart") for o in ops) and any(
            isinstance(v, float) and math.isfinite(v) for E in runs[ci] for o in E["obs"] for v in o)
        st.count("with-copy" if any(o[0] == "copy" for o in ops) else "no-copy")
        st.case((repr(case["engine"]), repr(ops)), nt,
                sample={"ops": [o if o[0] != "edit" else o[:2] for o in ops], "objects": len(runs[ci]),
                        "final": [E["obs"][-1] for E in runs[ci]]} if nt and len(st.samples) < 4 else None)
        st.validated += 1
        if ci in bad_cases:
            continue
        ok, detail = oracle(case)
        if not ok:
            mism.append({"case": case, "violation": True, "detail": detail, "what": detail})
            if len(mism) > 8:
                break
    # "shares no state with the original": in-place edits of every mutable object of one engine, the others watched
    # (drawn after the sessions above, so those are the same as before for a seed)
    mism += S_GRAPH.run(ctx)
    return mism


def search(ctx):
    for case in gen_cases(ctx):
        ok, d = oracle(case)
        if not ok:
            return [(case, d)]
    return S_GRAPH.search(ctx)
