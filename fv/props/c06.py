"""C06 — Rule antecedents mean what the rule grammar says (DESIGN.md section 8, C06/C17)."""
from __future__ import annotations

import glob
import json
import math
import re
import os
from fractions import Fraction as Fr

import numpy as np

import common as C
import fuzzylite as fl

PID = "C06"
MODULES = ["FlVerif.Props.C06"]
NAMESPACE = "C06"
TIE_A = ["Norm.", "Hedge.", "code:fuzzylite.term.Function.infix_to_postfix", "code:fuzzylite.rule.Antecedent.load",
         "code:fuzzylite.rule.Antecedent.activation_degree", "code:fuzzylite.term.Aggregated.activation_degree"]
TIE_A += ["code:fuzzylite.rule.Proposition.__str__", "code:fuzzylite.rule.Antecedent.prefix",
          "code:fuzzylite.rule.Antecedent.infix", "code:fuzzylite.rule.Antecedent.postfix"]
RULE = ("antecedent trees to depth 4 over 1-3 input variables and 1-2 output variables (with 0-3 prior activations, "
        "repeated terms, every aggregation operator or none), 0-3 hedges per proposition, `any`, disabled variables, "
        "written with minimal | random redundant | full parentheses, with / without spaces around parentheses, every "
        "conjunction x disjunction operator pair (and a missing operator), weights, 1-3 input rows evaluated one by one "
        "and as one batch.  Non-trivial: the antecedent has at least one connective or hedge and the degree is not 0/1; "
        "distinct = distinct (text, engine, operators, inputs)")
ASSUMPTIONS = ["degrees compared with the exact value within 1e-9; inputs where a discontinuous operator (drastic / nilpotent "
               "norms) receives inexactly computed operands within 1e-9 of its threshold are skipped and counted",
               "names are identifiers that are not keywords, hedge or element names (name-clash handling of the real "
               "tokeniser is exercised by C16's malformed stream)"]
LEVEL_TEXT = ("Lean theorems: load_print - for EVERY antecedent tree over the engine's names and EVERY writing with at least "
              "the necessary and any number of redundant parentheses, infix_to_postfix (shared, proved shunting-yard loop "
              "over the regenerated element table) followed by the five-flag state machine of Antecedent.load builds "
              "exactly that tree; table_facts (and tighter than or, both left-associative, by kernel evaluation of the "
              "regenerated table); and_tighter_or, left_assoc, minimal_writing_shapes; degree_denotation - activate_with = "
              "weight x denotation with the block's operators (ValueError when one is missing); hedge_order, any_is_one "
              "(with the hedge traced from hedge.py), disabled_is_zero, output_term_degree.  Correspondence: the same "
              "executable model (rule parse, character-level format_infix, loop, state machine, evaluation with the "
              "regenerated term / hedge / norm formulas at exact rationals) against Rule.create / activate_with.")
LEVEL_NOTE = ("Carried by the correspondence only: that the hand-written Op model mirrors rule.py (sampled), batch = row by "
              "row, the character-level tokeniser, Python object behaviour (dict lookups of names).  Trusted: Lean kernel, "
              "standard axioms, tracer (term/hedge/norm formulas), tolerance 1e-9, Fn.rat.")
TECHNIQUE = ("Lean 4 proof (shunting-yard + load state machine round trip, denotational evaluation) over the regenerated "
             "element table + differential run against Rule.create/activate_with")

HEDGES = ["very", "somewhat", "not", "extremely", "seldom"]
IN_NAMES = ["temp", "speed", "load", "a", "b"]
OUT_NAMES = ["out", "power"]
TERM_NAMES = ["lo", "mid", "hi", "cold", "hot", "t1", "t2"]
TNORMS = ["AlgebraicProduct", "BoundedDifference", "DrasticProduct", "EinsteinProduct", "HamacherProduct", "Minimum",
          "NilpotentMinimum"]
SNORMS = ["AlgebraicSum", "BoundedSum", "DrasticSum", "EinsteinSum", "HamacherSum", "Maximum", "NilpotentMaximum",
          "NormalizedSum", "UnboundedSum"]
DISCONT = {"DrasticProduct", "NilpotentMinimum", "DrasticSum", "NilpotentMaximum"}


# ------------------------------------------------------------------------------------------------ engines
def gen_term(rng, name):
    cls = rng.choice(["Triangle", "Triangle", "Trapezoid", "Ramp", "Rectangle", "Gaussian", "Sigmoid", "ZShape", "SShape"])
    h = rng.choice([1.0, 1.0, 1.0, 0.5, 0.75])
    pts = sorted(rng.choice([0.0, 0.1, 0.2, 0.25, 0.3, 0.4, 0.5, 0.6, 0.7, 0.75, 0.8, 0.9, 1.0]) for _ in range(4))
    if cls == "Triangle":
        ps = [pts[0], pts[1], pts[3]] if pts[0] < pts[3] else [0.0, 0.5, 1.0]
    elif cls == "Trapezoid":
        ps = pts if pts[0] < pts[3] else [0.0, 0.25, 0.75, 1.0]
    elif cls in ("Ramp",):
        ps = [pts[0], pts[3]] if pts[0] != pts[3] else [0.0, 1.0]
        if rng.random() < 0.5:
            ps = ps[::-1]
    elif cls in ("Rectangle", "ZShape", "SShape"):
        ps = [pts[0], pts[3]] if pts[0] < pts[3] else [0.0, 1.0]
    elif cls == "Gaussian":
        ps = [pts[1], rng.choice([0.1, 0.2, 0.3])]
    else:
        ps = [pts[1], rng.choice([-12.0, -5.0, 5.0, 12.0])]
    return [name, cls, ps, h]


def gen_engine(rng):
    vars_ = []
    nin = rng.choice([1, 2, 2, 3])
    for n in rng.sample(IN_NAMES, nin):
        terms = [gen_term(rng, t) for t in rng.sample(TERM_NAMES, rng.choice([2, 3]))]
        vars_.append({"name": n, "out": False, "enabled": rng.random() < 0.88, "terms": terms, "agg": None, "acts": []})
    for n in rng.sample(OUT_NAMES, rng.choice([1, 1, 2])):
        terms = [gen_term(rng, t) for t in rng.sample(TERM_NAMES, 2)]
        acts = []
        for _ in range(rng.choice([0, 0, 1, 2, 3])):
            d = rng.choice([0.0, 1.0, 0.5, 0.25, rng.random(), rng.random()])
            if rng.random() < 0.04:
                d = rng.choice([math.nan, math.inf, -math.inf])
            acts.append([rng.choice(terms)[0], d])
        vars_.append({"name": n, "out": True, "enabled": rng.random() < 0.9, "terms": terms,
                      "agg": rng.choice([None, "Maximum", "AlgebraicSum", "BoundedSum", "UnboundedSum", "EinsteinSum"]),
                      "acts": acts})
    return vars_


def gen_ante(rng, vars_, depth):
    if depth <= 0 or rng.random() < 0.2:
        v = rng.choice(vars_)
        hs = [rng.choice(HEDGES) for _ in range(rng.choice([0, 0, 1, 1, 2, 3]))]
        if rng.random() < 0.15:
            return ["any", v["name"], hs]
        return ["prop", v["name"], hs, rng.choice(v["terms"])[0]]
    return [rng.choice(["and", "or"]), gen_ante(rng, vars_, depth - 1), gen_ante(rng, vars_, depth - 1)]


LV = {"and": (4, 4), "or": (2, 2)}   # (L, R) = 2*level, both left-associative; `and` tighter


def words_of(t):
    if t[0] == "prop":
        return [t[1], "is"] + t[2] + [t[3]]
    return [t[1], "is"] + t[2] + ["any"]


def awriting(t, a, b, rng=None, p=0.0, full=False):
    if rng is not None and p > 0 and rng.random() < p:
        return ["("] + awriting(t, 0, 0, rng, p, full) + [")"]
    if t[0] in ("prop", "any"):
        return words_of(t)
    L, R = LV[t[0]]
    if full or L < a or R < b:
        return ["("] + awriting(t[1], 0, L, rng, p, full) + [t[0]] + awriting(t[2], R + 1, 0, rng, p, full) + [")"]
    return awriting(t[1], a, L, rng, p, full) + [t[0]] + awriting(t[2], R + 1, b, rng, p, full)


def apostfix(t):
    if t[0] in ("prop", "any"):
        return words_of(t)
    return apostfix(t[1]) + apostfix(t[2]) + [t[0]]


def ainfix(t):
    if t[0] in ("prop", "any"):
        return words_of(t)
    return ainfix(t[1]) + [t[0]] + ainfix(t[2])


def join(toks, rng):
    """spaces between words; parentheses with or without surrounding spaces"""
    out = []
    for i, t in enumerate(toks):
        if i:
            prev = toks[i - 1]
            if prev in "()" or t in "()":
                out.append(rng.choice(["", " ", "  "]) if rng is not None else " ")
            else:
                out.append(rng.choice([" ", " ", "  ", "\t"]) if rng is not None else " ")
        out.append(t)
    return "".join(out)


def depth_of(t):
    return 0 if t[0] in ("prop", "any") else 1 + max(depth_of(t[1]), depth_of(t[2]))


GHOST = "ghost"    # an input variable without terms: Python's `if variable:` is false for it (Variable.__len__)


def termless_case(rng):
    """an engine with a variable that has no terms, used as `ghost is [hedges] any` (alone or under and / or): the
    loaders do not recognise its name (`if variable:`), the rule is rejected with a SyntaxError; the model must agree"""
    vars_ = gen_engine(rng)
    vars_.insert(sum(1 for v in vars_ if not v["out"]), {"name": GHOST, "out": False, "enabled": True, "terms": [],
                                                         "agg": None, "acts": []})
    ghost = ["any", GHOST, [rng.choice(HEDGES) for _ in range(rng.choice([0, 0, 1]))]]
    usable = [v for v in vars_ if v["terms"]]
    shape = rng.choice(["alone", "left", "right"])
    tree = ghost if shape == "alone" else ([rng.choice(["and", "or"]), ghost, gen_ante(rng, usable, 1)] if shape == "left"
                                           else [rng.choice(["and", "or"]), gen_ante(rng, usable, 1), ghost])
    ov = [v for v in vars_ if v["out"]][0]
    text = "if " + " ".join(awriting(tree, 0, 0)) + f" then {ov['name']} is {ov['terms'][0][0]}"
    row = {v["name"]: rng.random() for v in vars_ if not v["out"]}
    return {"kind": "termless", "style": "min", "tree": tree, "text": text, "vars": vars_, "conj": "Minimum", "disj": "Maximum",
            "weight": 1.0, "rows": [row]}


def vars_of(t):
    return [t[1]] if t[0] in ("prop", "any") else vars_of(t[1]) + vars_of(t[2])


def make_case(rng):
    if rng.random() < 0.02:
        return termless_case(rng)
    if rng.random() < 0.03:
        # a well-formed rule one of whose variables loses its terms after Rule.load: the variable object is false
        # (`Variable.__len__`), the evaluation raises ValueError (model: `DegCtx.hasTerms`, Op.degree)
        case = make_case(rng)
        if case["kind"] == "wf":
            case["kind"] = "lost_terms"
            case["clear_after_load"] = sorted(set(rng.sample(vars_of(case["tree"]), 1)))
        return case
    vars_ = gen_engine(rng)
    tree = gen_ante(rng, vars_, rng.choice([0, 1, 2, 2, 3, 3, 4, 4]))
    style = rng.choice(["min", "min", "rand", "rand", "full"])
    toks = awriting(tree, 0, 0) if style == "min" else (awriting(tree, 0, 0, rng, rng.choice([0.15, 0.35])) if style == "rand"
                                                         else awriting(tree, 0, 0, full=True))
    w = rng.choice([None, None, 0.5, 0.25, 0.75, 0.333, 2.0, round(rng.random(), 3)])
    ov = [v for v in vars_ if v["out"]][0]
    text = "if " + join(toks, rng if rng.random() < 0.8 else None) + f" then {ov['name']} is {ov['terms'][0][0]}"
    if w is not None:
        text += f" with {w}"
    conj = rng.choice(TNORMS) if rng.random() < 0.95 else None
    disj = rng.choice(SNORMS) if rng.random() < 0.95 else None
    rows = []
    for _ in range(rng.choice([1, 2, 3])):
        row = {}
        for v in vars_:
            if not v["out"]:
                x = rng.choice([rng.random(), rng.random(), rng.choice([0.0, 0.25, 0.5, 0.75, 1.0]), rng.uniform(-0.5, 1.5)])
                if rng.random() < 0.03:
                    x = rng.choice([math.nan, math.inf, -math.inf])
                row[v["name"]] = x
        rows.append(row)
    return {"kind": "wf", "style": style, "tree": tree, "text": text, "vars": vars_, "conj": conj, "disj": disj,
            "weight": 1.0 if w is None else w, "rows": rows}


def history_case(rng):
    """`the activation degree of a LOADED rule equals its weight times the value of its antecedent`: the rule is the one
    its current text says, however the Rule object got there.  The final step of every history is `rule.load(engine)`
    called directly on the object (not through a rule block, which unloads its rules first); before that the object was
    created and loaded with an earlier text (another rule of the grammar over the same engine, with its own weight - or
    the same text), in this engine or in a second build of it whose input values stay unset, was possibly evaluated,
    possibly unloaded, and got its present text through `rule.text = ...` or `rule.parse(...)`.  Nothing of the
    earlier expression, weight or engine may survive: the observations are those of a freshly created rule."""
    while True:
        case = make_case(rng)
        if case["kind"] == "wf":
            break
    vars_ = case["vars"]
    if rng.random() < 0.8:
        tree = gen_ante(rng, vars_, rng.choice([0, 1, 1, 2, 3]))
        ov = [v for v in vars_ if v["out"]][-1]
        w = rng.choice([None, 0.5, 0.25, 2.0, round(rng.random(), 3)])
        first = "if " + " ".join(awriting(tree, 0, 0)) + f" then {ov['name']} is {ov['terms'][-1][0]}"
        if w is not None:
            first += f" with {w}"
    else:
        first = case["text"]
    steps = ["activate"] if rng.random() < 0.4 else []
    change = [rng.choice(["set_text", "parse"])]
    r = rng.random()
    steps += (["unload"] + change) if r < 0.15 else (change + ["unload"]) if r < 0.3 else change
    steps += ["load"] + (["load"] if rng.random() < 0.15 else [])
    case["history"] = {"first": first, "engine": "same" if rng.random() < 0.8 else "other", "steps": steps}
    return case


def create_rule(case, engine):
    """the loaded Rule object of the case: `Rule.create(text, engine)`, or the object obtained by the case's history"""
    h = case.get("history")
    if not h:
        return fl.Rule.create(case["text"], engine)
    rule = fl.Rule.create(h["first"], engine if h["engine"] == "same" else build_engine(case))
    for step in h["steps"]:
        if step == "activate":
            try:
                with np.errstate(all="ignore"):
                    rule.activate_with(norm_of(case["conj"], "t"), norm_of(case["disj"], "s"))
            except Exception:  # noqa: BLE001
                pass        # a missing operator / unloaded rule: the evaluation is only a step of the history
        elif step == "set_text":
            rule.text = case["text"]
        elif step == "parse":
            rule.parse(case["text"])
        elif step == "unload":
            rule.unload()
        elif step == "load":
            rule.load(engine)
        else:
            raise AssertionError(step)
    return rule


# ------------------------------------------------------------------------------------------------ implementation side
def errkind(ex):
    if isinstance(ex, RecursionError):
        return "INTERNAL:RecursionError"
    if isinstance(ex, SyntaxError):
        return "syntax"
    if isinstance(ex, ValueError):
        return "value"
    if isinstance(ex, LookupError):
        return "lookup"
    if isinstance(ex, RuntimeError):
        return "runtime"
    return "INTERNAL:" + type(ex).__name__


def build_engine(case):
    ivs, ovs = [], []
    for v in case["vars"]:
        terms = [getattr(fl, cls)(n, *[float(p) for p in ps], float(h)) for n, cls, ps, h in v["terms"]]
        if v["out"]:
            ov = fl.OutputVariable(v["name"], enabled=v["enabled"], terms=terms)
            ov.aggregation = fl.settings.factory_manager.snorm.construct(v["agg"]) if v["agg"] else None
            ov.fuzzy.aggregation = ov.aggregation
            byname = {t.name: t for t in terms}
            for tn, d in v["acts"]:
                ov.fuzzy.terms.append(fl.Activated(byname[tn], float(d)))
            ovs.append(ov)
        else:
            ivs.append(fl.InputVariable(v["name"], enabled=v["enabled"], terms=terms))
    return fl.Engine("e", input_variables=ivs, output_variables=ovs)


def norm_of(name, kind):
    if name is None:
        return None
    fac = fl.settings.factory_manager.tnorm if kind == "t" else fl.settings.factory_manager.snorm
    return fac.construct(name)


def run_impl(case):
    out = {"load": "ok", "postfix": None, "infix": None, "degrees": None, "batch": None, "msg": None, "attr_ok": True}
    engine = build_engine(case)
    try:
        rule = create_rule(case, engine)
    except Exception as ex:  # noqa: BLE001
        out["load"] = errkind(ex)
        out["msg"] = f"{type(ex).__name__}: {str(ex)[:200]}"
        return out
    out["postfix"] = rule.antecedent.postfix().split()
    out["infix"] = rule.antecedent.infix().split()
    out["weight"] = float(rule.weight)
    for name in case.get("clear_after_load", []):      # kind "lost_terms": the variable loses its terms after Rule.load
        for v in engine.variables:
            if v.name == name:
                v.terms.clear()
    conj, disj = norm_of(case["conj"], "t"), norm_of(case["disj"], "s")
    degs = []
    with np.errstate(all="ignore"):
        for row in case["rows"]:
            for iv in engine.input_variables:
                iv.value = float(row[iv.name])
            try:
                d = rule.activate_with(conj, disj)
                if not np.array_equal(np.asarray(d), np.asarray(rule.activation_degree), equal_nan=True):
                    out["attr_ok"] = False
                degs.append(float(d))
            except Exception as ex:  # noqa: BLE001
                degs.append(errkind(ex))
                out["msg"] = f"{type(ex).__name__}: {str(ex)[:200]}"
        out["degrees"] = degs
        # the same rows as one batch
        if len(case["rows"]) > 1:
            for iv in engine.input_variables:
                iv.value = np.array([float(r[iv.name]) for r in case["rows"]])
            try:
                d = np.asarray(rule.activate_with(conj, disj), dtype=float)
                out["batch"] = [float(u) for u in (d if d.ndim else np.full(len(case["rows"]), float(d)))]
            except Exception as ex:  # noqa: BLE001
                out["batch"] = errkind(ex)
    return out


def same(a, b):
    ca, cb = C.cls_of(a), C.cls_of(b)
    if ca != "fin" or cb != "fin":
        return ca == cb
    return abs(a - b) <= 1e-9 + 1e-9 * abs(b)


class Frag:
    def __init__(self):
        self.hit = None


def _dyadic(x):
    return math.isfinite(x) and float(x * 2 ** 20).is_integer()


def doc_degree(case, engine, row, frag):
    """documented value of the antecedent at one row: recursion over the intended tree with the library's own leaf
    functions (term membership, hedges, norms) -> float, or 'value' when an operator is missing.  Every value carries
    an `exact` flag (dyadic and derived from exact values only) used to recognise numerically fragile points."""
    byname = {v.name: v for v in engine.variables}
    conj, disj = norm_of(case["conj"], "t"), norm_of(case["disj"], "s")
    hf = fl.settings.factory_manager.hedge

    def norm_frag(name, a, b, exact):
        """a norm whose deciding quantity is within 1e-9 of a threshold / zero denominator without being exact"""
        if exact or not (math.isfinite(a) and math.isfinite(b)):
            return
        den = {"HamacherSum": 1 - a * b, "HamacherProduct": a + b - a * b, "EinsteinProduct": 2 - (a + b - a * b),
               "EinsteinSum": 1 + a * b}.get(name)
        if den is not None and abs(den) < 1e-6:
            frag.hit = name
        if name == "DrasticProduct" and abs(max(a, b) - 1) < 1e-9:
            frag.hit = name
        if name == "DrasticSum" and abs(min(a, b)) < 1e-9:
            frag.hit = name
        if name in ("NilpotentMinimum", "NilpotentMaximum") and abs(a + b - 1) < 1e-9:
            frag.hit = name

    def go(t):
        if t[0] in ("prop", "any"):
            var = byname[t[1]]
            if not var.enabled:
                return 0.0, True
            if t[0] == "any":
                y, ex = 1.0, True
            else:
                term = {u.name: u for u in var.terms}[t[3]]
                if isinstance(var, fl.OutputVariable):
                    agg = var.fuzzy.aggregation or fl.UnboundedSum()
                    ds = [float(np.nan_to_num(d, nan=0.0, neginf=0.0, posinf=1.0)) for n, d in
                          [(a.term.name, a.degree) for a in var.fuzzy.terms] if n == term.name]
                    y = 0.0
                    if ds:
                        y = ds[0]
                        for d in ds[1:]:
                            y = float(np.nan_to_num(agg.compute(y, d), nan=0.0, neginf=0.0, posinf=1.0))
                    ex = all(_dyadic(d) for d in ds) and _dyadic(y)
                else:
                    y = float(term.membership(float(row[t[1]])))
                    ex = _dyadic(y)      # piecewise terms are exactly 0 / height / dyadic away from their slopes
            for h in reversed(t[2]):
                # square roots of a difference with cancellation: an error of one ulp in y becomes sqrt(ulp) ~ 1e-8
                if not ex and h == "seldom" and (abs(y - 1) < 1e-6 or abs(y) < 1e-6):
                    frag.hit = "seldom"
                if not ex and h == "somewhat" and abs(y) < 1e-10:
                    frag.hit = "somewhat"
                y = float(hf.construct(h).hedge(y))
                ex = ex and _dyadic(y)
            return y, ex
        (a, ea), (b, eb) = go(t[1]), go(t[2])
        if a == "value" or b == "value":
            return "value", True
        op = conj if t[0] == "and" else disj
        if op is None:
            return "value", True
        norm_frag(case["conj"] if t[0] == "and" else case["disj"], a, b, ea and eb)
        y = float(op.compute(a, b))
        return y, ea and eb and _dyadic(y)
    with np.errstate(all="ignore"):
        d, _ = go(case["tree"])
    return d if d == "value" else float(case["weight"]) * d


def key(case):
    return f"{case.get('kind')}:{case.get('text')}"


def oracle(case):
    ok, detail = oracle_fresh(case)
    h = case.get("history")
    if not ok and h:
        detail += (f" [the Rule object was created with '{h['first']}' in {'this' if h['engine'] == 'same' else 'another'} "
                   f"engine, then: {', '.join(h['steps'])} - the last load(engine) called on the rule itself]")
    return ok, detail


def oracle_fresh(case):
    r = run_impl(case)
    if r["load"].startswith("INTERNAL"):
        return False, f"internal error loading '{case['text']}': {r['msg']}"
    if case.get("kind") == "termless":
        # not an antecedent over the engine's usable names (Lean: AnteOK needs `findVar`, i.e. a variable with a term)
        if r["load"] == "syntax":
            return True, "variable without terms is not recognised: rejected with a SyntaxError"
        return False, (f"'{case['text']}' uses the variable '{GHOST}' that has no terms: expected a SyntaxError "
                       f"(`if variable:` is false for it), got load={r['load']} {r['msg']}")
    if r["load"] != "ok":
        return False, f"rule from the grammar rejected: '{case['text']}': {r['load']} {r['msg']}"
    if case.get("kind") == "lost_terms":
        # a variable of the loaded antecedent has no terms any more: the variable object is false (`Variable.__len__`),
        # `Antecedent.activation_degree` raises ValueError (Lean: the else-branch of C06.code_activationDegree)
        if all(d == "value" for d in r["degrees"]):
            return True, "a variable that lost its terms after loading: ValueError"
        return False, (f"'{case['text']}' evaluated after {case['clear_after_load']} lost their terms: expected a ValueError "
                       f"for every row, got {r['degrees']}")
    exp_pf, exp_in = apostfix(case["tree"]), ainfix(case["tree"])
    if r["postfix"] != exp_pf:
        return False, f"'{case['text']}' read as [{' '.join(r['postfix'])}], grammar reading [{' '.join(exp_pf)}]"
    if r["infix"] != exp_in:
        return False, f"infix() of '{case['text']}' is [{' '.join(r['infix'])}], expected [{' '.join(exp_in)}]"
    if not r["attr_ok"]:
        return False, "Rule.activation_degree differs from the value returned by activate_with"
    engine = build_engine(case)
    for i, row in enumerate(case["rows"]):
        fr = Frag()
        d = doc_degree(case, engine, row, fr)
        got = r["degrees"][i]
        if d == "value" or isinstance(got, str):
            if d != got:
                return False, f"'{case['text']}' row {i}: implementation {got!r}, documented {d!r} ({r['msg']})"
            continue
        if fr.hit:
            continue
        if not same(got, d):
            return False, (f"'{case['text']}' with {case['conj']}/{case['disj']} weight {case['weight']} at {row}: "
                           f"activate_with = {got!r}, weight x documented denotation = {d!r}")
        if isinstance(r["batch"], list) and not same(r["batch"][i], got):
            return False, f"'{case['text']}' row {i}: batch {r['batch'][i]!r} differs from the single-row value {got!r}"
        if isinstance(r["batch"], str):
            return False, f"'{case['text']}': batch evaluation raises {r['batch']} although the rows evaluate"
    return True, "ok"


def shrink(case):
    """smallest sub-antecedent (minimal writing, one row) on which the property oracle still fails"""
    best = case
    budget = 120
    improved = True
    ov = [v for v in case["vars"] if v["out"]][0]
    tail = f" then {ov['name']} is {ov['terms'][0][0]}" + (f" with {case['weight']}" if case["weight"] != 1.0 else "")

    def with_tree(c, t, rows):
        return dict(c, tree=t, rows=rows, style="min", text="if " + " ".join(awriting(t, 0, 0)) + tail)
    while improved and budget > 0:
        improved = False
        t = best["tree"]
        cands = [with_tree(best, t, [r]) for r in best["rows"]] if len(best["rows"]) > 1 else []
        cands += [with_tree(best, t, best["rows"])]
        if t[0] in ("and", "or"):
            cands += [with_tree(best, t[1], best["rows"]), with_tree(best, t[2], best["rows"])]
        elif t[2]:
            cands += [with_tree(best, [t[0], t[1], t[2][1:]] + t[3:], best["rows"])]
        for cand in cands:
            budget -= 1
            if cand["text"] == best["text"] and cand["rows"] == best["rows"]:
                continue
            try:
                ok, _ = oracle(cand)
            except Exception:  # noqa: BLE001
                ok = True
            if not ok:
                best, improved = cand, True
                break
    return best


# ------------------------------------------------------------------------------------------------ model side
def var_sx(v):
    terms = [[C.hexs(n), cls, [float(p) for p in ps], float(h)] for n, cls, ps, h in v["terms"]]
    acts = [[C.hexs(n), float(d)] for n, d in v["acts"]]
    return [C.hexs(v["name"]), "out" if v["out"] else "in", "1" if v["enabled"] else "0", terms, v["agg"] or "none", acts]


def model_line(case):
    rows = [[[C.hexs(k), float(x)] for k, x in row.items()] for row in case["rows"]]
    line = ["rule", C.hexs(case["text"]), [var_sx(v) for v in case["vars"]],
            [case["conj"] or "none", case["disj"] or "none"], rows]
    if case.get("clear_after_load"):
        # the variables that lose their terms after Rule.load: `hasTerms` of the model's evaluation context is false for them
        line.append([C.hexs(n) for n in case["clear_after_load"]])
    return C.sx(line)


def unhex(a):
    return bytes.fromhex(a[1:]).decode("utf-8")


def corpus():
    out = []
    for p in sorted(glob.glob(os.path.join(C.VERIF, "corpus", PID, "*.json"))):
        d = json.load(open(p))
        out.append(d.get("case", d))
    return out


NEAR_ONE = [0.9995, 0.99999, 1.0005, 1.00001, 0.999, 1.001, 1.0 - 2.0 ** -20, 1.0 + 2.0 ** -20, 0.9999999, 0.99]


def weight_case(rng):
    """`weight times the value of the antecedent` for weights next to 1, on either side of the library's comparison tolerance
    (1e-3): a weight that is not 1 is applied, however close to 1 it is (drawn after the other streams)"""
    while True:
        c = make_case(rng)
        if c is not None and c["kind"] == "wf":
            break
    w = rng.choice(NEAR_ONE)
    c["text"] = re.sub(r" with [-+.\deE]+$", "", c["text"]) + f" with {w!r}"
    c["weight"] = w
    return c


def correspond(ctx):
    st = ctx.stats
    mism = []
    cs = corpus() + [make_case(ctx.rng) for _ in range(ctx.scale(2500, 30000))]
    # rule objects with a history (drawn after the main stream): the model reads the present text only
    cs += [history_case(ctx.rng) for _ in range(ctx.scale(250, 3000))]
    cs += [weight_case(ctx.rng) for _ in range(ctx.scale(120, 1500))]
    outs = ctx.driver.eval([model_line(c) for c in cs])
    for idx, (case, o) in enumerate(zip(cs, outs)):
        st.count(f"depth{depth_of(case['tree'])}")
        st.count(case["style"])
        if case.get("history"):
            st.count("history:" + ">".join(case["history"]["steps"]))
        if o in ("bad-op", "bad-parse"):
            mism.append({"case": case, "model": o, "what": "driver could not read the case (term class / operator unknown "
                                                           "to the regenerated model?)"})
            continue
        m = C.parse_sx(o)
        r = run_impl(case)
        bad = None
        nt = False
        if r["load"].startswith("INTERNAL"):
            bad = f"internal error: {r['msg']}"
        elif m[0] == "err":
            if r["load"] != m[1]:
                bad = f"model rejects ({m[1]} at {m[2]}), implementation load={r['load']} {r['msg']}"
        elif r["load"] != "ok":
            bad = f"model accepts, implementation load={r['load']} {r['msg']}"
        else:
            mpf = [unhex(a) for a in m[1]]
            minf = [unhex(a) for a in m[2]]
            if mpf != r["postfix"] or minf != r["infix"]:
                bad = f"postfix/infix: model [{' '.join(mpf)}] / implementation [{' '.join(r['postfix'])}]"
            elif not same(r["weight"], C.parse_x(m[4]) if m[4] not in ("nan", "inf", "-inf") else m[4]):
                bad = f"weight: model {m[4]}, implementation {r['weight']}"
            else:
                engine = build_engine(case)
                for i, md in enumerate(m[5]):
                    got = r["degrees"][i]
                    if isinstance(md, list):     # (err kind)
                        if got != md[1]:
                            bad = f"row {i}: model raises {md[1]}, implementation {got!r}"
                        continue
                    if isinstance(got, str):
                        bad = f"row {i}: implementation raises {got} ({r['msg']}), model {md}"
                        break
                    ex = C.parse_x(md)
                    fr = Frag()
                    doc_degree(case, engine, case["rows"][i], fr)
                    if fr.hit:
                        st.skipped_fragile += 1
                        continue
                    st.validated += 1
                    if isinstance(ex, Fr) and ex not in (0, 1) and depth_of(case["tree"]) + sum(
                            len(t[2]) for t in [case["tree"]] if t[0] in ("prop", "any")) > 0:
                        nt = True
                    if not C.close(got, ex):
                        bad = (f"row {i} {case['rows'][i]}: activate_with = {got!r}, model "
                               f"{float(ex) if isinstance(ex, Fr) else ex!r}")
                        break
        st.case((case["text"], json.dumps(case["vars"], sort_keys=True), case["conj"], case["disj"],
                 json.dumps(case["rows"], sort_keys=True)), nt,
                sample={"text": case["text"], "conj": case["conj"], "disj": case["disj"], "rows": case["rows"][:1],
                        "impl": r["degrees"], "model": o[-120:]} if nt else None)
        if bad or idx % 2 == 0:
            ok, detail = oracle(case)
            st.count("oracle")
            if not ok:
                small = shrink(case)
                ok2, detail2 = oracle(small)
                mism.append({"case": small if not ok2 else case, "violation": True,
                             "detail": detail2 if not ok2 else detail, "what": bad or (detail2 if not ok2 else detail)})
            elif bad:
                mism.append({"case": case, "impl": {k: r[k] for k in ("load", "postfix", "degrees", "batch")},
                             "model": o[:300], "what": bad})
        if len(mism) > 25:
            break
    return mism


def search(ctx):
    for c in corpus() + [make_case(ctx.rng) for _ in range(ctx.scale(3000, 20000))] + \
            [history_case(ctx.rng) for _ in range(ctx.scale(300, 2000))] + [weight_case(ctx.rng) for _ in range(200)]:
        ok, d = oracle(c)
        if not ok:
            return [(c, d)]
    return []
