"""C10 — Weighted defuzzifiers compute the grouped weighted average / sum (DESIGN.md section 8, C10)."""
from __future__ import annotations

import glob
import json
import math
import os
import sys
from fractions import Fraction as Fr

import numpy as np

import common as C
import fuzzylite as fl
import user_terms as U
from props import c04
from streams import highest_activated as S_HIGH
from streams import wave5x as S_W5

sys.set_int_max_str_digits(0)

PID = "C10"
MODULES = ["FlVerif.Props.C10"]
NAMESPACE = "C10"
MONO = ["Ramp", "Sigmoid", "Concave", "SShape", "ZShape"]
NONMONO = ["Triangle", "Trapezoid", "Rectangle", "Gaussian", "Bell"]
TIE_A = (["Norm."] + [f"Term.{c}.membership" for c in MONO + NONMONO] + [f"Term.{c}.tsukamoto" for c in MONO]
         + ["code:fuzzylite.term.Aggregated.grouped_terms", "code:fuzzylite.defuzzifier.WeightedAverage.defuzzify",
            "code:fuzzylite.defuzzifier.WeightedSum.defuzzify",
            "code:fuzzylite.term.Linear.membership", "code:fuzzylite.term.Constant.membership",
            "code:fuzzylite.term.Term.update_reference", "code:fuzzylite.term.Linear.update_reference",
            "code:fuzzylite.term.Aggregated.range", "code:fuzzylite.term.Aggregated.highest_activated_term",
            "code:fuzzylite.defuzzifier.WeightedDefuzzifier.infer_type"])
RULE = ("WeightedAverage and WeightedSum x {Automatic, TakagiSugeno, Tsukamoto} x fuzzy outputs of 0-6 activations over 1-4 "
        "terms (Constant / Linear / Function(polynomial in x) / monotonic Ramp, Sigmoid, Concave, SShape, ZShape / non-monotonic "
        "Triangle, Trapezoid, Rectangle, Gaussian, Bell) with repetitions x every S-norm or none x scalar and batch degrees "
        "incl. exact 0, 1, NaN/inf; mixtures that make type inference fail and terms without tsukamoto are part of the "
        "stream (same exception in model and implementation). Also compared: grouped_terms() and activation_degree(). "
        "A case is non-trivial when the result is a finite number; distinct = distinct input")
RULE += (" Stream `infer-tree` (fv/streams/wave5x.py): WeightedDefuzzifier.infer_type on nested Aggregated / Variable / Activated / plain components against Op.Weighted.inferComp.")
RULE += (" Stream `highest-activated` (fv/streams/highest_activated.py): Aggregated.highest_activated_term (scalar degrees, 1-D degrees of one entry, batches -> ValueError) and Aggregated.range against Op.Weighted.highestActivated.")
RULE += (" User-defined term classes (fv/user_terms.py: a monotonic fl.Term subclass with its own tsukamoto(), a non-monotonic one, subclasses of Ramp and Constant) stand next to the built-in classes in a further run of the main stream (Automatic and fixed types, all aggregations, batches), in the leaves of the `infer-tree` stream (judged by the documented decision table as well as by the model) and in the `highest-activated` stream; the model knows each under the name of the built-in shape that computes the same function.")
ASSUMPTIONS = ["numbers: 1e-9 abs+rel relative to the magnitude of the accumulated terms",
               "Arc is left out (C03/F1: its centre is computed with rounding); Function terms are polynomials in x whose "
               "coefficients are function variables (formula evaluation itself is C17)",
               "cases where a nilpotent / Hamacher aggregation of degrees sits within 1e-9 (1e-6) of its threshold without "
               "being exact are skipped as fragile (counted); likewise a group degree within 1e-6 of (but not equal to) the height "
               "of an SShape / ZShape / Sigmoid term, where the Tsukamoto inverse has a sqrt / log singularity"]
LEVEL_TEXT = ("Lean theorems over every ordered field, activation lists of any length: grouped_terms = one group per name in "
              "first-occurrence order with the fold of the aggregation operator (or +) over its degrees; infer_type decision "
              "table incl. the TypeError for mixed kinds, an explicit type overrides; WeightedAverage = sum(wz)/sum(w) and "
              "WeightedSum = sum(wz) over the groups for each of the three type settings; NaN iff no activation or all weights "
              "zero; an activation of degree 0 (of the kind the defuzzifier works with) changes nothing, whatever its term's "
              "value at 0 (corrected product; counterexample for the pinned w*z: 0 x inf = NaN); average of constants between "
              "the smallest and largest activated constant; 0 is an identity of every registered S-norm on [0,1] (through the "
              "regenerated norms). Correspondence: implementation vs the executable model at exact rationals.")
LEVEL_NOTE = ("Trusted: Lean kernel, standard axioms, Mathlib, tracer (norms, memberships, Tsukamoto inverses), harness, Fn.rat. "
              "Carried only by the correspondence: elementwise batches, exception classes, float rounding of the sums.")
TECHNIQUE = ("Lean 4 proof (list inductions, permutation argument over the grouping) about a code-shaped model of "
             "defuzzifier.py / Aggregated.grouped_terms + differential run against the Lean driver at exact rationals")

SN = ["AlgebraicSum", "BoundedSum", "DrasticSum", "EinsteinSum", "HamacherSum", "Maximum", "NilpotentMaximum",
      "NormalizedSum", "UnboundedSum"]
TYPES = ["Automatic", "TakagiSugeno", "Tsukamoto"]
SUGENO = ("Constant", "Linear", "Function")


# ------------------------------------------------------------------------------------------ the implementation

def fl_num(v):
    if isinstance(v, str):
        return {"nan": math.nan, "inf": math.inf, "-inf": -math.inf}[v]
    return float(v)


def batch_size(case):
    b = [len(a["deg"]) for a in case["acts"] if isinstance(a["deg"], list)]
    return max(b) if b else 1


def is_batch(case):
    return any(isinstance(a["deg"], list) for a in case["acts"])


def build_terms(case, row=None):
    """the pool of term objects (one per name); Linear terms share an engine holding the input rows"""
    inputs = case.get("inputs") or []
    eng = fl.Engine("e", input_variables=[fl.InputVariable(f"i{k}") for k in range(len(inputs))])
    for k, col in enumerate(inputs):
        if isinstance(col, list):
            eng.input_variables[k].value = fl_num(col[row]) if row is not None else np.array([fl_num(v) for v in col])
        else:
            eng.input_variables[k].value = fl_num(col)
    pool = {}
    for name, t in case["terms"].items():
        cls = t["cls"]
        if cls == "Constant":
            pool[name] = fl.Constant(name, fl_num(t["value"]))
        elif cls == "Linear":
            pool[name] = fl.Linear(name, [float(c) for c in t["coeffs"]], eng)
        elif cls == "Function":
            cs = [float(c) for c in t["poly"]]
            formula = " + ".join(["c0"] + [f"c{i}" + "*x" * i for i in range(1, len(cs))])
            pool[name] = fl.Function(name, formula, variables={f"c{i}": c for i, c in enumerate(cs)}, load=True)
        elif cls == "ConstantChild":
            pool[name] = U.ConstantChild(name, fl_num(t["value"]))
        elif cls in U.CLASSES:
            # a class written by a user of the library (fv/user_terms.py)
            pool[name] = U.CLASSES[cls](name, *[fl_num(p) for p in t["params"]], height=float(t["h"]))
        else:
            pool[name] = getattr(fl, cls)(name, *[fl_num(p) for p in t["params"]], height=float(t["h"]))
    return pool


def build(case, row=None, acts=None):
    pool = build_terms(case, row)
    terms = []
    for a in (case["acts"] if acts is None else acts):
        d = a["deg"]
        if isinstance(d, list):
            d = fl_num(d[row]) if row is not None else np.array([fl_num(v) for v in d], dtype=float)
        else:
            d = fl_num(d)
        terms.append(fl.Activated(pool[a["name"]], d))
    agg = fl.settings.factory_manager.snorm.construct(case["agg"]) if case["agg"] else None
    return fl.Aggregated("out", math.nan, math.nan, agg, terms), pool


def run(case, row=None, acts=None, which=None, ty=None):
    with np.errstate(all="ignore"):
        try:
            A, _ = build(case, row, acts)
            d = getattr(fl, which or case["which"])(ty or case["type"])
            # reading a fuzzy output must not change it: the same Aggregated term is grouped and defuzzified once before the
            # observed call (a defect that accumulates degrees in place, or caches a kind, shows on the second read)
            try:
                A.grouped_terms()
                d.defuzzify(A)
            except Exception:  # noqa: BLE001
                pass
            v = d.defuzzify(A)
            return [float(t) for t in np.atleast_1d(np.asarray(v, dtype=float)).ravel()]
        except TypeError:
            return "type-error"
        except RuntimeError:
            return "runtime-error"
        except ValueError:
            return "value-error"
        except Exception as ex:  # noqa: BLE001
            return f"error:{type(ex).__name__}"


# ------------------------------------------------------------------------------------------ documented computation

def nan_to_num01(v):
    v = fl_num(v)
    if v != v or v == -math.inf:
        return Fr(0)
    if v == math.inf:
        return Fr(1)
    return Fr(v)


def is_mono(cls):
    """what the term says about itself (`is_monotonic()`): the built-in monotonic classes and the user-defined ones"""
    return cls in MONO or cls in U.MONOTONIC


def kind_of(t):
    if t["cls"] in SUGENO or t["cls"] in U.SUGENO:
        return "TakagiSugeno"
    return "Tsukamoto" if is_mono(t["cls"]) else "Automatic"


def row_degree(a, row):
    d = a["deg"]
    return d[row] if isinstance(d, list) else d


def grouped(case, row, acts=None):
    """[(name, exact degree)] in first-occurrence order; degrees combined with the documented S-norm formula or +"""
    op = c04.S[case["agg"]] if case["agg"] else (lambda a, b: a + b)
    out = {}
    for a in (case["acts"] if acts is None else acts):
        d = nan_to_num01(row_degree(a, row))
        out[a["name"]] = op(out[a["name"]], d) if a["name"] in out else d
    return list(out.items())


def expected(case, row, acts=None, ty=None):
    """documented result of one row: ('value', Fraction|'nan', scale) | 'type-error' | 'runtime-error' | None (undecided)"""
    acts = case["acts"] if acts is None else acts
    ty = ty or case["type"]
    if ty == "Automatic":
        kinds = {kind_of(case["terms"][a["name"]]) for a in acts}
        if len(kinds) > 1:
            return "type-error"
        ty = kinds.pop() if kinds else "Automatic"
    gs = grouped(case, row, acts)
    if ty == "Tsukamoto" and any(not is_mono(case["terms"][n]["cls"]) for n, _ in gs):
        return "runtime-error"
    if not acts:
        return ("value", "nan", Fr(0))
    pool = build_terms(case, row)
    swz, sw, scale = Fr(0), Fr(0), Fr(0)
    for n, w in gs:
        sw += w
        if w == 0:
            continue        # a zero weight contributes zero, whatever the value of the term there
        with np.errstate(all="ignore"):
            z = float(np.asarray((pool[n].tsukamoto if ty == "Tsukamoto" else pool[n].membership)(float(w))).ravel()[0])
        if not math.isfinite(z):
            return None
        swz += w * Fr(z)
        scale += abs(w * Fr(z))
    if sw == 0:
        return ("value", "nan", Fr(0))
    return ("value", swz / sw if case["which"] == "WeightedAverage" else swz, scale / sw if case["which"] == "WeightedAverage" else scale)


def close_scaled(v, exact, scale):
    if isinstance(exact, str) or C.cls_of(v) != "fin":
        return C.cls_of(v) == C.cls_of(exact)
    return abs(Fr(float(v)) - exact) <= Fr(1, 10 ** 9) * (1 + abs(exact) + scale)


def key(case):
    if case.get("stream"):
        return case["stream"]
    zero = any(nan_to_num01(d) == 0 for a in case["acts"] for d in (a["deg"] if isinstance(a["deg"], list) else [a["deg"]]))
    tsk = sorted({case["terms"][a["name"]]["cls"] for a in case["acts"]})
    return (f"{case['which']};type={case['type']};agg={case['agg']};zero={int(zero)};batch={batch_size(case) if is_batch(case) else 0};"
            f"classes={','.join(tsk)}")


def oracle(case):
    if case.get("stream") == S_W5.TREE:
        return S_W5.oracle(case)             # WeightedDefuzzifier.infer_type on nested components
    if case.get("stream"):
        return S_HIGH.oracle(case, sys.modules[__name__])    # Aggregated.highest_activated_term / range
    B = batch_size(case)
    batch = run(case) if is_batch(case) else None
    for b in range(B):
        row = b if is_batch(case) or any(isinstance(c, list) for c in case.get("inputs") or []) else None
        v = run(case, row=row)
        want = expected(case, b)
        if want is None:
            continue
        if isinstance(want, str):
            if v != want:
                return False, f"row {b}: expected {want}, the implementation gives {v!r}"
            continue
        _, ex, scale = want
        if isinstance(v, str) or len(v) != 1:
            return False, f"row {b}: expected one number ({ex if isinstance(ex, str) else float(ex)!r}), got {v!r}"
        if not close_scaled(v[0], ex, scale):
            return False, (f"row {b}: {case['which']} = {v[0]!r}, the grouped "
                           f"{'sum(w*z)/sum(w)' if case['which'] == 'WeightedAverage' else 'sum(w*z)'} is "
                           f"{ex if isinstance(ex, str) else float(ex)!r}")
        # grouped_terms() / activation_degree()
        with np.errstate(all="ignore"):
            A, pool = build(case, row)
            try:
                gt = A.grouped_terms()
                for t in pool.values():
                    A.activation_degree(t)
            except Exception as ex:  # noqa: BLE001
                return False, f"row {b}: grouped_terms() / activation_degree() raises {type(ex).__name__}: {ex}"
            gs = grouped(case, b)
            if [n for n, _ in gs] != list(gt.keys()):
                return False, f"row {b}: grouped_terms() keys {list(gt.keys())}, expected first-occurrence order {[n for n, _ in gs]}"
            for n, w in gs:
                got = float(np.asarray(gt[n].degree).ravel()[0])
                got2 = float(np.asarray(A.activation_degree(pool[n])).ravel()[0])
                if abs(Fr(got) - w) > Fr(1, 10 ** 9) or abs(Fr(got2) - w) > Fr(1, 10 ** 9):
                    return False, f"row {b}: degree of group {n} is {got!r} / activation_degree {got2!r}, expected {float(w)!r}"
        # an activation with degree 0 (of a term already activated) changes nothing
        if case["acts"] and not isinstance(ex, str):
            k = case.get("zero_at", 0) % (len(case["acts"]) + 1)
            src = case["acts"][case.get("zero_of", 0) % len(case["acts"])]
            extra = {"name": src["name"], "deg": [0.0] * B if is_batch(case) else 0.0}
            acts2 = case["acts"][:k] + [extra] + case["acts"][k:]
            v2 = run(case, row=row, acts=acts2)
            if isinstance(v2, str) or len(v2) != 1 or not close_scaled(v2[0], ex, scale):
                return False, (f"row {b}: inserting an activation of degree 0 of term {src['name']} at position {k} changes the "
                               f"result from {v[0]!r} to {v2!r}")
        # weighted average of constants
        if case["which"] == "WeightedAverage" and not isinstance(ex, str) and all(
                case["terms"][a["name"]]["cls"] in ("Constant", "ConstantChild") for a in case["acts"]):
            ks = [fl_num(case["terms"][n]["value"]) for n, w in grouped(case, b) if w > 0]
            if ks and not (min(ks) - 1e-9 * (1 + abs(min(ks))) <= v[0] <= max(ks) + 1e-9 * (1 + abs(max(ks)))):
                return False, f"row {b}: average {v[0]!r} of constants outside [{min(ks)}, {max(ks)}]"
        if batch is not None:
            if isinstance(batch, str) or len(batch) != B:
                return False, f"a batch of {B} rows gives {batch!r}, row {b} alone gives {v!r}"
            if not close_scaled(batch[b], Fr(v[0]) if math.isfinite(v[0]) else "nan", Fr(0)):
                return False, f"batch result {batch[b]!r} of row {b} differs from the per-row result {v[0]!r}"
    # an explicitly fixed type never raises the TypeError of the inference
    if case["type"] == "Automatic" and case["acts"]:
        for ty in ("TakagiSugeno",):
            v = run(case, ty=ty)
            if v == "type-error":
                return False, f"type {ty} fixed explicitly still raises the inference TypeError"
    return True, "ok"


# ------------------------------------------------------------------------------------------ generators

def gen_term(rng, cls):
    if cls in U.CLASSES:
        # the parameters of the built-in class that computes the same function
        return {**gen_term(rng, U.MODEL_AS[cls]), "cls": cls}
    if cls == "Constant":
        return {"cls": cls, "value": rng.choice([0.0, 1.0, -2.5, 10.0, 20.0, rng.uniform(-50, 50)])}
    if cls == "Linear":
        return {"cls": cls, "coeffs": None}
    if cls == "Function":
        return {"cls": cls, "poly": [rng.choice([0.0, 1.0, -1.5, rng.uniform(-5, 5)]) for _ in range(rng.randint(1, 3))]}
    h = rng.choice([1.0, 1.0, 0.5, 0.8])
    if cls == "Ramp":
        a, b = rng.uniform(-5, 5), rng.uniform(6, 20)
        return {"cls": cls, "params": [a, b] if rng.random() < 0.5 else [b, a], "h": h}
    if cls == "Sigmoid":
        return {"cls": cls, "params": [rng.uniform(-5, 5), rng.choice([-1, 1]) * rng.uniform(0.5, 10)], "h": h}
    if cls == "Concave":
        a, b = rng.uniform(-5, 5), rng.uniform(6, 20)
        return {"cls": cls, "params": [a, b] if rng.random() < 0.5 else [b, a], "h": h}
    if cls in ("SShape", "ZShape"):
        a = rng.uniform(-5, 5)
        return {"cls": cls, "params": [a, a + rng.uniform(0.5, 10)], "h": h}
    if cls == "Triangle":
        return {"cls": cls, "params": sorted([rng.uniform(-0.5, 0.4), rng.uniform(0.4, 0.6), rng.uniform(0.6, 1.5)]), "h": h}
    if cls == "Trapezoid":
        return {"cls": cls, "params": sorted([rng.uniform(-0.5, 0.2), rng.uniform(0.2, 0.5), rng.uniform(0.5, 0.8), rng.uniform(0.8, 1.5)]), "h": h}
    if cls == "Rectangle":
        return {"cls": cls, "params": [rng.uniform(-0.5, 0.3), rng.uniform(0.4, 1.5)], "h": h}
    if cls == "Gaussian":
        return {"cls": cls, "params": [rng.uniform(0, 1), rng.uniform(0.1, 0.5)], "h": h}
    if cls == "Bell":
        return {"cls": cls, "params": [rng.uniform(0, 1), rng.uniform(0.1, 0.5), rng.choice([1.0, 2.0, 3.0])], "h": h}
    raise ValueError(cls)


DEG = [0.0, 0.0, 1.0, 0.5, 0.25, 0.75, 0.3, 0.7, 0.1, 0.9]


def gen_case(ctx, k, user=False):
    """`user`: classes written by a user of the library (fv/user_terms.py) stand next to the built-in ones in every pool -
    monotonic with their own tsukamoto(), non-monotonic, subclasses of built-in classes"""
    rng = ctx.rng
    style = rng.choice(["sugeno", "sugeno", "tsukamoto", "tsukamoto", "inverse", "mixed", "constants"])
    classes = {"sugeno": ["Constant", "Linear", "Function"], "constants": ["Constant"], "tsukamoto": MONO,
               "inverse": NONMONO, "mixed": ["Constant", "Linear", "Function"] + MONO + NONMONO}[style]
    if user:
        mine = {"sugeno": U.SUGENO, "constants": U.SUGENO, "tsukamoto": U.MONOTONIC, "inverse": U.NON_MONOTONIC,
                "mixed": U.SUGENO + U.MONOTONIC + U.NON_MONOTONIC}[style]
        # as many draws from the user's classes as from the library's (some outputs hold user-defined terms only)
        reps = max(1, len(classes) // len(mine))
        classes = (classes if rng.random() < 0.8 else []) + mine * reps
    nterms = rng.randint(1, 4)
    terms = {}
    for i in range(nterms):
        terms["abcd"[i]] = gen_term(rng, rng.choice(classes))
    batch = rng.choice([0, 0, 0, 2, 3])
    ninputs = rng.randint(1, 3)
    inputs = []
    for _ in range(ninputs):
        vals = [rng.choice([0.0, 1.0, -2.0, rng.uniform(-10, 10)]) for _ in range(max(1, batch))]
        inputs.append(vals if batch else vals[0])
    for t in terms.values():
        if t["cls"] == "Linear":
            t["coeffs"] = [rng.choice([0.0, 1.0, rng.uniform(-3, 3)]) for _ in range(ninputs + rng.randint(0, 1))]
    nacts = rng.choice([0, 1, 2, 2, 3, 3, 4, 5, 6])
    acts = []
    for _ in range(nacts):
        pool = DEG if rng.random() < 0.8 else [rng.random(), rng.random(), 0.0, "nan", "inf", "-inf"]
        d = [rng.choice(pool) for _ in range(batch)] if batch else rng.choice(pool)
        acts.append({"name": rng.choice(list(terms)), "deg": d})
    ty = rng.choice(TYPES) if rng.random() < 0.5 else "Automatic"
    return {"which": ["WeightedAverage", "WeightedSum"][k % 2], "type": ty, "agg": ([None] + SN)[(k // 2) % 10],
            "terms": terms, "inputs": inputs, "acts": acts, "zero_at": rng.randint(0, 6), "zero_of": rng.randint(0, 5)}


def handwritten():
    sig = {"cls": "Sigmoid", "params": [0.5, 10.0], "h": 1.0}
    con = {"cls": "Concave", "params": [0.2, 0.8], "h": 1.0}
    for which in ("WeightedAverage", "WeightedSum"):
        for ty in ("Automatic", "Tsukamoto"):
            yield {"which": which, "type": ty, "agg": None, "terms": {"a": sig, "b": con}, "inputs": [],
                   "acts": [{"name": "a", "deg": 0.0}, {"name": "b", "deg": 0.25}]}
            yield {"which": which, "type": ty, "agg": "Maximum", "terms": {"a": sig, "b": con}, "inputs": [],
                   "acts": [{"name": "b", "deg": [0.0, 0.5]}, {"name": "a", "deg": [0.25, 0.0]}, {"name": "b", "deg": [0.0, 0.0]}]}
        yield {"which": which, "type": "Automatic", "agg": None, "terms": {"a": sig, "k": {"cls": "Constant", "value": 1.0}},
               "inputs": [], "acts": [{"name": "a", "deg": 0.5}, {"name": "k", "deg": 0.0}]}
        yield {"which": which, "type": "Tsukamoto", "agg": None, "terms": {"k": {"cls": "Constant", "value": 1.0}},
               "inputs": [], "acts": [{"name": "k", "deg": 0.5}]}
        yield {"which": which, "type": "Automatic", "agg": "AlgebraicSum", "terms": {"k": {"cls": "Constant", "value": 1.0}},
               "inputs": [], "acts": []}


def corpus():
    out = []
    for p in sorted(glob.glob(os.path.join(C.VERIF, "corpus", PID, "*.json"))):
        d = json.load(open(p))
        if not d.get("case", d).get("stream"):
            out.append(d.get("case", d))
    return out


def cases(ctx):
    yield from corpus()
    yield from handwritten()
    for k in range(ctx.scale(4000, 40000)):
        yield gen_case(ctx, k)


def fragile(case):
    """aggregation of degrees within rounding distance of a threshold of the operator, or a Tsukamoto inverse with a
    singularity at the height (sqrt / log) evaluated within rounding distance of it"""
    sing = {n: Fr(float(t["h"])) for n, t in case["terms"].items() if t["cls"] in ("SShape", "ZShape", "Sigmoid")}
    if sing and case["acts"]:
        for b in range(batch_size(case)):
            row = b if is_batch(case) or any(isinstance(c, list) for c in case.get("inputs") or []) else None
            with np.errstate(all="ignore"):
                try:
                    A, _ = build(case, row)
                    gt = A.grouped_terms()
                except Exception:  # noqa: BLE001  (reported by the comparison, not here)
                    return False
            for n, w in grouped(case, b):
                if n in sing:
                    wf = Fr(float(np.asarray(gt[n].degree).ravel()[0]))
                    for v in (w, wf):
                        if v != sing[n] and abs(v - sing[n]) < Fr(1, 10 ** 6):
                            return True
    if case["agg"] not in ("NilpotentMaximum", "HamacherSum", "DrasticSum"):
        return False
    norm = fl.settings.factory_manager.snorm.construct(case["agg"])
    for b in range(batch_size(case)):
        acc = {}
        for a in case["acts"]:
            d = float(nan_to_num01(row_degree(a, b)))
            if a["name"] in acc:
                u = acc[a["name"]]
                if case["agg"] == "NilpotentMaximum" and abs(u + d - 1.0) < 1e-9 and Fr(u) + Fr(d) != 1:
                    return True
                if case["agg"] == "HamacherSum" and u * d != 1.0 and abs(1.0 - u * d) < 1e-6:
                    return True
                with np.errstate(all="ignore"):
                    acc[a["name"]] = float(norm.compute(u, d))
            else:
                acc[a["name"]] = d
    return False


# ------------------------------------------------------------------------------------------ correspondence

def term_sx(case, name, b):
    t = case["terms"][name]
    if t["cls"] in ("Constant", "ConstantChild"):
        return ["Constant", fl_num(t["value"])]
    if t["cls"] in U.CLASSES:
        return [U.MODEL_AS[t["cls"]], [fl_num(p) for p in t["params"]], float(t["h"])]
    if t["cls"] == "Linear":
        ins = [fl_num(c[b]) if isinstance(c, list) else fl_num(c) for c in case.get("inputs") or []]
        return ["Linear", [float(c) for c in t["coeffs"]], ins]
    if t["cls"] == "Function":
        return ["Poly", [float(c) for c in t["poly"]]]
    return [t["cls"], [fl_num(p) for p in t["params"]], float(t["h"])]


def lines(case):
    out = []
    for b in range(batch_size(case)):
        acts = [[a["name"], term_sx(case, a["name"], b), fl_num(row_degree(a, b))] for a in case["acts"]]
        out.append(C.sx(["wdefuzz", case["which"].replace("Weighted", ""), case["type"], case["agg"] or "none", acts]))
        out.append(C.sx(["wgroups", case["agg"] or "none", acts]))
    return out


def user_cases(ctx):
    """drawn after every earlier stream: the same fuzzy outputs with user-defined term classes next to the built-in ones"""
    for k in range(ctx.scale(480, 4800)):
        yield gen_case(ctx, k, user=True)


def prepare(ctx, stream):
    """-> (cases that are not fragile, model lines of all of them, (offset, count) of each case's lines)"""
    todo = []
    for case in stream:
        if fragile(case):
            ctx.stats.skipped_fragile += 1
            continue
        todo.append(case)
    allines, spans = [], []
    for c in todo:
        ls = lines(c)
        spans.append((len(allines), len(ls)))
        allines += ls
    return todo, allines, spans


def correspond(ctx):
    mism = []
    todo, allines, spans = prepare(ctx, cases(ctx))
    judge(ctx, todo, spans, ctx.driver.eval(allines), mism)
    # Aggregated.highest_activated_term / range against Op.Weighted.highestActivated (model of the code tie)
    mism += S_HIGH.run(ctx, sys.modules[__name__])
    later = []

    def more(ctx):
        todo2, lines2, spans2 = prepare(ctx, user_cases(ctx))
        high = list(S_HIGH.own_term_cases(ctx, sys.modules[__name__]))

        def answers(outs):
            judge(ctx, todo2, spans2, outs[:len(lines2)], later)
            later.extend(S_HIGH.judge(ctx, sys.modules[__name__], high, outs[len(lines2):]))
        return lines2 + [S_HIGH.model_line(c, sys.modules[__name__]) for c in high], answers

    # WeightedDefuzzifier.infer_type on nested components against Op.Weighted.inferComp (model of `code_inferType_tree`);
    # the cases with user-defined classes travel in the same launch of the driver
    mism += S_W5.run_tree(ctx, more)
    return mism + later


def judge(ctx, todo, spans, outs, mism):
    st = ctx.stats
    n_or = 0
    for i, (case, (s0, n)) in enumerate(zip(todo, spans)):
        o = outs[s0:s0 + n]
        B = batch_size(case)
        st.count(case["which"])
        st.count("type=" + case["type"])
        st.count("agg=" + str(case["agg"]))
        st.count(f"acts={len(case['acts'])}")
        if any(t["cls"] in U.CLASSES for t in case["terms"].values()):
            st.count("user-defined term classes")
        if is_batch(case):
            st.count("batch")
        v = run(case)
        model = o[0::2]
        groups = o[1::2]
        what = None
        if any(m in ("bad-op", "bad-parse") for m in o):
            what = "case unknown to the model"
        elif isinstance(v, str):
            if any(m != v for m in model):
                what = f"implementation raises {v}, model gives {model[:3]}"
            st.count(v)
        elif any(m in ("type-error", "runtime-error") for m in model):
            what = f"model raises {model[:3]}, implementation gives {v!r}"
        elif len(v) != B and not (len(v) == 1 and B == 1):
            what = f"implementation returns {len(v)} values for {B} rows"
        else:
            for b in range(B):
                want = expected(case, b)
                scale = want[2] if isinstance(want, tuple) else Fr(0)
                if not close_scaled(v[b], C.parse_x(model[b]), scale):
                    what = f"row {b}: implementation {v[b]!r}, model {model[b][:40]}"
                    break
            if what is None:
                with np.errstate(all="ignore"):
                    for b in range(B):
                        row = b if is_batch(case) or any(isinstance(c, list) for c in case.get("inputs") or []) else None
                        A, _ = build(case, row)
                        try:
                            got = [(k, float(np.asarray(g.degree).ravel()[0])) for k, g in A.grouped_terms().items()]
                        except Exception as ex:  # noqa: BLE001
                            what = f"row {b}: grouped_terms() raises {type(ex).__name__}: {ex}"
                            break
                        mg = C.parse_sx(groups[b]) if groups[b] != "()" else []
                        if [k for k, _ in got] != [g[0] for g in mg] or any(
                                not C.close(d, C.parse_x(g[1])) for (_, d), g in zip(got, mg)):
                            what = f"row {b}: grouped_terms() {got}, model {groups[b][:80]}"
                            break
        nt = not isinstance(v, str) and any(math.isfinite(t) for t in v)
        st.case(json.dumps(case, sort_keys=True), nt,
                sample={"case": key(case), "impl": v if isinstance(v, str) else v[:3], "model": model[:3]} if i % 331 == 0 else None)
        st.validated += 1
        if what:
            mism.append({"case": case, "impl": v, "model": model[:4], "what": what})
            if len(mism) > 12:
                break
        if i % 2 == 0 or i < 40:
            ok, detail = oracle(case)
            n_or += 1
            if not ok:
                mism.append({"case": case, "violation": True, "detail": detail, "what": detail})
                if len(mism) > 12:
                    break
    st.count("oracle", n_or)


def search(ctx):
    import itertools
    for case in itertools.chain(cases(ctx), user_cases(ctx), S_W5.tree_cases(ctx)):
        ok, d = oracle(case)
        if not ok:
            return [(case, d)]
    return []
