"""C16 — Malformed rule and FLL text is rejected cleanly, never accepted or crashed on (DESIGN.md section 8, C16)."""
from __future__ import annotations

import glob
import json
import math
import os
import sys

import numpy as np

import common as C
import fuzzylite as fl
from props import c06 as A
from streams import load_rules as S_LOAD

PID = "C16"
MODULES = ["FlVerif.Props.C16"]
NAMESPACE = "C16"
TIE_A = ["code:fuzzylite.rule.Rule.parse", "code:fuzzylite.rule.Consequent.load", "code:fuzzylite.rule.Antecedent.load",
         "code:fuzzylite.rule.Rule.load", "code:fuzzylite.rule.Rule.unload", "code:fuzzylite.rule.Rule.is_loaded",
         "code:fuzzylite.rule.Antecedent.unload", "code:fuzzylite.rule.Antecedent.is_loaded",
         "code:fuzzylite.rule.Consequent.unload", "code:fuzzylite.rule.Consequent.is_loaded",
         "code:fuzzylite.rule.RuleBlock.load_rules", "code:fuzzylite.rule.RuleBlock.unload_rules",
         "code:fuzzylite.rule.RuleBlock.reload_rules"]
TIE_A += [
    f"code:fuzzylite.importer.FllImporter.{m}" for m in ("extract_key_value", "boolean", "range", "tnorm", "snorm",
                                                         "input_variable", "output_variable", "rule_block")]
RULE = ("valid rules (antecedents to depth 3 with hedges / any / parentheses, 1-3 conclusions with hedges, optional weight) "
        "over generated engines, mutated by token deletion, duplication, substitution (keywords, valid and unknown names, "
        "numbers, parentheses), truncation at every token boundary, reordering, plus one-error injections of every listed "
        "class (missing if/then/is/with, missing variable / term / operand, unknown variable / term / hedge, unbalanced "
        "parenthesis, non-numeric weight, trailing token); FLL documents of generated engines mutated by line / token "
        "deletion, duplication, substitution, truncation, reordering.  Non-trivial: the model rejects the text or accepts "
        "a text that differs from the valid original; distinct = distinct (text, engine)")
RULE += (" Stream `load-rules` (fv/streams/load_rules.py): RuleBlock.load_rules / reload_rules on blocks of 1-6 rules mixing loadable and unloadable texts (some rule objects loaded with another text before) against Op.loadRules: RuntimeError iff a rule fails, is_loaded of every rule, order of the message, class of every failure.")
ASSUMPTIONS = ["rule texts are compared with the executable Lean model of Rule.parse / Antecedent.load / Consequent.load "
               "(error kind, loaded tree, conclusions, weight, degrees); FLL documents have no Lean model: for them the "
               "check is the property oracle alone (error class, is_loaded, export / re-import fixpoint)",
               "texts stay below 80 tokens (CPython's recursion limit is not probed)"]
LEVEL_TEXT = ("Lean theorems about the executable parsers (total functions into Except ErrKind): ruleParse_accepts_iff - "
              "Rule.parse accepts exactly `if A+ then C+ [with w]` with numeric w and returns (A, C, w); accepted_reexports - "
              "the exported text of an accepted rule parses back to it; consequentLoad_accepts_iff - the consequent machine "
              "accepts exactly `v is h* t (and v is h* t)*` over the engine's outputs and returns those conclusions; "
              "antecedentLoad_sound - an accepted postfix token list is the postfix form of the loaded tree, whose "
              "propositions use the engine's variables / hedges / terms; single_error_* - every listed one-error class is "
              "rejected for every rule; failed_load_not_loaded - after a failing load is_loaded is false whatever the "
              "previous state.  Correspondence: model vs Rule.create on the mutated stream (error kind incl. INTERNAL).")
LEVEL_NOTE = ("`never an internal error` is a statement about exception classes and is carried by the correspondence only "
              "(the model is a total function; TypeError/AttributeError/IndexError/RecursionError in the implementation is "
              "always reported - this is how F5 shows up).  The FLL importer is not modelled in Lean: malformed FLL "
              "documents are judged by the property oracle only.  Trusted: Lean kernel, standard axioms, CPython float().")
TECHNIQUE = ("Lean 4 proofs about executable models of the rule parsers (acceptance characterisations, rejection lemmas, load "
             "state) + differential run against Rule.create / FllImporter on mutated texts")

ALLOWED = ("syntax", "value", "lookup")


def errkind(ex):
    if isinstance(ex, (RecursionError, IndexError, TypeError, AttributeError)):
        return "INTERNAL:" + type(ex).__name__
    if isinstance(ex, SyntaxError):
        return "syntax"
    if isinstance(ex, ValueError):
        return "value"
    if isinstance(ex, LookupError):
        return "lookup"
    if isinstance(ex, RuntimeError):
        return "runtime"
    return "INTERNAL:" + type(ex).__name__


# ------------------------------------------------------------------------------------------------ valid rules
def gen_conclusions(rng, vars_):
    outs = [v for v in vars_ if v["out"]]
    cs = []
    for _ in range(rng.choice([1, 1, 2, 3])):
        v = rng.choice(outs)
        hs = [rng.choice(A.HEDGES) for _ in range(rng.choice([0, 0, 1, 2]))]
        cs.append([v["name"], hs, rng.choice(v["terms"])[0]])
    return cs


def cons_tokens(cs):
    out = []
    for i, (v, hs, t) in enumerate(cs):
        if i:
            out.append("and")
        out += [v, "is"] + hs + [t]
    return out


def make_valid(rng):
    vars_ = A.gen_engine(rng)
    tree = A.gen_ante(rng, vars_, rng.choice([0, 1, 1, 2, 2, 3]))
    toks = A.awriting(tree, 0, 0, rng, rng.choice([0.0, 0.0, 0.2]))
    cs = gen_conclusions(rng, vars_)
    w = rng.choice([None, None, "0.5", "0.25", "1.000", "2", "1e-1", ".75"])
    tokens = ["if"] + toks + ["then"] + cons_tokens(cs) + (["with", w] if w else [])
    row = {v["name"]: rng.choice([0.0, 0.25, 0.5, 0.6, 1.0, rng.random()]) for v in vars_ if not v["out"]}
    # continuous operators only: the values of accepted texts are compared without a fragile-point analysis (C06 does that)
    return {"vars": vars_, "tokens": tokens, "conj": rng.choice(["Minimum", "AlgebraicProduct", "BoundedDifference"]),
            "disj": rng.choice(["Maximum", "AlgebraicSum", "BoundedSum"]), "rows": [row]}


# every character `str.isspace` accepts separates tokens (`str.split()`, the `\\s` of `format_infix`)
BLANKS = [" ", "  ", "\t", " \t ", "\x0b", "\x0c", "\x1c", "\x1f", "\x85", "\xa0", "\u2003", "\u2028", "\u3000"]


def spell(tokens, rng=None):
    """tokens -> text; parentheses may touch their neighbours; now and then an unusual white-space character"""
    out = []
    for i, t in enumerate(tokens):
        if i:
            p = tokens[i - 1]
            if rng is not None and ((p == "(" and t not in "()") or (t == ")" and p not in "()")) and rng.random() < 0.5:
                out.append("")
            elif rng is not None and rng.random() < 0.03:
                out.append(rng.choice(BLANKS))
            else:
                out.append(" ")
        out.append(t)
    return "".join(out)


def names_of(base):
    vs = [v["name"] for v in base["vars"]]
    ts = sorted({t[0] for v in base["vars"] for t in v["terms"]})
    return vs, ts


def substitute_pool(base):
    vs, ts = names_of(base)
    return (["if", "then", "is", "and", "or", "with", "(", ")", "any", "very", "not", "0.5", "1", "nope", "foo", "#", ","]
            + vs + ts)


def role_positions(tokens):
    """indices of variables / terms / hedges / keywords of a valid rule"""
    roles = {"var": [], "term": [], "hedge": [], "is": [], "conn": [], "paren": []}
    then = tokens.index("then")
    end = tokens.index("with") if "with" in tokens else len(tokens)
    for i, t in enumerate(tokens):
        if i == 0 or i == then or i >= end:
            continue
        if t == "is":
            roles["is"].append(i)
            roles["var"].append(i - 1)
        elif t in ("and", "or"):
            roles["conn"].append(i)
        elif t in ("(", ")"):
            roles["paren"].append(i)
    for i in roles["is"]:
        j = i + 1
        while j < end and tokens[j] in A.HEDGES:
            roles["hedge"].append(j)
            j += 1
        if j < end and tokens[j] not in ("any",):
            roles["term"].append(j)
        elif j < end:
            roles["hedge"].append(j)
    return roles


INJECTIONS = ["missing-if", "missing-then", "missing-is", "missing-with", "missing-connective", "missing-variable", "missing-term",
              "missing-operand", "unknown-variable", "unknown-term", "unknown-hedge", "unbalanced-open", "unbalanced-close",
              "paren-deleted", "non-numeric-weight", "trailing-token", "missing-weight", "ends-in-is", "ends-in-hedge",
              "consequent-or"]


def inject(rng, base, how):
    t = list(base["tokens"])
    r = role_positions(t)
    then = t.index("then")
    if how == "missing-if":
        return t[1:]
    if how == "missing-then":
        return t[:then] + t[then + 1:]
    if how == "missing-is":
        i = rng.choice(r["is"])
        return t[:i] + t[i + 1:]
    if how == "missing-with":
        if "with" not in t:
            t = t + ["with", "0.5"]
        i = t.index("with")
        return t[:i] + t[i + 1:]
    if how == "missing-connective":
        if not r["conn"]:
            return None
        i = rng.choice(r["conn"])
        return t[:i] + t[i + 1:]
    if how == "missing-variable":
        i = rng.choice(r["var"])
        return t[:i] + t[i + 1:]
    if how == "missing-term":
        if not r["term"]:
            return None
        i = rng.choice(r["term"])
        return t[:i] + t[i + 1:]
    if how == "missing-operand":
        # delete one whole proposition of the antecedent, keeping the connectives around it
        props = [i for i in r["is"] if i < then]
        i = rng.choice(props) - 1
        j = i + 2
        while j < then and t[j] not in ("and", "or", "(", ")"):
            j += 1
        if not any(x in ("and", "or") for x in t[1:then]):
            return None
        return t[:i] + t[j:]
    if how == "unknown-variable":
        i = rng.choice(r["var"])
        t[i] = "nosuchvar"
        return t
    if how == "unknown-term":
        if not r["term"]:
            return None
        i = rng.choice(r["term"])
        t[i] = "nosuchterm"
        return t
    if how == "unknown-hedge":
        i = rng.choice(r["is"])
        return t[:i + 1] + ["hardly"] + t[i + 1:]
    if how == "unbalanced-open":
        i = rng.randrange(1, then + 1)
        return t[:i] + ["("] + t[i:]
    if how == "unbalanced-close":
        i = rng.randrange(1, then + 1)
        return t[:i] + [")"] + t[i:]
    if how == "paren-deleted":
        ps = [i for i in r["paren"] if i < then]
        if not ps:
            return None
        i = rng.choice(ps)
        return t[:i] + t[i + 1:]
    if how == "non-numeric-weight":
        if "with" in t:
            t = t[:t.index("with")]
        return t + ["with", rng.choice(["high", "0.5.1", "1,5", "--1", "1e", "0x10", "weight"])]
    if how == "trailing-token":
        return t + [rng.choice(["extra", "0.5", "and", "then", "is"])]
    if how == "missing-weight":
        if "with" in t:
            t = t[:t.index("with")]
        return t + ["with"]
    if how == "consequent-or":
        # the conclusions are joined by `and` only: `or` there is a missing `and` plus a stray token
        ands = [i for i in range(then + 1, len(t)) if t[i] == "and"]
        if not ands:
            return None
        t[rng.choice(ands)] = "or"
        return t
    if how == "ends-in-is":
        # the antecedent ends in `is` (F5 family)
        i = [k for k in r["is"] if k < then][-1]
        return t[:i + 1] + t[then:]
    if how == "ends-in-hedge":
        i = [k for k in r["is"] if k < then][-1]
        return t[:i + 1] + [rng.choice(A.HEDGES)] + t[then:]
    return None


def mutate(rng, base):
    t = list(base["tokens"])
    how = rng.choice(["delete", "delete", "duplicate", "substitute", "substitute", "swap", "shuffle", "insert", "keyword"])
    n = len(t)
    if how == "delete":
        i = rng.randrange(n)
        t = t[:i] + t[i + 1:]
    elif how == "duplicate":
        i = rng.randrange(n)
        t = t[:i] + [t[i]] + t[i:]
    elif how == "substitute":
        i = rng.randrange(n)
        t[i] = rng.choice(substitute_pool(base))
    elif how == "keyword":
        kws = [i for i, x in enumerate(t) if x in ("if", "then", "is", "and", "or", "with", "any")]
        i = rng.choice(kws)
        t[i] = rng.choice([k for k in ("if", "then", "is", "and", "or", "with", "any") if k != t[i]])
    elif how == "insert":
        i = rng.randrange(n + 1)
        t = t[:i] + [rng.choice(substitute_pool(base))] + t[i:]
    elif how == "swap":
        i, j = rng.randrange(n), rng.randrange(n)
        t[i], t[j] = t[j], t[i]
    else:
        i = rng.randrange(n)
        w = t[i:i + 4]
        rng.shuffle(w)
        t[i:i + 4] = w
    return how, t


def rule_cases(ctx):
    rng = ctx.rng
    out = []
    nb = ctx.scale(260, 3000)
    for b in range(nb):
        base = make_valid(rng)
        common = {k: base[k] for k in ("vars", "conj", "disj", "rows")}
        out.append({**common, "kind": "valid", "text": spell(base["tokens"], rng), "must": "accept"})
        for _ in range(ctx.scale(10, 14)):
            how, t = mutate(rng, base)
            out.append({**common, "kind": "mutant", "how": how, "text": spell(t, rng), "must": None})
        for how in INJECTIONS:
            t = inject(rng, base, how)
            if t is not None:
                out.append({**common, "kind": "injected", "how": how, "text": spell(t, rng if how not in
                            ("unbalanced-open", "unbalanced-close") else None), "must": "reject"})
        if b % 3 == 0:
            # a variable without terms is not recognised by the loaders (`if variable:` is false, Variable.__len__):
            # `ghost is any` in the antecedent / `ghostout is t` in the consequent are rejected; the model must agree
            ghost = {"name": A.GHOST, "out": False, "enabled": True, "terms": [], "agg": None, "acts": []}
            gout = {"name": "ghostout", "out": True, "enabled": True, "terms": [], "agg": None, "acts": []}
            cm2 = dict(common, vars=base["vars"] + [ghost, gout])
            toks = base["tokens"]
            i_then = toks.index("then")
            how = rng.choice(["ante-alone", "ante-and", "ante-or-first", "cons"])
            if how == "ante-alone":
                t = ["if", A.GHOST, "is", "any"] + toks[i_then:]
            elif how == "ante-and":
                t = toks[:i_then] + ["and", A.GHOST, "is", "any"] + toks[i_then:]
            elif how == "ante-or-first":
                t = ["if", A.GHOST, "is", "very", "any", "or"] + toks[1:]
            else:
                t = toks[:i_then + 1] + ["ghostout", "is", rng.choice(A.TERM_NAMES), "and"] + toks[i_then + 1:]
            out.append({**cm2, "kind": "mutant", "how": f"termless-{how}", "text": spell(t, rng), "must": "reject"})
        if b % 4 == 0:      # truncation at every token boundary
            for k in range(len(base["tokens"])):
                out.append({**common, "kind": "truncated", "how": f"{k}", "text": spell(base["tokens"][:k]), "must": None})
    return out


# ------------------------------------------------------------------------------------------------ implementation side
def run_rule(case):
    """Rule.create on a fresh rule; then the two-step load on a rule that was loaded before"""
    out = {"kind": "ok", "msg": None, "postfix": None, "concl": None, "weight": None, "degrees": None, "loaded": None,
           "reexport_ok": None, "stale_loaded": None}
    engine = A.build_engine(case)
    try:
        rule = fl.Rule.create(case["text"], engine)
    except Exception as ex:  # noqa: BLE001
        out["kind"] = errkind(ex)
        out["msg"] = f"{type(ex).__name__}: {str(ex)[:160]}"
        rule = None
    # a rule object that was loaded with a valid rule before, then given the new text
    ov = [v for v in case["vars"] if v["out"]][0]
    iv = [v for v in case["vars"]][0]
    try:
        prev = fl.Rule.create(f"if {iv['name']} is {iv['terms'][0][0]} then {ov['name']} is {ov['terms'][0][0]}", engine)
        try:
            prev.parse(case["text"])
            parsed = True
        except Exception:  # noqa: BLE001
            parsed = False
        if parsed:
            try:
                prev.load(engine)
                out["stale_loaded"] = ("ok", bool(prev.is_loaded()))
            except Exception as ex:  # noqa: BLE001
                out["stale_loaded"] = (errkind(ex), bool(prev.is_loaded()))
    except Exception as ex:  # noqa: BLE001
        out["stale_loaded"] = ("setup-failed", str(ex)[:100])
    if rule is None:
        return out
    out["loaded"] = bool(rule.is_loaded())
    # every proposition of the loaded rule must pair a variable with one of ITS OWN terms
    foreign = []

    def walk(node):
        if node is None:
            return
        if isinstance(node, fl.Proposition):
            if node.term is not None and node.variable is not None and not any(t is node.term for t in node.variable.terms):
                foreign.append(f"{node.variable.name} is {node.term.name}")
        else:
            walk(getattr(node, "left", None))
            walk(getattr(node, "right", None))

    walk(rule.antecedent.expression)
    for c in rule.consequent.conclusions:
        walk(c)
    out["foreign_terms"] = foreign
    out["postfix"] = rule.antecedent.postfix().split()
    out["concl"] = [[c.variable.name, [h.name for h in c.hedges], c.term.name if c.term else None]
                    for c in rule.consequent.conclusions]
    out["weight"] = float(rule.weight)
    conj, disj = A.norm_of(case["conj"], "t"), A.norm_of(case["disj"], "s")
    degs = []
    with np.errstate(all="ignore"):
        for row in case["rows"]:
            for v in engine.input_variables:
                v.value = float(row[v.name])
            try:
                degs.append(float(rule.activate_with(conj, disj)))
                rule.trigger(fl.Minimum())
            except Exception as ex:  # noqa: BLE001
                degs.append(errkind(ex))
                out["msg"] = f"{type(ex).__name__}: {str(ex)[:160]}"
    out["degrees"] = degs
    # export again and load the exported text
    try:
        text2 = rule.text
        r2 = fl.Rule.create(text2, engine)
        same_w = (math.isnan(r2.weight) and math.isnan(rule.weight)) or abs(r2.weight - rule.weight) <= 1e-3 + 1e-3 * abs(
            rule.weight) or r2.weight == rule.weight
        out["reexport_ok"] = (r2.antecedent.postfix() == rule.antecedent.postfix()
                              and r2.consequent.text == rule.consequent.text and same_w and r2.text == text2)
        if not out["reexport_ok"]:
            out["msg"] = f"re-export '{text2}' -> '{r2.text}'"
    except Exception as ex:  # noqa: BLE001
        out["reexport_ok"] = False
        out["msg"] = f"re-export failed: {type(ex).__name__}: {str(ex)[:160]}"
    return out


def key(case):
    if case.get("stream"):
        return case["stream"]
    return f"{case.get('kind')}:{case.get('how')}:{case.get('text', case.get('fll', ''))[:200]}"


def oracle(case):
    if case.get("stream"):
        return S_LOAD.oracle(case, sys.modules[__name__])     # RuleBlock.load_rules / reload_rules on mixed blocks
    if "fll" in case:
        return fll_oracle(case)
    r = run_rule(case)
    txt = case["text"]
    if r["kind"].startswith("INTERNAL"):
        return False, f"internal error on rule text '{txt}': {r['msg']}"
    sl = r["stale_loaded"]
    if sl is not None and sl[0] != "setup-failed":
        if str(sl[0]).startswith("INTERNAL"):
            return False, f"internal error when loading '{txt}' into an existing rule: {sl[0]}"
        if sl[0] != "ok" and sl[1]:
            return False, f"rule reports is_loaded() after the load of '{txt}' failed ({sl[0]})"
    if r["kind"] != "ok" and sl is not None and sl[0] == "ok":
        return False, (f"rule text '{txt}' is rejected by Rule.create ({r['msg']}) but a rule object that was loaded before "
                       f"accepts it through parse() + load() (is_loaded() = {sl[1]})")
    if r["kind"] == "ok" and r.get("foreign_terms"):
        return False, (f"rule '{txt}' was accepted although it uses a term that does not belong to the variable of its "
                       f"proposition: {r['foreign_terms']}")
    if r["kind"] != "ok":
        if case.get("must") == "accept":
            return False, f"valid rule '{txt}' rejected: {r['msg']}"
        if r["kind"] not in ALLOWED:
            return False, f"rule text '{txt}' rejected with {r['msg']} (not a syntax / value / lookup error)"
        return True, "rejected cleanly"
    if case.get("must") == "reject":
        return False, (f"rule with an injected error ({case.get('how')}) was accepted: '{txt}' loaded as "
                       f"[{' '.join(r['postfix'])}] then {r['concl']} weight {r['weight']}")
    if not r["loaded"]:
        return False, f"'{txt}' was accepted but is_loaded() is false"
    if any(isinstance(d, str) for d in r["degrees"]):
        return False, f"'{txt}' was accepted but cannot be evaluated: {r['msg']}"
    if not r["reexport_ok"]:
        return False, f"'{txt}' was accepted but does not survive export / import: {r['msg']}"
    return True, "accepted, exported and evaluated"


# ------------------------------------------------------------------------------------------------ FLL documents
def fll_of(base):
    engine = A.build_engine({"vars": base["vars"]})
    engine.name = "E"
    for ov in engine.output_variables:
        ov.defuzzifier = fl.Centroid(50)
        ov.fuzzy.terms.clear()
    rb = fl.RuleBlock("rb", conjunction=A.norm_of(base["conj"], "t"), disjunction=A.norm_of(base["disj"], "s"),
                      implication=fl.Minimum(), activation=fl.General())
    rb.rules.append(fl.Rule.create(spell(base["tokens"]), engine))
    engine.rule_blocks.append(rb)
    return fl.FllExporter().to_string(engine)


EXTRA_TERMS = ["term: fx Function 2 * {iv} + max(1, x)", "term: dd Discrete 0.000 0.000 0.500 1.000 1.000 0.000",
               "term: kk Constant 0.500", "term: ll Linear {coef}", "term: bb Bell 0.500 0.200 3.000",
               "term: gp GaussianProduct 0.200 0.100 0.600 0.100 0.750", "term: pp PiShape 0.000 0.300 0.600 1.000",
               "term: sd SigmoidDifference 0.200 10.000 12.000 0.700", "term: bn Binary 0.500 inf", "term: sp Spike 0.500 0.300"]
ACTIVATIONS = ["General", "First 2 0.100", "Last 1 0.000", "Highest 2", "Lowest 1", "Proportional", "Threshold > 0.200",
               "Threshold <= 0.500"]
DEFUZZ = ["Centroid 50", "Bisector 20", "MeanOfMaximum 30", "SmallestOfMaximum 10", "LargestOfMaximum 10",
          "WeightedAverage TakagiSugeno", "WeightedSum Automatic", "WeightedAverage", "none"]


def enrich_fll(rng, text, base):
    """add the term / activation / defuzzifier forms the generated engines do not contain (text level)"""
    ivs = [v["name"] for v in base["vars"] if not v["out"]]
    lines = text.split("\n")
    out = []
    for ln in lines:
        st = ln.strip()
        if st.startswith("defuzzifier:") and rng.random() < 0.7:
            ln = ln[:ln.index("defuzzifier:")] + "defuzzifier: " + rng.choice(DEFUZZ)
        if st.startswith("activation:") and rng.random() < 0.7:
            ln = ln[:ln.index("activation:")] + "activation: " + rng.choice(ACTIVATIONS)
        out.append(ln)
        if st.startswith("lock-range:") and rng.random() < 0.6:
            ind = ln[:len(ln) - len(ln.lstrip())]
            for _ in range(rng.choice([1, 2])):
                t = rng.choice(EXTRA_TERMS).format(iv=rng.choice(ivs), coef=" ".join(["1.000"] * (len(ivs) + 1)))
                out.append(ind + t + ("#c" if rng.random() < 0.1 else ""))
    return "\n".join(out)


FLL_WORDS = ["true", "false", "none", "Engine:", "InputVariable:", "OutputVariable:", "RuleBlock:", "term:", "rule:", "range:",
             "enabled:", "Triangle", "Nope", "0.5", "abc", ":", "#", "if", "then", "is", "Centroid", "General", "Minimum",
             "lock-range:", "defuzzifier:", "aggregation:", "conjunction:", "activation:", "default:", "nan", "(", ")"]


def mutate_fll(rng, text):
    lines = text.split("\n")
    how = rng.choice(["line-delete", "line-dup", "line-swap", "tok-delete", "tok-delete", "tok-sub", "tok-sub", "tok-dup",
                      "truncate", "tok-insert", "colon"])
    if how == "line-delete":
        i = rng.randrange(len(lines))
        lines = lines[:i] + lines[i + 1:]
    elif how == "line-dup":
        i = rng.randrange(len(lines))
        lines = lines[:i] + [lines[i]] + lines[i:]
    elif how == "line-swap":
        i, j = rng.randrange(len(lines)), rng.randrange(len(lines))
        lines[i], lines[j] = lines[j], lines[i]
    elif how == "truncate":
        k = rng.randrange(len(text))
        return how, text[:k]
    else:
        i = rng.randrange(len(lines))
        toks = lines[i].split(" ")
        if toks:
            j = rng.randrange(len(toks))
            if how == "tok-delete":
                toks = toks[:j] + toks[j + 1:]
            elif how == "tok-sub":
                toks[j] = rng.choice(FLL_WORDS)
            elif how == "tok-dup":
                toks = toks[:j] + [toks[j]] + toks[j:]
            elif how == "tok-insert":
                toks = toks[:j] + [rng.choice(FLL_WORDS)] + toks[j:]
            else:
                toks[j] = toks[j].replace(":", "") if ":" in toks[j] else toks[j] + ":"
        lines[i] = " ".join(toks)
    return how, "\n".join(lines)


def run_fll(text):
    out = {"kind": "ok", "msg": None, "fix": None, "loaded": None}
    try:
        with np.errstate(all="ignore"):
            engine = fl.FllImporter().from_string(text)
    except Exception as ex:  # noqa: BLE001
        out["kind"] = errkind(ex)
        out["msg"] = f"{type(ex).__name__}: {str(ex)[:200]}"
        return out
    try:
        t1 = fl.FllExporter().to_string(engine)
        e2 = fl.FllImporter().from_string(t1)
        t2 = fl.FllExporter().to_string(e2)
        out["fix"] = t1 == t2
        out["loaded"] = all(r.is_loaded() for rb in engine.rule_blocks for r in rb.rules)
        if not out["fix"]:
            out["msg"] = "export -> import -> export is not a fixed point"
    except Exception as ex:  # noqa: BLE001
        out["fix"] = False
        out["msg"] = f"accepted document cannot be exported / re-imported: {type(ex).__name__}: {str(ex)[:200]}"
    return out


def fll_oracle(case):
    r = run_fll(case["fll"])
    if r["kind"].startswith("INTERNAL"):
        return False, f"internal error importing a malformed FLL document ({case.get('how')}): {r['msg']}"
    if r["kind"] == "ok":
        if case.get("must") == "accept" or True:
            if not r["fix"]:
                return False, f"accepted FLL document ({case.get('how')}) fails export / re-import: {r['msg']}"
            if not r["loaded"]:
                return False, "accepted FLL document contains a rule that is not loaded"
        return True, "accepted"
    if case.get("must") == "accept":
        return False, f"valid FLL document rejected: {r['msg']}"
    if r["kind"] not in ALLOWED:
        return False, f"FLL document ({case.get('how')}) rejected with {r['msg']} (not a syntax / value / lookup error)"
    return True, "rejected cleanly"


def fll_cases(ctx):
    rng = ctx.rng
    out = []
    for _ in range(ctx.scale(60, 600)):
        base = make_valid(rng)
        try:
            text = fll_of(base)
        except Exception:  # noqa: BLE001
            continue
        out.append({"kind": "fll-valid", "how": "valid", "fll": text, "must": "accept"})
        text = enrich_fll(rng, text, base)
        out.append({"kind": "fll-valid", "how": "valid-enriched", "fll": text, "must": "accept"})
        for _ in range(ctx.scale(25, 40)):
            how, t = mutate_fll(rng, text)
            out.append({"kind": "fll-mutant", "how": how, "fll": t, "must": None})
    return out


# ------------------------------------------------------------------------------------------------ correspondence
def corpus():
    out = []
    for p in sorted(glob.glob(os.path.join(C.VERIF, "corpus", PID, "*.json"))):
        d = json.load(open(p))
        if not d.get("case", d).get("stream"):
            out.append(d.get("case", d))
    return out


def correspond(ctx):
    st = ctx.stats
    mism = []
    cs = [c for c in corpus() if "text" in c] + rule_cases(ctx)
    outs = ctx.driver.eval([A.model_line(c) for c in cs])
    for case, o in zip(cs, outs):
        st.count(f"{case['kind']}:{case.get('how')}" if case["kind"] in ("mutant", "injected") else case["kind"])
        if o in ("bad-op", "bad-parse"):
            mism.append({"case": case, "model": o, "what": "driver could not read the case"})
            continue
        m = C.parse_sx(o)
        r = run_rule(case)
        bad = None
        if r["kind"].startswith("INTERNAL"):
            bad = f"internal error: {r['msg']} (model: {o[:60]})"
        elif m[0] == "err":
            st.count(f"rejected-{m[1]}-{m[2]}")
            if r["kind"] != m[1]:
                bad = f"model rejects ({m[1]} at {m[2]}), implementation: {r['kind']} {r['msg'] or r['postfix']}"
        elif r["kind"] != "ok":
            bad = f"model accepts, implementation rejects: {r['msg']}"
        else:
            st.count("accepted")
            mpf = [A.unhex(a) for a in m[1]]
            mcs = [[A.unhex(c[0]), [A.unhex(h) for h in c[1]], None if c[2] == "none" else A.unhex(c[2])] for c in m[3]]
            mw = C.parse_x(m[4])
            if mpf != r["postfix"]:
                bad = f"antecedent: model [{' '.join(mpf)}], implementation [{' '.join(r['postfix'])}]"
            elif mcs != r["concl"]:
                bad = f"conclusions: model {mcs}, implementation {r['concl']}"
            elif not C.close(r["weight"], mw):
                bad = f"weight: model {mw}, implementation {r['weight']}"
            else:
                for i, md in enumerate(m[5]):
                    got = r["degrees"][i]
                    if isinstance(md, list):
                        if got != md[1]:
                            bad = f"evaluation: model raises {md[1]}, implementation {got!r}"
                    elif isinstance(got, str):
                        bad = f"evaluation: implementation raises {got} ({r['msg']}), model {md}"
                    else:
                        fr = A.Frag()
                        # the intended tree is unknown for a mutant: compare only when the value is not at a fragile point
                        if not C.close(got, C.parse_x(md)) and abs(got - float(C.parse_x(md))) > 1e-6:
                            bad = f"degree: implementation {got!r}, model {md}"
                        st.validated += 1
        nt = m[0] == "err" or case["kind"] != "valid"
        st.case((case["text"], json.dumps(case["vars"], sort_keys=True)), nt,
                sample={"text": case["text"], "impl": r["kind"] if r["kind"] != "ok" else "accepted", "model": o[:80]}
                if case["kind"] == "injected" else None)
        if bad and m[0] == "err" and r["kind"] == "ok":
            # the acceptance set of the model is *proved* to be the documented grammar (ruleParse_accepts_iff,
            # consequentLoad_accepts_iff, antecedentLoad_sound): a text the model rejects and the implementation accepts
            # is an ill-formed rule that was accepted
            d = (f"rule text '{case['text']}' is not of the documented form ({m[1]} error at {m[2]} in the grammar model) but "
                 f"was accepted: loaded as [{' '.join(r['postfix'])}] then {r['concl']} weight {r['weight']}")
            mism.append({"case": case, "violation": True, "detail": d, "what": d})
        elif bad:
            mism.append({"case": case, "impl": {k: r[k] for k in ("kind", "msg", "postfix", "concl")}, "model": o[:200],
                         "what": bad})
        else:
            ok, detail = oracle(case)
            st.count("oracle")
            if not ok:
                mism.append({"case": case, "violation": True, "detail": detail, "what": detail})
        if len(mism) > 25:
            break
    # FLL documents: property oracle only
    for case in [c for c in corpus() if "fll" in c] + fll_cases(ctx):
        st.count(f"{case['kind']}:{case.get('how')}")
        ok, detail = fll_oracle(case)
        st.case(case["fll"], case["kind"] != "fll-valid")
        if not ok:
            mism.append({"case": case, "violation": True, "detail": detail, "what": detail})
            if len(mism) > 30:
                break
    # RuleBlock.load_rules / reload_rules on blocks that mix loadable and unloadable rules, against Op.loadRules
    mism += S_LOAD.run(ctx, sys.modules[__name__])
    return mism


def search(ctx):
    for c in corpus() + rule_cases(ctx) + fll_cases(ctx):
        ok, d = oracle(c)
        if not ok:
            return [(c, d)]
    return []
