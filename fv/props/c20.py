"""C20 — Temporary settings are always restored (DESIGN.md section 8, C20)."""
from __future__ import annotations

import inspect
import itertools
import logging

import numpy as np

import common as C
import fuzzylite as fl

PID = "C20"
MODULES = ["FlVerif.Props.C20"]
NAMESPACE = "C20"
TIE_A = ["code:fuzzylite.library.Settings.context", "code:fuzzylite.library.Settings.__init__",
         "code:fuzzylite.library.Settings.factory_manager.fget", "code:fuzzylite.library.Settings.factory_manager.fset"]
RULE = ("programs of nested `with fl.settings.context(...)` blocks (depth <= 4) over subsets of the 7 settings (None "
        "arguments included), with direct assignments inside and outside contexts, probes of vars(fl.settings) / Op.str / "
        "Op.is_close at every level and `raise` at any point; executed on the real settings singleton and by the Lean "
        "model. non-trivial: at least one context is left through an exception or contains a direct assignment to a "
        "named key or is nested; distinct = distinct program")
ASSUMPTIONS = ["setting values are drawn from small pools and compared by identity/equality",
               "contextlib.contextmanager / try-finally semantics of CPython are exercised, not modelled"]
LEVEL_TEXT = ("Lean theorems about Op.Settings.run (model of Settings.context: drop None arguments, snapshot, setattr, "
              "try/finally restore of the named keys) for programs of ANY size and nesting depth: ctx_restores_named (a named "
              "setting has its previous value when the context is left, normally or by an exception, whatever the body "
              "does), ctx_frame (settings not named are touched only by the body's own assignments), ctx_exception (the "
              "exception propagates after the rollback), frame_general / closed_program_restores_everything (any nesting), "
              "setAll_named and probe_sees_temporaries (temporary values are visible exactly inside), none_not_named, "
              "keys_table (the 7 settings, regenerated from the signature). Correspondence: the same programs are run with "
              "real nested `with` blocks on fl.settings and compared snapshot by snapshot.")
LEVEL_NOTE = ("Trusted: Lean kernel, standard axioms, the hand-written Op.Settings model (tied to library.py by the "
              "correspondence and the regenerated key list), CPython's contextmanager/finally.")
TECHNIQUE = "Lean 4 proof (structural induction over programs) about a model of Settings.context + differential run of generated programs on the real settings singleton"

KEYS = [p for p in inspect.signature(fl.Settings.context).parameters if p != "self"]
ATTR = {k: ("_factory_manager" if k == "factory_manager" else k) for k in KEYS}


class Boom(Exception):
    pass


_POOLS = None


def pools():
    global _POOLS
    if _POOLS is None:
        from fuzzylite.factory import FactoryManager
        _POOLS = {
            "float_type": [np.float64, np.float32, np.float16],
            "decimals": [3, 0, 1, 6, 9],
            "atol": [1e-3, 1e-6, 0.5],
            "rtol": [0.0, 1e-9, 0.25],
            "alias": ["fl", "", "*", "zz"],
            "logger": [logging.getLogger("fuzzylite"), logging.getLogger("fv.a"), logging.getLogger("fv.b")],
            "factory_manager": [fl.settings.factory_manager, FactoryManager(), FactoryManager()],
        }
    return _POOLS


def index_of(key, value):
    for i, v in enumerate(pools()[key]):
        if v is value or (key in ("decimals", "atol", "rtol", "alias") and type(v) is type(value) and v == value):
            return i
    return -1


def snapshot():
    d = vars(fl.settings)
    return [index_of(k, d.get(ATTR[k])) for k in KEYS]


def helpers_ok(snap):
    """Op.str / Op.is_close observe the current settings"""
    dec = pools()["decimals"][snap[KEYS.index("decimals")]] if snap[KEYS.index("decimals")] >= 0 else None
    atol = pools()["atol"][snap[KEYS.index("atol")]] if snap[KEYS.index("atol")] >= 0 else None
    rtol = pools()["rtol"][snap[KEYS.index("rtol")]] if snap[KEYS.index("rtol")] >= 0 else None
    if dec is None or atol is None or rtol is None:
        return False
    if fl.Op.str(1.0 / 3.0) != f"{1.0 / 3.0:.{dec}f}":
        return False
    a, b = 1.0, 1.0 + 0.2
    return bool(fl.Op.is_close(a, b)) == (abs(a - b) <= atol + rtol * abs(b))


def precreate(prog, cms):
    """`early` mode: every context manager of the program is CREATED before the program starts (in program order) and
    only entered where its `with` statement stands - creating a context has no effect, the snapshot is taken on entry"""
    while prog[0] not in ("done", "raise"):
        if prog[0] == "ctx":
            kwargs = {KEYS[k]: (None if v == "none" else pools()[KEYS[k]][v]) for k, v in prog[1]}
            cms[id(prog)] = fl.settings.context(**kwargs)
            precreate(prog[2], cms)
            prog = prog[3]
        else:
            prog = prog[-1]


def exec_prog(prog, log, cms=None):
    """prog: nested lists mirroring the Lean `Prog` syntax"""
    while True:
        op = prog[0]
        if op == "done":
            return
        if op == "raise":
            raise Boom()
        if op == "probe":
            s = snapshot()
            log.append(s + [1 if helpers_ok(s) else 0])
            prog = prog[1]
        elif op == "assign":
            k, v = KEYS[prog[1]], pools()[KEYS[prog[1]]][prog[2]]
            setattr(fl.settings, k, v)
            prog = prog[3]
        elif op == "ctx":
            kwargs = {KEYS[k]: (None if v == "none" else pools()[KEYS[k]][v]) for k, v in prog[1]}
            cm = cms[id(prog)] if cms is not None else fl.settings.context(**kwargs)
            with cm:
                exec_prog(prog[2], log, cms)
            prog = prog[3]
        else:
            raise ValueError(op)


def run_impl(prog, early=False, lazy=False):
    saved = dict(vars(fl.settings))
    try:
        for k in KEYS:
            setattr(fl.settings, ATTR[k], pools()[k][0])
        if lazy:
            # the default factory manager is created lazily: until something reads it the attribute holds None, and a context
            # that names `factory_manager` must put exactly that back
            fl.settings._factory_manager = None
        log, exc = [], 0
        cms = None
        if early:
            cms = {}
            precreate(prog, cms)
        try:
            exec_prog(prog, log, cms)
        except Boom:
            exc = 1
        final = snapshot()
        return exc, final, log
    finally:
        for k, v in saved.items():
            setattr(fl.settings, k, v)


def spec(prog, lazy=False):
    """the property as a reference interpreter: save named values on entry, put them back on every exit path"""
    log = []

    def go(p, s):
        while True:
            op = p[0]
            if op == "done":
                return False
            if op == "raise":
                return True
            if op == "probe":
                log.append(list(s))
                p = p[1]
            elif op == "assign":
                s[p[1]] = p[2]
                p = p[3]
            else:
                named = [(k, v) for k, v in p[1] if v != "none"]
                saved = {k: s[k] for k, _ in named}
                for k, v in named:
                    s[k] = v
                exc = go(p[2], s)
                for k in saved:
                    s[k] = saved[k]
                if exc:
                    return True
                p = p[3]

    s = [0] * len(KEYS)
    if lazy:
        s[KEYS.index("factory_manager")] = -1          # `None`: no pool value
    exc = go(prog, s)
    return (1 if exc else 0), s, log


def to_sx(p):
    op = p[0]
    if op in ("done", "raise"):
        return [op]
    if op == "probe":
        return ["probe", to_sx(p[1])]
    if op == "assign":
        return ["assign", str(p[1]), str(p[2]), to_sx(p[3])]
    return ["ctx", [[str(k), str(v)] for k, v in p[1]], to_sx(p[2]), to_sx(p[3])]


def features(p, depth=0, acc=None):
    acc = acc if acc is not None else {"depth": 0, "raise": 0, "assign_in_ctx": 0, "ctx": 0}
    while p[0] not in ("done", "raise"):
        if p[0] == "probe":
            p = p[1]
        elif p[0] == "assign":
            if depth > 0:
                acc["assign_in_ctx"] += 1
            p = p[3]
        else:
            acc["ctx"] += 1
            acc["depth"] = max(acc["depth"], depth + 1)
            features(p[2], depth + 1, acc)
            p = p[3]
    if p[0] == "raise":
        acc["raise"] += 1
    return acc


def gen_prog(rng, depth, budget):
    """random program; budget bounds the number of statements"""
    if budget[0] <= 0:
        return ["done"]
    budget[0] -= 1
    r = rng.random()
    if r < 0.12:
        return ["done"]
    if r < 0.2:
        return ["raise"]
    if r < 0.4:
        return ["probe", gen_prog(rng, depth, budget)]
    if r < 0.6:
        k = rng.randrange(len(KEYS))
        return ["assign", k, rng.randrange(len(pools()[KEYS[k]])), gen_prog(rng, depth, budget)]
    if depth >= 4:
        return ["probe", gen_prog(rng, depth, budget)]
    ks = rng.sample(range(len(KEYS)), rng.randint(0, 4))
    kw = [(k, "none" if rng.random() < 0.15 else rng.randrange(len(pools()[KEYS[k]]))) for k in ks]
    body = ["probe", gen_prog(rng, depth + 1, budget)]
    return ["ctx", kw, body, ["probe", gen_prog(rng, depth, budget)]]


def enum_progs():
    """small exhaustive family: one or two nested contexts over key subsets, with assign / raise placements"""
    ks = [1, 4]  # decimals, alias
    for named in ([(1, 2)], [(1, 2), (4, 1)], [(4, "none"), (1, 3)]):
        for inner in (["done"], ["raise"], ["assign", 1, 4, ["probe", ["done"]]], ["assign", 2, 1, ["raise"]],
                      ["ctx", [(1, 1)], ["probe", ["raise"]], ["done"]],
                      ["ctx", [(2, 2)], ["assign", 2, 1, ["probe", ["done"]]], ["assign", 1, 0, ["probe", ["done"]]]]):
            for after in (["done"], ["probe", ["done"]], ["assign", 3, 1, ["probe", ["done"]]]):
                yield ["probe", ["ctx", named, ["probe", inner], after]]


def key(case):
    f = features(case["prog"])
    return f"raise={int(f['raise'] > 0)} nested={int(f['depth'] > 1)}"


def oracle(case):
    prog = case["prog"]
    exc, final, log = run_impl(prog, early=bool(case.get("early")), lazy=bool(case.get("lazy")))
    e_exc, e_final, e_log = spec(prog, lazy=bool(case.get("lazy")))
    if exc != e_exc:
        return False, f"exception propagated: {exc}, expected {e_exc}"
    if final != e_final:
        return False, f"settings after the program {dict(zip(KEYS, final))}, expected {dict(zip(KEYS, e_final))} (pool indices)"
    if [l[:-1] for l in log] != e_log:
        return False, f"probe snapshots {log} differ from the reference {e_log}"
    if any(l[-1] != 1 for l in log):
        return False, "Op.str / Op.is_close did not observe the current settings at a probe"
    return True, "ok"


def correspond(ctx):
    st = ctx.stats
    mism = []
    progs = [(p, "enumerated") for p in enum_progs()]
    for _ in range(ctx.scale(4000, 40000)):
        progs.append((gen_prog(ctx.rng, 0, [ctx.rng.randint(3, 14)]), "random"))
    outs = ctx.driver.eval([C.sx(["settings", to_sx(p)]) for p, _ in progs])
    for (p, kind), line in zip(progs, outs):
        st.count(kind)
        case = {"prog": p}
        if line in ("bad-op", "bad-parse"):
            mism.append({"case": case, "model": line, "what": "model rejected the program"})
            continue
        m = C.parse_sx(line)
        m_exc, m_final, m_log = int(m[0]), [int(x) for x in m[1]], [[int(x) for x in l] for l in m[2:]]
        exc, final, log = run_impl(p)
        f = features(p)
        st.count(f"depth{f['depth']}")
        if f["raise"]:
            st.count("with-raise")
        st.case(repr(p), f["depth"] > 1 or (f["raise"] > 0 and f["ctx"] > 0) or f["assign_in_ctx"] > 0,
                sample={"prog": p, "impl": [exc, final, log]} if kind == "random" and f["depth"] > 1 else None)
        st.validated += 1
        if (exc, final, [l[:-1] for l in log]) != (m_exc, m_final, m_log) or any(l[-1] != 1 for l in log):
            mism.append({"case": case, "impl": [exc, final, log], "model": [m_exc, m_final, m_log],
                         "what": f"settings trace differs: implementation {[exc, final, log]}, model {[m_exc, m_final, m_log]}"})
            if len(mism) > 10:
                break
        ok, detail = oracle(case) if kind == "enumerated" or st.evaluations % 5 == 0 else (True, "")
        if not ok:
            mism.append({"case": case, "violation": True, "detail": detail, "what": detail})
        if f["ctx"] > 0 and (kind == "enumerated" or st.evaluations % 3 == 0):
            # the same program started while the default factory manager has not been created yet
            st.count("lazy-factory-manager")
            ok, detail = oracle({"prog": p, "lazy": True})
            if not ok:
                d = "started before the default factory manager was created (the attribute holds None): " + detail
                mism.append({"case": {"prog": p, "lazy": True}, "violation": True, "detail": d, "what": d})
        if f["ctx"] > 0 and (kind == "enumerated" or st.evaluations % 2 == 0):
            # the same program with its context managers created before the program starts
            st.count("early-created")
            ok, detail = oracle({"prog": p, "early": True})
            if not ok:
                d = "context managers created before the program starts and entered later: " + detail
                mism.append({"case": {"prog": p, "early": True}, "violation": True, "detail": d, "what": d})
    return mism


def search(ctx):
    for p in itertools.chain(enum_progs(), (gen_prog(ctx.rng, 0, [ctx.rng.randint(3, 14)]) for _ in range(5000))):
        for early in (False, True):
            ok, d = oracle({"prog": p, "early": early})
            if not ok:
                return [({"prog": p, "early": early}, d)]
        ok, d = oracle({"prog": p, "lazy": True})
        if not ok:
            return [({"prog": p, "lazy": True}, d)]
    return []
