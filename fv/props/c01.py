"""C01 — Engine output equals the documented inference pipeline (DESIGN.md section 8, C01)."""
from __future__ import annotations

import json
import math

import numpy as np

import common as C
import fuzzylite as fl
import gen_engine as G
from streams import infer as S_INFER

PID = "C01"
MODULES = ["FlVerif.Props.C01"]
NAMESPACE = "C01"
TIE_A = ["Norm.", "Hedge.", "Term.", "code:fuzzylite.engine.Engine.process",
         "code:fuzzylite.rule.Antecedent.activation_degree"]
TIE_A += ["code:fuzzylite.engine.Engine.infer_type", "code:fuzzylite.variable.Variable.highest_membership",
          "code:fuzzylite.variable.Variable.fuzzify"]
RULE = ("engines generated from the registered classes (1-3 inputs, 1-2 outputs, 1-2 rule blocks, nested and/or antecedents "
        "with hedges and `any`, rule weights, enabled/disabled rules, blocks and variables, output variables in antecedents, "
        "Mamdani / Takagi-Sugeno / Tsukamoto outputs, every activation method in scalar mode) x input rows (interior, range "
        "bounds, term breakpoints, out of range, +-inf, NaN); two families: `exact` (dyadic parameters, power-of-two slopes: "
        "float evaluation is exact, so discontinuous norms, thresholds, ties and maxima defuzzifiers are compared too) and "
        "`general` (all shape terms, sqrt hedges, continuous norms). non-trivial: at least one rule fires with a degree "
        "strictly between 0 and 1 and one output is defuzzified to a finite value; distinct = distinct (engine, row)")
RULE += (" Stream `infer` (fv/streams/infer.py): Engine.infer_type on engines with every defuzzifier family / term kind / order, Variable.highest_membership and fuzzify on variables with shape, constant (incl. NaN, +-inf) and raising terms, against Op/Infer.lean.")
ASSUMPTIONS = ["numeric observables compared within 1e-9 abs + 1e-9 rel of the exact model value",
               "Bisector is exercised by C09 only (its arg-min ties are float-sensitive at engine level)",
               "Function terms are exercised by C17; Discrete terms by C03"]
LEVEL_TEXT = ("Lean theorems (wiring, for ALL engines, rule lists and block lists of any length): process_eq_pipeline (the "
              "operational model of Engine.process - clear, activate enabled blocks in order, each rule evaluated and "
              "triggered in turn - equals the documented pipeline of contributions), antecedent_sees_prefix (a rule's "
              "antecedent is evaluated against exactly the contributions accumulated so far), disabled_rule_noop, "
              "disabled_block_noop, process_history_free (stale fuzzy outputs are irrelevant), degree_weight (activation degree "
              "= weight x antecedent), general_fires_all_enabled. The executable model Op.Engine.processRow (leaf formulas "
              "from the regenerated Gen definitions) is run against the implementation on generated engines: output values, "
              "every fuzzy output (term, degree, implication) and every rule's degree / triggered flag are compared; an "
              "independent Python reference of the documented pipeline (own wiring over the library's leaf functions) is the "
              "property oracle.")
LEVEL_NOTE = ("Trusted: Lean kernel, standard axioms, tracer, the hand-written Op.Engine model (tied to engine.py / rule.py / "
              "activation.py / term.py / defuzzifier.py / variable.py by the correspondence only), tolerance. The theorems "
              "establish the wiring for all engines; numeric agreement of the whole pipeline with the implementation is sampled. "
              "Component laws are C03-C12.")
TECHNIQUE = "Lean 4 proof (list induction) of the pipeline wiring + executable engine model at exact rationals run differentially against Engine.process"

KNOWN_F3 = "F3-hedge-leak"


def observe(e):
    outs = []
    for ov in e.output_variables:
        outs.append({"value": float(np.take(ov.value, -1)), "previous": float(ov.previous_value),
                     "fuzzy": [(a.term.name, float(a.degree), type(a.implication).__name__ if a.implication else "none")
                               for a in ov.fuzzy.terms]})
    rules = [[(float(r.activation_degree), bool(r.triggered)) for r in b.rules] for b in e.rule_blocks]
    return outs, rules


def run_impl(desc, rows):
    e = G.build(desc)
    res = []
    for row in rows:
        for iv, v in zip(e.input_variables, row):
            iv.value = v
        try:
            with np.errstate(all="ignore"):
                e.process()
            res.append(observe(e))
        except Exception as ex:  # noqa: BLE001
            res.append(("error", type(ex).__name__, str(ex)[:200]))
    return res


# ------------------------------------------------------------------ independent reference of the documented pipeline

def ref_degree(e, desc_b, a, fuzzy):
    """antecedent value read with the documented grammar, over the library's leaf functions"""
    if a[0] == "prop":
        var = next(v for v in e.variables if v.name == a[1])
        if not var.enabled:
            return 0.0
        hs = [fl.settings.factory_manager.hedge.construct(h) for h in a[2]]
        if a[3] is None:
            val = math.nan
        elif isinstance(var, fl.OutputVariable):
            val = ref_activation_degree(var, fuzzy[var.name], a[3])
        else:
            val = float(var.term(a[3]).membership(var.value))
        for h in reversed(hs):
            val = float(h.hedge(val))
        return val
    l, r = ref_degree(e, desc_b, a[1], fuzzy), ref_degree(e, desc_b, a[2], fuzzy)
    op = G.norm(desc_b["conjunction"] if a[0] == "and" else desc_b["disjunction"])
    return float(op.compute(l, r))


def sanitise(d):
    if d != d or d == -math.inf:
        return 0.0
    if d == math.inf:
        return 1.0
    return d


def ref_activation_degree(var, contributions, term_name):
    agg = var.aggregation or fl.UnboundedSum()
    acc = None
    for (t, d, _i) in contributions:
        if t == term_name:
            acc = d if acc is None else sanitise(float(agg.compute(acc, d)))
    return 0.0 if acc is None else acc


def ref_select(act, degs, rules):
    """indices of the rules an activation method triggers, with the degree used, per its definition"""
    n = len(degs)
    c = act["cls"]
    if c == "General":
        return [(i, degs[i]) for i in range(n)]
    if c in ("First", "Last"):
        order = range(n) if c == "First" else reversed(range(n))
        sel = [i for i in order if degs[i] > 0 and degs[i] >= act["threshold"]][: act["n"]]
        return [(i, degs[i]) for i in sel]
    if c in ("Highest", "Lowest"):
        pos = [i for i in range(n) if degs[i] > 0]
        pos.sort(key=lambda i: ((-degs[i]) if c == "Highest" else degs[i], i))
        return [(i, degs[i]) for i in pos[: act["n"]]]
    if c == "Proportional":
        pos = [i for i in range(n) if degs[i] > 0]
        s = 0.0
        for i in pos:
            s += degs[i]
        return [(i, degs[i] / s) for i in pos]
    if c == "Threshold":
        import operator
        f = {"<": operator.lt, "<=": operator.le, "==": operator.eq, "!=": operator.ne, ">=": operator.ge, ">": operator.gt}[act["cmp"]]
        return [(i, degs[i]) for i in range(n) if f(degs[i], act["threshold"])]
    raise AssertionError(c)


def reference(desc, rows, leaky=False):
    """documented pipeline; returns per row: list of (value, fuzzy) per output, or None when it cannot be evaluated"""
    e = G.build(desc)
    out = []
    held = {ov.name: math.nan for ov in e.output_variables}
    for row in rows:
        for iv, v in zip(e.input_variables, row):
            iv.value = v
        fuzzy = {ov.name: [] for ov in e.output_variables}
        leak = False
        with np.errstate(all="ignore"):
            for bd in desc["blocks"]:
                if not bd["enabled"]:
                    continue
                sequential = bd["activation"]["cls"] in ("General", "First", "Last", "Threshold")
                n = len(bd["rules"])
                order = list(reversed(range(n))) if bd["activation"]["cls"] == "Last" else list(range(n))
                if sequential:
                    # rules are evaluated and triggered in turn: each antecedent sees the contributions so far
                    count = 0
                    for i in order:
                        rd = bd["rules"][i]
                        d = rd["weight"] * ref_degree(e, bd, rd["ante"], fuzzy)
                        a = bd["activation"]
                        if a["cls"] == "General":
                            fire = True
                        elif a["cls"] in ("First", "Last"):
                            fire = count < a["n"] and d > 0 and d >= a["threshold"]
                        else:
                            fire = bool(ref_select(a, [d], [rd]))
                        if fire:
                            count += 1
                            if rd["enabled"]:
                                leak |= contribute(e, bd, rd, d, fuzzy, leaky)
                else:
                    degs = [rd["weight"] * ref_degree(e, bd, rd["ante"], fuzzy) for rd in bd["rules"]]
                    for i, d in ref_select(bd["activation"], degs, bd["rules"]):
                        if bd["rules"][i]["enabled"]:
                            leak |= contribute(e, bd, bd["rules"][i], d, fuzzy, leaky)
            vals = []
            for ov, od in zip(e.output_variables, desc["outputs"]):
                if not ov.enabled:
                    vals.append((held[ov.name], fuzzy[ov.name]))
                    continue
                agg = fl.Aggregated(ov.name, ov.minimum, ov.maximum, ov.aggregation,
                                    [fl.Activated(ov.term(t), d, G.norm(i)) for (t, d, i) in fuzzy[ov.name]])
                if isinstance(ov.defuzzifier, fl.IntegralDefuzzifier) and ov.aggregation is not None and \
                        all(i not in (None, "none") for (_, _, i) in fuzzy[ov.name]):
                    # the aggregated fuzzy set written out from the documented formula (own wiring over the norms and the
                    # term memberships only): every contribution under ITS implication, combined in order
                    agg = RefAggregated(ov, [(ov.term(t), d, G.norm(i)) for (t, d, i) in fuzzy[ov.name]])
                try:
                    raw = float(ov.defuzzifier.defuzzify(agg, ov.minimum, ov.maximum))
                except Exception as ex:  # noqa: BLE001
                    raw = ("error", type(ex).__name__)
                if isinstance(raw, tuple):
                    vals.append((raw, fuzzy[ov.name]))
                    continue
                v = raw
                if v != v and ov.lock_previous:
                    v = held[ov.name]
                if v != v and ov.default_value == ov.default_value:
                    v = ov.default_value
                if ov.lock_range and v == v:
                    v = min(max(v, ov.minimum), ov.maximum)
                held[ov.name] = v
                vals.append((v, fuzzy[ov.name]))
        out.append((vals, leak))
    return out


def contribute(e, bd, rd, d, fuzzy, leaky=False):
    """each conclusion contributes the concluded term with the rule's degree modified only by its OWN hedges"""
    leak = False
    seen_hedge = False
    for c in rd["concls"]:
        ov = next(v for v in e.output_variables if v.name == c["var"])
        if not ov.enabled:
            continue
        if seen_hedge:
            leak = True        # the pinned Consequent.modify leaks earlier hedges into later conclusions (F3)
        val = d
        for h in reversed(c["hedges"]):
            val = float(fl.settings.factory_manager.hedge.construct(h).hedge(val))
        if leaky:
            d = val            # the pinned loop: later conclusions start from the hedged degree
        if c["hedges"]:
            seen_hedge = True
        fuzzy[ov.name].append((c["term"], sanitise(val), bd["implication"]))
    return leak


def feq(a, b, tol=1e-7):
    if isinstance(a, tuple) or isinstance(b, tuple):
        return isinstance(a, tuple) and isinstance(b, tuple)
    if a != a or b != b:
        return a != a and b != b
    if math.isinf(a) or math.isinf(b):
        return a == b
    return abs(a - b) <= tol * (1 + abs(b))


def key(case):
    """F3 (known): the documented pipeline fails and the ONLY deviation is the hedge leak of Consequent.modify"""
    if case.get("stream"):
        return case["stream"]
    if has_leak(case["engine"]):
        ok, _ = oracle(case)
        ok_leaky, _ = oracle(case, leaky=True)
        if not ok and ok_leaky:
            return KNOWN_F3
    return "engine"


class RefAggregated(fl.Term):
    """mu(x) = S_k ( T_k(degree_k, mu_term_k(x)) ) over the contributions in order, starting from 0"""

    def __init__(self, ov, contributions):
        super().__init__(ov.name)
        self.ov, self.contributions = ov, contributions

    def membership(self, x):
        y = fl.scalar(0.0)
        for term, degree, implication in self.contributions:
            d = float(np.nan_to_num(degree, nan=0.0, neginf=0.0, posinf=1.0))
            y = self.ov.aggregation.compute(y, implication.compute(d, term.membership(x)))
        return y


def oracle(case, leaky=False):
    if case.get("stream"):
        return S_INFER.oracle(case)    # Engine.infer_type, Variable.highest_membership / fuzzify
    desc, rows = case["engine"], case["rows"]
    impl = run_impl(desc, rows)
    ref = reference(desc, rows, leaky)
    for ri, (o, (vals, leak)) in enumerate(zip(impl, ref)):
        if o[0] == "error":
            if any(isinstance(v, tuple) for v, _ in vals):
                continue
            return False, f"row {ri} {rows[ri]}: process() raised {o[1]}: {o[2]}"
        outs, _rules = o
        for oi, (ov, (v, fz)) in enumerate(zip(outs, vals)):
            if [(t, i) for t, _, i in ov["fuzzy"]] != [(t, i or "none") for t, _, i in fz] or \
                    not all(feq(a[1], b[1]) for a, b in zip(ov["fuzzy"], fz)):
                return False, (f"row {ri} {rows[ri]} output {oi}: fuzzy output {ov['fuzzy']} differs from the documented "
                               f"contributions {fz}" + (" [hedged non-last conclusion]" if leak else ""))
            if not feq(ov["value"], v):
                return False, f"row {ri} {rows[ri]} output {oi}: value {ov['value']!r}, documented pipeline gives {v!r}"
    return True, "ok"


def has_leak(desc):
    for b in desc["blocks"]:
        for r in b["rules"]:
            hs = [bool(c["hedges"]) for c in r["concls"]]
            if any(hs[:-1]):
                return True
    return False


def shared_conclusions(desc, rng):
    """a second rule block that concludes the SAME terms as the first one under a different implication (the
    contributions of one term then differ in their implication); every aggregation operator, Maximum included"""
    import copy
    b0 = desc["blocks"][0]
    b1 = copy.deepcopy(b0)
    b1["name"] = "rb_shared"
    pool = [t for t in (G.EXACT_T if desc["exact"] else G.CONT_T) if t != b0["implication"]]
    b1["implication"] = rng.choice(pool)
    for r in b1["rules"]:
        r["weight"] = rng.choice([1.0, 0.5, 0.25])
    b0["enabled"] = b1["enabled"] = True
    desc["blocks"] = [b0, b1]
    for o in desc["outputs"]:
        if "resolution" in o["defuzzifier"] and rng.random() < 0.6:
            o["aggregation"] = "Maximum"
    return desc


def gen_cases(ctx, activation="mixed"):
    rng = ctx.rng
    for i in range(ctx.scale(260, 2500)):
        desc = G.gen_engine(rng, activation="general" if rng.random() < 0.5 else "mixed")
        if i % 8 == 3:
            desc = shared_conclusions(desc, rng)
        rows = G.gen_rows(rng, desc, ctx.scale(5, 6))
        yield {"engine": desc, "rows": rows, "tag": KNOWN_F3 if has_leak(desc) else "engine"}
    # families drawn after the main stream (the cases above are unchanged for a seed); mostly `exact` engines: their
    # exact model is cheap to run.  `chained`: repeated antecedents / rules that read an output term other rules of
    # the block keep contributing to (G.gen_chained); `saturated`: a fuzzy output that is 1 over the whole range and
    # still receives contributions, under every S-norm incl. UnboundedSum (G.gen_saturated)
    for family, n in (("chained", ctx.scale(30, 300)), ("saturated", ctx.scale(30, 300))):
        for i in range(n):
            exact = rng.random() < 0.8
            if family == "chained":
                desc = G.gen_chained(rng, exact=exact, activation="general" if rng.random() < 0.7 else "mixed")
            else:
                desc = G.gen_saturated(rng, exact=exact)
            rows = G.gen_rows(rng, desc, ctx.scale(5, 6))
            yield {"engine": desc, "rows": rows, "tag": KNOWN_F3 if has_leak(desc) else "engine", "family": family}


TOL = dict(atol=1e-7, rtol=1e-7)


def perturbed(row, up):
    return [float(np.nextafter(v, math.inf if up else -math.inf)) if math.isfinite(v) else v for v in row]


def obs_close(o1, o2, tol=1e-9):
    """are two implementation observations of one row equal up to `tol` (discrete parts exactly)?"""
    if o1[0] == "error" or o2[0] == "error":
        return o1[0] == o2[0]
    (outs1, rules1), (outs2, rules2) = o1, o2
    for a, b in zip(outs1, outs2):
        if not feq(a["value"], b["value"], tol) or len(a["fuzzy"]) != len(b["fuzzy"]):
            return False
        for x, y in zip(a["fuzzy"], b["fuzzy"]):
            if x[0] != y[0] or x[2] != y[2] or not feq(x[1], y[1], tol):
                return False
    for ra, rb in zip(rules1, rules2):
        for x, y in zip(ra, rb):
            if x[1] != y[1] or not feq(x[0], y[0], tol):
                return False
    return True


def is_fragile(desc, row, o):
    """the implementation itself is discontinuous / ill-conditioned at this point (a one-ulp change of the inputs moves its
    own observables by more than 1e-9), or a degree is so small (< 1e-12) that float addition to O(1) values absorbs it
    / it underflows below the resolution of the exact oracle"""
    if o[0] != "error":
        for b in o[1]:
            for d, _ in b:
                if d == d and 0 < abs(d) < 1e-6:
                    return True
        for ov in o[0]:
            for _, d, _ in ov["fuzzy"]:
                if d == d and 0 < abs(d) < 1e-6:
                    return True
    # a degree within rounding distance of an activation threshold (but not equal to it): `>=` may go either way
    if o[0] != "error":
        for b, rb in zip(desc["blocks"], o[1]):
            t = b["activation"].get("threshold")
            if t is not None:
                for d, _ in rb:
                    if d == d and d != t and abs(d - t) < 1e-9:
                        return True
    # near-ties between the degrees of a Highest / Lowest block (general family): the order may go either way
    if o[0] != "error" and not desc["exact"]:
        for b, rb in zip(desc["blocks"], o[1]):
            if b["activation"]["cls"] in ("Highest", "Lowest"):
                ds = sorted(d for d, _ in rb if d == d and d > 0)
                if any(y - x < 1e-9 for x, y in zip(ds, ds[1:])):
                    return True
    # Tsukamoto inverses are singular at degree 0 and at the term's height (log 0, 1/0, sqrt of a cancellation)
    if o[0] != "error":
        for ov, od in zip(o[0], desc["outputs"]):
            if "type" in od["defuzzifier"] and any(t["kind"] == "shape" for t in od["terms"]):
                hts = {t["name"]: t["height"] for t in od["terms"] if t["kind"] == "shape"}
                for name, d, _ in ov["fuzzy"]:
                    if d == d and (abs(d) < 1e-9 or abs(d - hts.get(name, 1.0)) < 1e-9 or abs(d - 1.0) < 1e-9):
                        return True
    for up in (True, False):
        o2 = run_impl(desc, [perturbed(row, up)])[0]
        if not obs_close(o, o2):
            return True
    if sample_on_edge(desc):
        return True
    return False


_EDGE = {}


def sample_on_edge(desc):
    """a sample point of an integral defuzzifier sits (in float) on a jump of an output term - the edge of a Rectangle, a
    vertical side of a Triangle / Trapezoid, the start of a Binary: the float midpoint `0.05` includes the edge where the exact
    midpoint 1/20 < float(0.05) does not, so the exact model and the implementation legitimately sample different sets.
    Perturbing the inputs (above) does not see this: it is a property of the engine, not of the row."""
    if desc.get("exact"):
        return False
    k = json.dumps(desc, sort_keys=True, default=str)
    if k not in _EDGE:
        hit = False
        e = G.build(desc)
        for ov in e.output_variables:
            r = getattr(ov.defuzzifier, "resolution", None)
            if not r or not (math.isfinite(ov.minimum) and math.isfinite(ov.maximum)):
                continue
            with np.errstate(all="ignore"):
                xs = np.asarray(fl.Op.midpoints(ov.minimum, ov.maximum, int(r)), dtype=float)
                for t in ov.terms:
                    try:
                        a = np.asarray(t.membership(np.nextafter(np.nextafter(xs, -np.inf), -np.inf)), dtype=float)
                        b = np.asarray(t.membership(xs), dtype=float)
                        c = np.asarray(t.membership(np.nextafter(np.nextafter(xs, np.inf), np.inf)), dtype=float)
                    except Exception:  # noqa: BLE001
                        continue
                    if np.any(np.abs(a - b) > 1e-6) or np.any(np.abs(c - b) > 1e-6):
                        hit = True
        if len(_EDGE) > 4096:
            _EDGE.clear()
        _EDGE[k] = hit
    return _EDGE[k]


def model_tiny(m):
    """a degree of the exact model is positive but below 1e-12: float evaluation may legitimately absorb it (1 - 1)"""
    if m == "error":
        return False
    (mfz, mrules, _raw), _v, _p = m
    vals = [a[1] for l in mfz if l != "()" for a in l] + [r[0] for b in mrules if b != "()" for r in b]
    for v in vals:
        x = C.parse_x(v)
        if not isinstance(x, str) and 0 < abs(x) < 1e-6:
            return True
    return False


def inexact(desc, o, m):
    """`exact` family only: the comparison of discontinuous operators is meaningful while float evaluation is exact; as soon
    as one observed degree differs from the model's in the last bit (an absorbed 1 - 1e-20, a rounded product) rounding has
    occurred upstream and a branch may legitimately differ"""
    if not desc["exact"] or o[0] == "error" or m == "error":
        return False
    from fractions import Fraction
    (mfz, mrules, _raw), _v, _p = m
    pairs = []
    for ov, mf in zip(o[0], mfz):
        mf = [] if mf == "()" else mf
        pairs += [(a[1], b[1]) for a, b in zip(ov["fuzzy"], mf)]
    for rb, mb in zip(o[1], mrules):
        mb = [] if mb == "()" else mb
        pairs += [(a[0], b[0]) for a, b in zip(rb, mb)]
    for a, b in pairs:
        x = C.parse_x(b)
        if isinstance(x, str) or a != a or math.isinf(a):
            continue
        if Fraction(a) != x and abs(Fraction(a) - x) < Fraction(1, 10 ** 6):
            return True
    return False


def compare_row(desc, o, m):
    """o: implementation observation of one row; m: model S-expression of one row; returns None or a description"""
    if o[0] == "error" or m == "error":
        if o[0] == "error" and m == "error":
            return None
        return f"implementation {o[:2] if o[0] == 'error' else 'ok'} but model {'error' if m == 'error' else 'ok'}"
    outs, rules = o
    (mfz, mrules, mraw), mvals, mprev = m
    for oi, ov in enumerate(outs):
        mf = [] if mfz[oi] == "()" else mfz[oi]
        if len(mf) != len(ov["fuzzy"]):
            return f"output {oi}: {len(ov['fuzzy'])} activated terms, model {len(mf)}"
        for (t, d, i), (mt, md, mi) in zip(ov["fuzzy"], mf):
            if t != mt or i != mi or not C.close(d, C.parse_x(md), **TOL):
                return f"output {oi}: activated ({t}, {d}, {i}), model ({mt}, {md[:30]}, {mi})"
        if not C.close(ov["value"], C.parse_x(mvals[oi]), **TOL):
            return f"output {oi}: value {ov['value']!r}, model {mvals[oi][:40]}"
        if not C.close(ov["previous"], C.parse_x(mprev[oi]), **TOL):
            return f"output {oi}: previous value {ov['previous']!r}, model {mprev[oi][:40]}"
    for bi, (b, rb) in enumerate(zip(desc["blocks"], rules)):
        if not b["enabled"]:
            continue
        mb = [] if mrules[bi] == "()" else mrules[bi]
        for rj, ((d, trig), (md, mt)) in enumerate(zip(rb, mb)):
            if not C.close(d, C.parse_x(md), **TOL) or trig != (mt == "1"):
                return f"block {bi} rule {rj}: (degree, triggered) = ({d}, {trig}), model ({md[:30]}, {mt})"
    return None


def correspond(ctx):
    st = ctx.stats
    mism = []
    cases = list(gen_cases(ctx))
    lines = [C.sx(["process", G.engine_sx(c["engine"]), c["rows"]]) for c in cases]
    outs = ctx.driver.eval(lines)
    seen_leak = False
    for case, line in zip(cases, outs):
        desc, rows = case["engine"], case["rows"]
        st.count("exact" if desc["exact"] else "general")
        if case.get("family"):
            st.count("family:" + case["family"])
        for b in desc["blocks"]:
            st.count("activation:" + b["activation"]["cls"])
        if line in ("bad-op", "bad-parse"):
            mism.append({"case": case, "model": line, "what": "model rejected the engine"})
            continue
        m = C.parse_sx(line)
        impl = run_impl(desc, rows)
        for ri, (o, mr) in enumerate(zip(impl, m[0])):
            nt = o[0] != "error" and any(0 < d < 1 for b in o[1] for d, _ in b) and any(math.isfinite(ov["value"]) for ov in o[0])
            st.case((repr(desc), tuple(rows[ri])), nt,
                    sample={"rules": [G.rule_text(r) for b in desc["blocks"] for r in b["rules"]], "row": rows[ri],
                            "outputs": [ov["value"] for ov in o[0]] if o[0] != "error" else o[:2]} if nt and len(st.samples) < 5 else None)
            st.validated += 1
            bad = compare_row(desc, o, mr)
            if bad and (model_tiny(mr) or inexact(desc, o, mr) or is_fragile(desc, rows[ri], o)):
                st.skipped_fragile += 1
                break          # later rows depend on the carried state of this one
            if bad:
                mism.append({"case": {"engine": desc, "rows": [rows[ri]], "tag": case["tag"]}, "impl": str(o)[:400],
                             "model": str(mr)[:400], "what": f"row {rows[ri]}: {bad}"})
                break
        if len(mism) > 8:
            break
        # property oracle: the documented pipeline (own wiring over the library's leaf functions)
        if st.evaluations % 3 == 0 or case["tag"] == KNOWN_F3 or case.get("family"):
            ok, detail = oracle(case)
            st.count("oracle")
            if not ok:
                if case["tag"] == KNOWN_F3 and "hedged non-last conclusion" in detail:
                    if seen_leak:
                        continue
                    seen_leak = True
                mism.append({"case": case, "violation": True, "detail": detail, "what": detail})
    # Engine.infer_type, Variable.highest_membership / fuzzify against Op/Infer.lean (models of the code ties)
    mism += S_INFER.run(ctx)
    return mism


def search(ctx):
    for case in gen_cases(ctx):
        ok, d = oracle(case)
        if not ok and not (case["tag"] == KNOWN_F3):
            return [(case, d)]
    return []
