"""C03 — Membership functions match their documented definitions (DESIGN.md section 8, C03)."""
from __future__ import annotations

import glob
import json
import itertools
import math
import os
from fractions import Fraction as Fr

import numpy as np

import common as C
import layouts as L
import fuzzylite as fl

PID = "C03"
MODULES = ["FlVerif.Props.C03"]
NAMESPACE = "C03"
TIE_A = ["Term.", "code:fuzzylite.term.Discrete.membership", "code:fuzzylite.term.Discrete.x", "code:fuzzylite.term.Discrete.y",
         "code:fuzzylite.term.Discrete.to_xy", "code:fuzzylite.term.Discrete.create", "code:fuzzylite.term.Term.discretize",
         "code:fuzzylite.term.Linear.membership", "code:fuzzylite.term.Constant.membership"]
# `Term.__init__` and the method `is_monotonic` every shape class uses (theorems `code_termInit`, `code_isMonotonic`)
TIE_A += ["code:fuzzylite.term.Term.__init__"]
TIE_A += ["code:fuzzylite.term.Arc.is_monotonic", "code:fuzzylite.term.Bell.is_monotonic",
          "code:fuzzylite.term.Binary.is_monotonic", "code:fuzzylite.term.Concave.is_monotonic",
          "code:fuzzylite.term.Cosine.is_monotonic", "code:fuzzylite.term.Gaussian.is_monotonic",
          "code:fuzzylite.term.GaussianProduct.is_monotonic", "code:fuzzylite.term.PiShape.is_monotonic",
          "code:fuzzylite.term.Ramp.is_monotonic", "code:fuzzylite.term.Rectangle.is_monotonic",
          "code:fuzzylite.term.SemiEllipse.is_monotonic", "code:fuzzylite.term.Sigmoid.is_monotonic",
          "code:fuzzylite.term.SigmoidDifference.is_monotonic", "code:fuzzylite.term.SigmoidProduct.is_monotonic",
          "code:fuzzylite.term.Spike.is_monotonic", "code:fuzzylite.term.SShape.is_monotonic",
          "code:fuzzylite.term.Trapezoid.is_monotonic", "code:fuzzylite.term.Triangle.is_monotonic",
          "code:fuzzylite.term.ZShape.is_monotonic"]
RULE = ("all 20 shape classes + Constant x parameterisations (both directions, vertical edges a=b / c=d, infinite shoulders, "
        "reversed Rectangle/SemiEllipse; parameter pools: decimals k/100, dyadics k/16, random doubles) x heights {1, 0.5, 0.3, "
        "random} x x in {every parameter and derived breakpoint with its two float neighbours, midpoints, random interior / "
        "exterior, +-inf, NaN}; scalars plus 1-D and 2-D arrays per configuration; a case is non-trivial when the model value "
        "is a genuinely computed number (not 0, not the height, not NaN) or x sits exactly on a breakpoint; distinct = distinct "
        "(class, parameters, height, x)")
RULE += (" Family `long Discrete`: Discrete terms of 2 .. 400 pairs (sizes around 16 / 32 / 64 / 128 / 256 and random ones; up to 600 in the thorough tier) shaped as staircases, sawteeth, random walks with runs of pairs on one abscissa (vertical edges) and strictly increasing polylines, on dyadic and decimal grids, evaluated at edges, their floating-point neighbours, strictly inside the segments on both sides of an edge, outside, +-inf, NaN; scalar, every array layout, against Op.interp and the independent exact interpolation (at a vertical edge the pair written last gives the value, as for numpy.interp).")
ASSUMPTIONS = ["float evaluation compared with the exact value within 1e-9 abs + 1e-9 rel (on squares for the "
               "sqrt-of-cancellation values of Arc and SemiEllipse); exp/sqrt/cos/pow of the model through the 2^-128 "
               "fixed-point oracle",
               "array evaluation compared with element-by-element evaluation of the implementation itself (1e-12 rel)",
               "Discrete.membership (numpy.interp) is modelled by the hand-written Op.interp, not traced"]
LEVEL_TEXT = ("Lean theorems over definitions regenerated from term.py by symbolic tracing: for every shape class the traced "
              "membership equals the documented closed form times the height for all finite x and all valid parameters "
              "(gen_<class>: piecewise-polynomial classes over every ordered field, exp/sqrt/cos/pow classes for any function "
              "bundle with the stated side conditions); gen_eq_spec: for every valid term and every extended argument the "
              "function the driver runs returns Spec.muX = closed form / documented limits at +-inf / NaN exactly at NaN "
              "(nan_shapes, nan_iff; Constant ignores x: gen_constant); range 0 <= mu <= height for every class (range, "
              "range_generic, range_at_inf); explicit values at every breakpoint (at_*); limits: the values at +-inf are "
              "the Filter.Tendsto limits of the closed forms; monotone / monotone_generic for the six monotonic classes in both "
              "directions and isMonotonic_table; laws of the interpolation model of Discrete. Correspondence: "
              "implementation vs regenerated model at exact rationals at the hot spots (parameters, float neighbours, "
              "decimal pools) plus an independent Python oracle of the documented formulas.")
LEVEL_NOTE = ("Trusted: Lean kernel, standard axioms, Mathlib (Real.exp/sqrt/cos/rpow), the tracer (validated by running the "
              "generated definitions against the real functions), tolerance 1e-9 / squares rule, Fn.rat oracle. Carried by the "
              "correspondence only: float evaluation at and next to the breakpoints (rounding-only defects such as F1/F2 can "
              "be found there, their absence cannot be proved), NumPy broadcasting on 1-D / 2-D arrays, numpy.interp behind "
              "Discrete (modelled by Op.interp).")
TECHNIQUE = ("Lean 4 proof (ordered fields; Real analysis for exp/sqrt/cos/rpow) over definitions regenerated from term.py by "
             "symbolic tracing + differential run against the Lean driver + independent closed-form oracle")

INF = math.inf
NAN = math.nan
MONOTONIC = {"Arc", "Concave", "Ramp", "Sigmoid", "SShape", "ZShape"}
SQUARES = {"Arc", "SemiEllipse"}
NPARAMS = {"Arc": 2, "Bell": 3, "Binary": 2, "Concave": 2, "Constant": 1, "Cosine": 2, "Gaussian": 2, "GaussianProduct": 4,
           "PiShape": 4, "Ramp": 2, "Rectangle": 2, "SemiEllipse": 2, "Sigmoid": 2, "SigmoidDifference": 4,
           "SigmoidProduct": 4, "Spike": 2, "SShape": 2, "Trapezoid": 4, "Triangle": 3, "ZShape": 2}
CLASSES = sorted(NPARAMS) + ["Discrete"]


# ------------------------------------------------------------------------------- the implementation under test

def make(cls, params, height):
    T = getattr(fl, cls)
    if cls == "Discrete":
        return T("t", [float(v) for v in params], float(height))
    if cls == "Constant":
        return T("t", float(params[0]))
    return T("t", *[float(p) for p in params], float(height))


def impl(term, x):
    with np.errstate(all="ignore"):
        return float(np.asarray(term.membership(x), dtype=float))


def impl_array(term, xs):
    with np.errstate(all="ignore"):
        return np.asarray(term.membership(np.asarray(xs, dtype=float)), dtype=float)


# ------------------------------------------------------------------------------- documented closed forms (independent oracle)
# rational arithmetic is exact (Fraction); exp / sqrt / cos / pow are applied once, to the exactly computed argument

def _F(v):
    return Fr(float(v))


def _sig(i, sl, x):
    z = float(-_F(sl) * (_F(x) - _F(i)))
    if z > 700:
        return 0.0
    return 1.0 / (1.0 + math.exp(z))


def _siglim(sl):
    return 1.0 if sl > 0 else 0.0


def _gauss(m, sd, x):
    z = float(-(_F(x) - _F(m)) ** 2 / (2 * _F(sd) ** 2))
    return math.exp(z) if z > -745 else 0.0


def _s_unit(s, e, x):
    s, e, x = _F(s), _F(e), _F(x)
    if x <= s:
        return Fr(0)
    if x <= (s + e) / 2:
        return 2 * ((x - s) / (e - s)) ** 2
    if x < e:
        return 1 - 2 * ((x - e) / (e - s)) ** 2
    return Fr(1)


def _z_unit(s, e, x):
    s, e, x = _F(s), _F(e), _F(x)
    if x <= s:
        return Fr(1)
    if x < (s + e) / 2:
        return 1 - 2 * ((x - s) / (e - s)) ** 2
    if x < e:
        return 2 * ((x - e) / (e - s)) ** 2
    return Fr(0)


def _interp(pts, x):
    xs, ys = pts[0::2], pts[1::2]
    if x < xs[0]:
        return Fr(ys[0])
    for j in range(len(xs) - 1):
        if xs[j] <= x < xs[j + 1]:
            return _F(ys[j]) + (_F(ys[j + 1]) - _F(ys[j])) / (_F(xs[j + 1]) - _F(xs[j])) * (_F(x) - _F(xs[j]))
    return Fr(ys[-1])


def doc(cls, p, h, x):
    """documented value of the term at x (float; NaN as float nan)"""
    if cls == "Constant":
        return float(p[0])
    if x != x:
        return NAN
    if abs(x) == INF:
        return _doc_inf(cls, p, h, x > 0)
    H, X = _F(h), _F(x)
    if cls == "Arc":
        s, e = _F(p[0]), _F(p[1])
        if (s <= X <= e) or (e <= X <= s):
            return float(H) * math.sqrt(float((e - s) ** 2 - (X - e) ** 2)) / float(abs(e - s))
        return float(h) if (s < e < X) or (X < e < s) else 0.0
    if cls == "Bell":
        c, w, sl = _F(p[0]), _F(p[1]), float(p[2])
        base = float(abs(X - c) / w)
        pw = 1.0 if sl == 0 else (0.0 if base == 0 else base ** (2.0 * sl))
        return float(h) / (1.0 + pw)
    if cls == "Binary":
        s, d = p[0], p[1]
        return float(h) if (d == INF and x >= s) or (d == -INF and x <= s) else 0.0
    if cls == "Concave":
        i, e = _F(p[0]), _F(p[1])
        if i <= e and X < e:
            return float(H * (e - i) / (2 * e - i - X))
        if i > e and X > e:
            return float(H * (i - e) / (-2 * e + i + X))
        return float(h)
    if cls == "Cosine":
        c, w = _F(p[0]), _F(p[1])
        if c - w / 2 <= X <= c + w / 2:
            return float(h) / 2 * (1 + math.cos(float(2 / w * (X - c)) * math.pi))
        return 0.0
    if cls == "Discrete":
        return float(H * _interp(p, x))
    if cls == "Gaussian":
        return float(h) * _gauss(p[0], p[1], x)
    if cls == "GaussianProduct":
        a = _gauss(p[0], p[1], x) if x < p[0] else 1.0
        b = _gauss(p[2], p[3], x) if x > p[2] else 1.0
        return float(h) * a * b
    if cls == "PiShape":
        return float(H * _s_unit(p[0], p[1], x) * _z_unit(p[2], p[3], x))
    if cls == "Ramp":
        s, e = _F(p[0]), _F(p[1])
        if s < X < e:
            return float(H * (X - s) / (e - s))
        if e < X < s:
            return float(H * (s - X) / (s - e))
        if (s < e and X >= e) or (s > e and X <= e):
            return float(h)
        return 0.0
    if cls == "Rectangle":
        return float(h) if min(p) <= x <= max(p) else 0.0
    if cls == "SemiEllipse":
        lo, hi = _F(min(p)), _F(max(p))
        if lo <= X <= hi:
            r, c = (hi - lo) / 2, (lo + hi) / 2
            return float(h) * math.sqrt(float(r ** 2 - (X - c) ** 2)) / float(r)
        return 0.0
    if cls == "Sigmoid":
        return float(h) * _sig(p[0], p[1], x)
    if cls == "SigmoidDifference":
        return float(h) * abs(_sig(p[0], p[1], x) - _sig(p[3], p[2], x))
    if cls == "SigmoidProduct":
        return float(h) * (_sig(p[0], p[1], x) * _sig(p[3], p[2], x))
    if cls == "Spike":
        z = float(-abs(10 / _F(p[1]) * (X - _F(p[0]))))
        return float(h) * (math.exp(z) if z > -745 else 0.0)
    if cls == "SShape":
        return float(H * _s_unit(p[0], p[1], x))
    if cls == "ZShape":
        return float(H * _z_unit(p[0], p[1], x))
    if cls == "Trapezoid":
        a, b, c, d = p
        if x < a or x > d:
            return 0.0
        if (b <= x <= c) or (a == -INF and x < b) or (d == INF and x > c):
            return float(h)
        if x < b:
            return float(H * (X - _F(a)) / (_F(b) - _F(a)))
        return float(H * (_F(d) - X) / (_F(d) - _F(c)))
    if cls == "Triangle":
        a, b, c = p
        if x < a or x > c:
            return 0.0
        if x == b or (a == -INF and x < b) or (c == INF and x > b):
            return float(h)
        if x < b:
            return float(H * (X - _F(a)) / (_F(b) - _F(a)))
        return float(H * (_F(c) - X) / (_F(c) - _F(b)))
    raise KeyError(cls)


def _doc_inf(cls, p, h, pos):
    h = float(h)
    if cls in ("Arc", "Concave", "Ramp"):
        inc = p[0] < p[1]
        return h if inc == pos else 0.0
    if cls == "Bell":
        return h / 2 if p[2] == 0 else 0.0
    if cls == "Binary":
        return h if p[1] == (INF if pos else -INF) else 0.0
    if cls == "Discrete":
        return h * float(p[-1] if pos else p[1])
    if cls == "Sigmoid":
        return h * (_siglim(p[1]) if pos else 1 - _siglim(p[1]))
    if cls == "SigmoidDifference":
        a, b = _siglim(p[1]), _siglim(p[2])
        return h * abs(a - b)
    if cls == "SigmoidProduct":
        a, b = _siglim(p[1]), _siglim(p[2])
        return h * (a * b if pos else (1 - a) * (1 - b))
    if cls == "SShape":
        return h if pos else 0.0
    if cls == "ZShape":
        return 0.0 if pos else h
    if cls == "Trapezoid":
        return h if (p[3] == INF if pos else p[0] == -INF) else 0.0
    if cls == "Triangle":
        return h if (p[2] == INF if pos else p[0] == -INF) else 0.0
    return 0.0   # Cosine, Gaussian, GaussianProduct, PiShape, Rectangle, SemiEllipse, Spike


def valid(cls, p):
    """parameterisations covered by the documentation (Spec.Term.ValidShape)"""
    fin = [v for v in p if abs(v) != INF]
    if any(v != v for v in p):
        return cls == "Constant"
    if cls in ("Arc", "Ramp", "SemiEllipse", "Concave"):
        return p[0] != p[1] and len(fin) == 2
    if cls == "Bell":
        return p[1] > 0 and p[2] >= 0 and len(fin) == 3
    if cls == "Binary":
        return abs(p[1]) == INF and abs(p[0]) != INF
    if cls == "Cosine":
        return p[1] > 0 and len(fin) == 2
    if cls == "Discrete":
        xs, ys = p[0::2], p[1::2]
        return len(xs) >= 1 and len(xs) == len(ys) and all(a < b for a, b in zip(xs, xs[1:])) and all(0 <= y <= 1 for y in ys)
    if cls in ("Gaussian", "Spike"):
        return p[1] != 0 and len(fin) == 2
    if cls == "GaussianProduct":
        return p[1] != 0 and p[3] != 0 and len(fin) == 4
    if cls == "PiShape":
        return p[0] < p[1] and p[2] < p[3] and len(fin) == 4
    if cls == "Sigmoid":
        return p[1] != 0 and len(fin) == 2
    if cls in ("SigmoidDifference", "SigmoidProduct"):
        return p[1] != 0 and p[2] != 0 and len(fin) == 4
    if cls in ("SShape", "ZShape"):
        return p[0] < p[1] and len(fin) == 2
    if cls == "Trapezoid":
        a, b, c, d = p
        return a <= b <= c <= d and a != INF and d != -INF and abs(b) != INF and abs(c) != INF
    if cls == "Triangle":
        a, b, c = p
        return a <= b <= c and a != INF and c != -INF and abs(b) != INF
    return True


def breakpoints(cls, p):
    """positions where the definition changes piece (parameters and derived points), finite only"""
    if cls == "Discrete":
        b = list(p[0::2])
    elif cls in ("Arc", "Ramp", "Rectangle", "SShape", "ZShape", "SemiEllipse", "Concave"):
        b = [p[0], p[1], 0.5 * (p[0] + p[1])]
        if cls == "Concave":
            b.append(2 * p[1] - p[0])
    elif cls == "Bell":
        b = [p[0], p[0] - p[1], p[0] + p[1]]
    elif cls == "Binary":
        b = [p[0]]
    elif cls == "Cosine":
        b = [p[0], p[0] - 0.5 * p[1], p[0] + 0.5 * p[1], p[0] - 0.25 * p[1], p[0] + 0.25 * p[1]]
    elif cls in ("Gaussian", "Spike"):
        b = [p[0], p[0] - p[1], p[0] + p[1]]
    elif cls == "GaussianProduct":
        b = [p[0], p[2], p[0] - p[1], p[2] + p[3]]
    elif cls == "PiShape":
        b = [p[0], p[1], p[2], p[3], 0.5 * (p[0] + p[1]), 0.5 * (p[2] + p[3])]
    elif cls == "Sigmoid":
        b = [p[0], p[0] - 1 / p[1], p[0] + 1 / p[1]]
    elif cls in ("SigmoidDifference", "SigmoidProduct"):
        b = [p[0], p[3], 0.5 * (p[0] + p[3])]
    elif cls in ("Trapezoid", "Triangle"):
        b = list(p)
    elif cls == "Constant":
        b = [0.0, 1.0]
    else:
        b = list(p)
    return sorted({float(v) for v in b if v == v and abs(v) != INF})


def where(cls, p, x):
    """names the position of x relative to the definition (used in `key`)"""
    if x != x:
        return "x=nan"
    if abs(x) == INF:
        return "x=+inf" if x > 0 else "x=-inf"
    names = {"Arc": ["start", "end"], "Ramp": ["start", "end"], "Rectangle": ["start", "end"], "SemiEllipse": ["start", "end"],
             "SShape": ["start", "end"], "ZShape": ["start", "end"], "Concave": ["inflection", "end"],
             "Triangle": ["left", "top", "right"], "Trapezoid": ["bottom_left", "top_left", "top_right", "bottom_right"],
             "PiShape": ["bottom_left", "top_left", "top_right", "bottom_right"], "Binary": ["start"],
             "Bell": ["center"], "Cosine": ["center"], "Gaussian": ["mean"], "Spike": ["center"], "Sigmoid": ["inflection"]}
    for nm, v in zip(names.get(cls, []), p):
        if x == v:
            return f"x={nm}"
    for v in breakpoints(cls, p):
        if x == v:
            return "x=breakpoint"
        if x in (np.nextafter(v, -INF), np.nextafter(v, INF)):
            return "x~breakpoint"
    return "x=other"


def key(case):
    try:
        return f"{case['cls']}:{where(case['cls'], case['params'], float(case['x']))}"
    except Exception:  # noqa: BLE001
        return str(case.get("cls"))


# ------------------------------------------------------------------------------- property oracle

def _close(v, d, squares):
    if v != v or d != d:
        return (v != v) == (d != d)
    if abs(v) == INF or abs(d) == INF:
        return v == d
    if squares:
        return abs(v * v - d * d) <= 1e-12 * (1 + d * d)
    return abs(v - d) <= 1e-9 + 1e-9 * abs(d)


def check_point(cls, p, h, x, term=None, v=None):
    """the point-wise clauses of the property on the implementation; returns (ok, detail)"""
    term = term or make(cls, p, h)
    v = impl(term, x) if v is None else v
    d = doc(cls, p, h, x)
    if not _close(v, d, cls in SQUARES):
        return False, f"{cls}{tuple(p)} height {h}: membership({x!r}) = {v!r}, documented closed form gives {d!r}"
    if cls != "Constant":
        if (v != v) != (x != x):
            return False, f"{cls}{tuple(p)}: membership({x!r}) = {v!r}: NaN exactly when x is NaN fails"
        if v == v and not (-1e-12 <= v <= float(h) * (1 + 1e-12) + 1e-12):
            return False, f"{cls}{tuple(p)} height {h}: membership({x!r}) = {v!r} outside [0, height]"
    return True, "ok"


def check_arrays(cls, p, h, xs, term=None):
    """array evaluation = element-by-element evaluation (1-D and 2-D)"""
    term = term or make(cls, p, h)
    xs = list(xs)
    if len(xs) % 2:
        xs.append(xs[0])
    one = np.array([impl(term, x) for x in xs])
    a1 = impl_array(term, xs)
    a2 = impl_array(term, np.array(xs).reshape(2, -1))
    if a1.shape != (len(xs),) or a2.shape != (2, len(xs) // 2):
        return False, f"{cls}{tuple(p)}: array result has shape {a1.shape} / {a2.shape}"
    for nm, arr in (("1-D", a1), ("2-D", a2.reshape(-1))):
        for x, u, w in zip(xs, one, arr):
            same = (u != u and w != w) or u == w or abs(u - w) <= 1e-12 * (1 + abs(u))
            if not same:
                return False, f"{cls}{tuple(p)} height {h}: {nm} array gives {w!r} at x={x!r}, scalar call gives {u!r}"
    # batches without any point inside the support (all exterior / NaN / infinite), of every small shape
    fin = [x for x in xs if x == x and abs(x) != float("inf")] or [0.0]
    lo, hi = min(fin) - 1000.0, max(fin) + 1000.0
    for batch in ([NAN, hi], [NAN, NAN], [lo, NAN], [float("inf"), NAN, hi], [lo, hi], [NAN], [hi, NAN, lo, NAN]):
        one = [impl(term, x) for x in batch]
        for shape in ((len(batch),), (len(batch), 1), (1, len(batch))):
            arr = impl_array(term, np.array(batch, dtype=float).reshape(shape))
            if arr.shape != shape:
                return False, f"{cls}{tuple(p)}: membership of an array of shape {shape} has shape {arr.shape}"
            for x, u, w in zip(batch, one, arr.reshape(-1)):
                same = (u != u and w != w) or u == w or abs(u - w) <= 1e-12 * (1 + abs(u))
                if not same:
                    return False, (f"{cls}{tuple(p)} height {h}: membership({batch!r} as shape {shape}) gives {w!r} at x={x!r}, "
                                   f"the scalar call gives {u!r}")
    # the same points held in arrays of every memory layout / container, and (for one configuration in eight) a long array
    long = sum(repr((cls, list(p))).encode()) % 8 == 0
    ok, d = L.check_elementwise(lambda a: term.membership(a), xs, f"{cls}{tuple(p)} height {h}: membership",
                                scalar=lambda x: impl(term, x), long=long)
    if not ok:
        return False, d
    return True, "ok"


def check_monotone(cls, p, h, xs, term=None):
    """classes that declare themselves monotonic are monotone in x (on the given points, in the term's direction)"""
    term = term or make(cls, p, h)
    declared = bool(term.is_monotonic())
    if declared != (cls in MONOTONIC):
        return False, f"{cls}.is_monotonic() = {declared}"
    if not declared:
        return True, "ok"
    pts = sorted(x for x in xs if x == x)
    vals = [impl(term, x) for x in pts]
    inc = {"Arc": p[0] < p[1], "Concave": p[0] < p[1], "Ramp": p[0] < p[1], "Sigmoid": p[1] > 0, "SShape": True,
           "ZShape": False}[cls]
    tol = 1e-7 if cls == "Arc" else 1e-12          # Arc: sqrt of a cancellation next to the zero end
    for (x0, v0), (x1, v1) in zip(zip(pts, vals), zip(pts[1:], vals[1:])):
        bad = (v1 < v0 - tol) if inc else (v1 > v0 + tol)
        if bad or v0 != v0 or v1 != v1:
            return False, (f"{cls}{tuple(p)} height {h} is not {'non-decreasing' if inc else 'non-increasing'}: "
                           f"membership({x0!r}) = {v0!r}, membership({x1!r}) = {v1!r}")
    return True, "ok"


def oracle(case):
    cls, p, h, x = case["cls"], [float(v) for v in case["params"]], float(case["height"]), float(case["x"])
    if not hasattr(fl, cls):
        return False, f"class {cls} does not exist"
    if case.get("degenerate"):
        ok, _, d = check_degenerate(cls, p, h)
        return ok, d
    if case.get("built_with"):
        ok, _, d = check_reparam(cls, [float(v) for v in case["built_with"]], p, h, lambda c, q: [(x, "replay")])
        return ok, d
    term = make(cls, p, h)
    ok, d = check_point(cls, p, h, x, term)
    if not ok:
        return ok, d
    bps = breakpoints(cls, p) or [0.0]
    others = [bps[0] - 1.0, bps[len(bps) // 2], bps[-1] + 1.0]
    ok, d = check_arrays(cls, p, h, [x, others[1], others[0], x, others[2], NAN], term)
    if not ok:
        return ok, d
    if cls != "Constant" and cls != "Discrete":
        return check_monotone(cls, p, h, [x] + bps + others, term)
    return True, "ok"


# ------------------------------------------------------------------------------- generators

def pools(rng):
    def nice():
        return rng.randint(-300, 300) / 100

    def dyadic():
        return rng.randint(-64, 64) / 16

    def rand():
        return rng.uniform(-10, 10)
    return {"nice": nice, "dyadic": dyadic, "random": rand}


def distinct(draw, n, rng):
    vs = set()
    while len(vs) < n:
        vs.add(draw())
    vs = list(vs)
    rng.shuffle(vs)
    return vs


def configs(cls, draw, rng):
    """parameterisations of one class drawn from one pool: every direction / degenerate form the property lists"""
    out = []
    if cls in ("Arc", "Ramp", "SemiEllipse", "Rectangle", "Concave"):
        a, b = sorted(distinct(draw, 2, rng))
        out += [[a, b], [b, a]]
        if cls == "Rectangle":
            out.append([a, a])
    elif cls in ("SShape", "ZShape"):
        a, b = sorted(distinct(draw, 2, rng))
        out.append([a, b])
    elif cls == "Binary":
        out += [[draw(), INF], [draw(), -INF]]
    elif cls == "Triangle":
        a, b, c = sorted(distinct(draw, 3, rng))
        out += [[a, b, c], [a, a, c], [a, c, c], [-INF, b, c], [a, b, INF], [-INF, b, INF], [b, b, b]]
    elif cls == "Trapezoid":
        a, b, c, d = sorted(distinct(draw, 4, rng))
        out += [[a, b, c, d], [a, a, c, d], [a, b, d, d], [a, b, b, d], [a, a, d, d], [-INF, b, c, d], [a, b, c, INF],
                [-INF, b, c, INF], [-INF, b, b, d]]
    elif cls == "PiShape":
        a, b, c, d = sorted(distinct(draw, 4, rng))
        out += [[a, b, c, d], [a, b, b, d], [a, c, b, d]]
    elif cls == "Bell":
        for sl in (0.0, 0.5, 1.0, 2.0, 3.0, rng.uniform(0.1, 5)):
            out.append([draw(), abs(draw()) + rng.choice([0.01, 0.25, 1.0]), sl])
    elif cls == "Cosine":
        out += [[draw(), abs(draw()) + rng.choice([0.01, 0.25, 1.0])] for _ in range(2)]
    elif cls in ("Gaussian", "Spike"):
        w = abs(draw()) + rng.choice([0.01, 0.25, 1.0])
        out += [[draw(), w], [draw(), -w]]
    elif cls == "GaussianProduct":
        a, b = sorted(distinct(draw, 2, rng))
        sa, sb = abs(draw()) + 0.05, abs(draw()) + 0.05
        out += [[a, sa, b, sb], [b, sa, a, -sb], [a, sa, a, sb]]
    elif cls == "Sigmoid":
        sl = rng.choice([0.1, 1.0, 5.0, 20.0, abs(draw()) + 0.05])
        out += [[draw(), sl], [draw(), -sl]]
    elif cls in ("SigmoidDifference", "SigmoidProduct"):
        a, b = sorted(distinct(draw, 2, rng))
        r, f = abs(draw()) + 0.1, abs(draw()) + 0.1
        out += [[a, r, f, b], [a, r, -f, b], [b, -r, f, a], [a, -r, -f, b]]
    elif cls == "Discrete":
        for n in (1, 2, 3, rng.randint(4, 7)):
            xs = sorted(distinct(draw, n, rng))
            ys = [rng.choice([0.0, 1.0, 0.5, round(rng.random(), 2), rng.random()]) for _ in xs]
            out.append([v for pair in zip(xs, ys) for v in pair])
    elif cls == "Constant":
        out += [[draw()], [rng.choice([NAN, INF, -INF, 0.0])]]
    return out


def heights(rng):
    return [1.0, 0.5, 0.3, rng.choice([rng.random() or 1.0, rng.randint(1, 100) / 100])]


def xpoints(cls, p, rng, n_random):
    bps = breakpoints(cls, p) or [0.0]
    xs = []
    for b in bps:
        xs += [(b, "breakpoint"), (float(np.nextafter(b, -INF)), "neighbour"), (float(np.nextafter(b, INF)), "neighbour")]
    for a, b in zip(bps, bps[1:]):
        xs.append((0.5 * (a + b), "midpoint"))
    lo, hi = bps[0], bps[-1]
    span = (hi - lo) or 1.0
    for _ in range(n_random):
        xs.append((rng.uniform(lo, hi) if hi > lo else lo + rng.uniform(-1, 1), "interior"))
        xs.append((rng.choice([lo - rng.random() * 2 * span, hi + rng.random() * 2 * span]), "exterior"))
    xs += [(INF, "inf"), (-INF, "inf"), (NAN, "nan")]
    return xs


def command(cls, p, h, x):
    if cls == "Discrete":
        return C.sx(["discrete", list(p), h, x])
    if cls == "Constant":
        return C.sx(["term", cls, list(p), 1.0, x])
    return C.sx(["term", cls, list(p), h, x])


def corpus_cases():
    out = []
    for f in sorted(glob.glob(os.path.join(C.VERIF, "corpus", PID, "*.json"))):
        try:
            d = json.load(open(f))
            out.append((d["case"] if "case" in d else d, os.path.basename(f)))
        except Exception:  # noqa: BLE001
            continue
    return out


def stream(ctx):
    """(cls, params, height, [(x, kind)…], pool) for every generated configuration"""
    rng = ctx.rng
    P = pools(rng)
    rounds = ctx.scale(6, 40)
    for cls in CLASSES:
        for pool in ("nice", "dyadic", "random"):
            for _ in range(rounds):
                for p in configs(cls, P[pool], rng):
                    if not valid(cls, p):
                        continue
                    hs = heights(rng)
                    if cls == "Constant":
                        hs = [1.0]
                    elif pool != "nice":       # all four heights on the decimal pool, two on the others
                        hs = [hs[0], hs[3]]
                    for h in hs:
                        yield cls, p, h, xpoints(cls, p, rng, ctx.scale(2, 4)), pool
    # hot spots: classes whose code derives a threshold or a centre from the parameters by float arithmetic
    # (s+(e-s), s+r, 0.5*(s+e), c±w/2) on the decimal pool - this is where rounding-only defects (F1, F2) live
    for cls in ("Arc", "SemiEllipse", "Cosine", "SShape", "ZShape", "PiShape", "Ramp", "Concave"):
        for _ in range(ctx.scale(30, 300)):
            for p in configs(cls, P["nice"], rng):
                if valid(cls, p):
                    h = rng.choice([1.0, rng.randint(1, 100) / 100])
                    xs = [(x, k) for x, k in xpoints(cls, p, rng, 0) if k in ("breakpoint", "neighbour")]
                    yield cls, p, h, xs, "nice-hot"


def discrete_pairs(rng, n, shape, grid):
    """n (x, y) pairs in non-decreasing order of x.  A Discrete term is a polyline: a vertical edge is written as two (or
    more) consecutive pairs with the same x - a step function, a sawtooth, a rectangle given by its corners"""
    x = grid(rng.randint(-40, 40))
    gap = lambda: grid(rng.choice([1, 1, 2, 3, 5]))            # noqa: E731
    lvl = lambda: rng.choice([0.0, 1.0, 0.5, 0.25, 0.75, rng.randint(0, 16) / 16, round(rng.random(), 2)])  # noqa: E731
    xs, ys = [x], [lvl()]
    while len(xs) < n:
        k = len(xs)
        if shape == "staircase":               # (x0,y0) (x1,y0) (x1,y1) (x2,y1) ...: flat, jump, flat, jump
            if k % 2:
                x += gap()
                xs.append(x), ys.append(ys[-1])
            else:
                xs.append(x), ys.append(rng.choice([v for v in (lvl(), lvl(), 1.0, 0.0) if v != ys[-1]]))
        elif shape == "sawtooth":              # rise along a segment, drop along a vertical edge
            if k % 2:
                x += gap()
                xs.append(x), ys.append(rng.choice([1.0, 0.75, lvl() or 0.5]))
            else:
                xs.append(x), ys.append(rng.choice([0.0, 0.0, 0.25]))
        elif shape == "random-walk":           # any mixture: runs of two, three or four pairs on one abscissa
            if rng.random() < 0.55:
                x += gap()
            xs.append(x), ys.append(lvl())
        else:                                  # "increasing": no vertical edge
            x += gap()
            xs.append(x), ys.append(lvl())
    return [float(v) for pair in zip(xs, ys) for v in pair]


def long_discrete(ctx):
    """Discrete terms of every size - the handful of pairs of the main stream up to a few hundred - with and without vertical
    edges, in the format of `stream`.  The definition (linear interpolation between the two pairs that enclose x) does not
    depend on how many pairs there are, and a library may well treat long arrays differently from short ones (sorting,
    searching and interpolation routines switch algorithms with the size).  Each term is evaluated at some of its edges,
    at their two floating-point neighbours, strictly inside the segments on both sides of an edge, outside, at +-inf and NaN."""
    rng = ctx.rng
    sizes = [2, 3, 4, 5, 7, 12, 16, 17, 31, 32, 33, 63, 64, 65, 66, 67, 100, 128, 129, 200, 256, 257,
             rng.randint(68, 400), rng.randint(68, 400)]
    if ctx.thorough:
        sizes += [rng.randint(8, 600) for _ in range(40)]
    npts = ctx.scale(6, 12)
    for i, n in enumerate(sizes):
        for shape in ("staircase", "sawtooth", "random-walk", "increasing"):
            if n > 16 and (i + len(shape)) % 2 and not ctx.thorough:
                continue                       # in the quick tier every other (size, shape) of the long ones
            pool, grid = rng.choice([("dyadic", lambda k: k / 16), ("nice", lambda k: k / 100), ("dyadic", lambda k: k / 4)])
            p = discrete_pairs(rng, n, shape, grid)
            h = rng.choice([1.0, 1.0, 0.5, rng.randint(1, 100) / 100])
            ab = sorted(set(p[0::2]))
            edges = sorted({a for a, b in zip(p[0::2], p[2::2]) if a == b}) or ab
            xs = []
            few = npts if n <= 33 else max(2, npts // 2)          # the long terms cost the exact model more per point
            for a in rng.sample(edges, min(few, len(edges))) + ([ab[0], ab[-1]] if n <= 33 else [ab[-1]]):
                j = ab.index(a)
                xs += [(a, "breakpoint"), (float(np.nextafter(a, -INF)), "neighbour"), (float(np.nextafter(a, INF)), "neighbour")]
                if j > 0:
                    xs += [(0.5 * (ab[j - 1] + a), "midpoint"), (ab[j - 1] + rng.random() * (a - ab[j - 1]), "interior")]
                if j + 1 < len(ab):
                    xs += [(0.5 * (a + ab[j + 1]), "midpoint"), (a + rng.random() * (ab[j + 1] - a), "interior")]
            xs += [(ab[0] - 1.5, "exterior"), (ab[-1] + 2.5, "exterior"), (INF, "inf"), (-INF, "inf"), (NAN, "nan")]
            yield "Discrete", p, h, xs, f"{pool}-{shape}"


def correspond(ctx):
    st = ctx.stats
    mism = []
    # ---- corpus first
    for case, name in corpus_cases():
        ok, detail = oracle(case)
        st.count("corpus")
        if not ok:
            mism.append({"case": case, "violation": True, "detail": detail, "what": f"corpus case {name}: {detail}"})
    judge(ctx, list(stream(ctx)), mism)
    # ---- vertical edges of S / Z / Pi shapes; parameters re-assigned in place on an already evaluated object
    for cls, p, h in degenerate_cases(ctx):
        ok, x, d = check_degenerate(cls, p, h)
        st.count("degenerate")
        if not ok:
            mism.append({"case": {"cls": cls, "params": p, "height": h, "x": x, "degenerate": True}, "violation": True,
                         "detail": d, "what": d})
    for cls, p1, p2, h in reparam_cases(ctx):
        ok, x, d = check_reparam(cls, p1, p2, h, lambda c, q: xpoints(c, q, ctx.rng, 2))
        st.count("reparam")
        if not ok:
            mism.append({"case": {"cls": cls, "params": p2, "height": h, "x": x, "built_with": p1}, "violation": True,
                         "detail": d, "what": d})
    # ---- drawn after every earlier stream: Discrete terms of every size, with vertical edges
    judge(ctx, list(long_discrete(ctx)), mism)
    # ---- the registered shape classes are the ones the model covers
    fm = fl.settings.factory_manager
    reg = sorted(k for k in fm.term.constructors if k)
    ctx.notes["registered_terms"] = reg
    return mism


def judge(ctx, cfgs, mism):
    """every point of every configuration: implementation against the regenerated model and the documented closed form;
    per configuration: arrays and monotonicity"""
    st = ctx.stats
    lines, index = [], []
    for ci, (cls, p, h, xs, pool) in enumerate(cfgs):
        # the text of a long list of pairs is written once per configuration
        head = "(discrete " + C.sx(list(p)) + " " + C.sx(h) + " " if cls == "Discrete" and len(p) > 40 else None
        for x, kind in xs:
            lines.append(head + C.sx(x) + ")" if head else command(cls, p, h, x))
            index.append((ci, x, kind))
    outs = ctx.driver.eval(lines)
    terms = {}
    per_cfg = {}
    for (ci, x, kind), o in zip(index, outs):
        cls, p, h, _, pool = cfgs[ci]
        case = {"cls": cls, "params": p, "height": h, "x": x}
        st.count(kind)
        st.count("class:" + cls)
        st.count("pool:" + pool)
        if o in ("bad-op", "bad-parse"):
            mism.append({"case": case, "model": o, "what": f"{cls}: the regenerated model does not know this class / arity"})
            continue
        term = terms.get(ci)
        if term is None:
            term = terms[ci] = make(cls, p, h)
        v = impl(term, x)
        m = C.parse_x(o)
        per_cfg.setdefault(ci, []).append((x, v))
        nt = isinstance(m, Fr) and (kind == "breakpoint" or (m != 0 and abs(m - Fr(h)) > Fr(1, 10 ** 9)))
        st.case((cls, tuple(p), h, repr(x)), nt,
                sample={"cls": cls, "params": p, "height": h, "x": x, "impl": v, "model": str(o)[:50]}
                if kind == "interior" and len(st.samples) < 6 and st.dist.get("class:" + cls, 0) < 40 else None)
        st.validated += 1
        if not C.close(v, m, squares=cls in SQUARES):
            ok, detail = check_point(cls, p, h, x, term, v)
            e = {"case": case, "impl": v, "model": o[:80],
                 "what": f"{cls}{tuple(p)} height {h}: membership({x!r}) = {v!r}, regenerated model {o[:40]}"}
            if not ok:
                e.update({"violation": True, "detail": detail})
            mism.append(e)
        else:
            ok, detail = check_point(cls, p, h, x, term, v)
            st.count("oracle-point")
            if not ok:
                mism.append({"case": case, "impl": v, "violation": True, "detail": detail, "what": detail})
        if len(mism) > 40:
            break
    # ---- per configuration: arrays and monotonicity on the implementation
    for ci, pts in per_cfg.items():
        if len(mism) > 40:
            break
        cls, p, h, xs, pool = cfgs[ci]
        term = terms[ci]
        allx = [x for x, _ in xs]
        ok, detail = check_arrays(cls, p, h, allx, term)
        st.count("oracle-arrays")
        if not ok:
            mism.append({"case": {"cls": cls, "params": p, "height": h, "x": allx[0]}, "violation": True, "detail": detail,
                         "what": detail})
        if cls not in ("Constant", "Discrete"):
            ok, detail = check_monotone(cls, p, h, allx, term)
            st.count("oracle-monotone")
            if not ok:
                bad = next((x for x, v in pts if not check_point(cls, p, h, x, term, v)[0]), allx[0])
                mism.append({"case": {"cls": cls, "params": p, "height": h, "x": bad}, "violation": True, "detail": detail,
                             "what": detail})


def param_names(cls):
    import inspect
    return [q for q in inspect.signature(getattr(fl, cls).__init__).parameters if q not in ("self", "name", "height")]


def reparam_cases(ctx):
    """a term object is evaluated, its parameters are assigned new values in place, and it is evaluated again: the second
    evaluation must follow the NEW parameters (nothing derived from the old ones may be kept)"""
    rng = ctx.rng
    P = pools(rng)
    for cls in CLASSES:
        if cls in ("Discrete", "Constant"):
            continue
        got = 0
        for _ in range(40):
            cfg = [c for c in configs(cls, P[rng.choice(["nice", "dyadic"])], rng) if valid(cls, c)]
            if len(cfg) < 2:
                continue
            p1, p2 = cfg[0], cfg[-1]
            if p1 == p2:
                continue
            yield cls, p1, p2, rng.choice([1.0, 0.5])
            got += 1
            if got >= ctx.scale(3, 12):
                break


def check_reparam(cls, p1, p2, h, rng_x):
    term = make(cls, p1, h)
    xs1 = [x for x, _ in rng_x(cls, p1)]
    for x in xs1[:6]:
        impl(term, x)
    impl_array(term, xs1[:6])
    for name, v in zip(param_names(cls), p2):
        setattr(term, name, float(v))
    for x, _ in rng_x(cls, p2):
        ok, d = check_point(cls, p2, h, x, term)
        if not ok:
            return False, x, f"after assigning new parameters {p2} to a {cls} built with {p1} and already evaluated: {d}"
    return True, None, "ok"


def degenerate_cases(ctx):
    """vertical edges of the S / Z / Pi shapes (start == end): the first matching case of the documented definition"""
    for s0 in (0.0, 0.25, -1.5, 2.0):
        for h in (1.0, 0.5):
            yield "SShape", [s0, s0], h
            yield "ZShape", [s0, s0], h
            yield "PiShape", [s0, s0, s0 + 1.0, s0 + 2.0], h
            yield "PiShape", [s0 - 2.0, s0 - 1.0, s0, s0], h


def doc_degenerate(cls, p, h, x):
    if x != x:
        return NAN
    if cls == "SShape":
        return 0.0 if x <= p[0] else h
    if cls == "ZShape":
        return h if x <= p[0] else 0.0
    a, b, c, d = p
    left = (0.0 if x <= a else 1.0) if a == b else float(doc("SShape", [a, b], 1.0, x))
    right = (1.0 if x <= c else 0.0) if c == d else float(doc("ZShape", [c, d], 1.0, x))
    return h * left * right


def check_degenerate(cls, p, h):
    term = make(cls, p, h)
    pts = sorted(set(p))
    xs = []
    for q in pts:
        xs += [float(np.nextafter(q, -INF)), q, float(np.nextafter(q, INF))]
    xs += [pts[0] - 1.0, pts[-1] + 1.0, INF, -INF]
    for x in xs:
        v = impl(term, x)
        want = doc_degenerate(cls, p, h, x)
        if not ((v != v and want != want) or abs(v - want) <= 1e-9):
            return False, x, f"{cls}{tuple(p)} height {h} (vertical edge): membership({x}) = {v!r}, the documented definition gives {want!r}"
    return True, None, "ok"


def search(ctx):
    for cls, p, h in degenerate_cases(ctx):
        ok, x, d = check_degenerate(cls, p, h)
        if not ok:
            return [({"cls": cls, "params": p, "height": h, "x": x, "degenerate": True}, d)]
    for cls, p1, p2, h in reparam_cases(ctx):
        ok, x, d = check_reparam(cls, p1, p2, h, lambda c, q: xpoints(c, q, ctx.rng, 2))
        if not ok:
            return [({"cls": cls, "params": p2, "height": h, "x": x, "built_with": p1}, d)]
    for cls, p, h, xs, pool in itertools.chain(stream(ctx), long_discrete(ctx)):
        term = make(cls, p, h)
        for x, _ in xs:
            ok, d = check_point(cls, p, h, x, term)
            if not ok:
                return [({"cls": cls, "params": p, "height": h, "x": x}, d)]
        ok, d = check_monotone(cls, p, h, [x for x, _ in xs], term) if cls not in ("Constant", "Discrete") else (True, "")
        if not ok:
            return [({"cls": cls, "params": p, "height": h, "x": xs[0][0]}, d)]
        ok, d = check_arrays(cls, p, h, [x for x, _ in xs][:6], term)
        if not ok:
            return [({"cls": cls, "params": p, "height": h, "x": xs[0][0]}, d)]
    return []
