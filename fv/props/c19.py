"""C19 — An engine reported ready can be processed (DESIGN.md section 8, C19)."""
from __future__ import annotations

import glob
import itertools
import json
import os
import re

import numpy as np

import common as C
import fuzzylite as fl

PID = "C19"
MODULES = ["FlVerif.Props.C19"]
NAMESPACE = "C19"
TIE_A = ["code:fuzzylite.engine.Engine.is_ready"]
RULE = ("engines with 2 inputs, 1-2 outputs (integral or weighted defuzzifier, with/without defuzzifier, aggregation, terms), "
        "1-2 rule blocks with every subset of {conjunction, disjunction, implication, activation} removed, rule sets drawn from "
        "{plain, and, or, and+or, two conclusions, unloaded, disabled, tab/parenthesis-separated operators}; single block x single "
        "output is enumerated exhaustively, two blocks / two outputs sampled; finite input rows.  Rule texts handed to Rule.parse / "
        "Rule.create / `rule.text =` in varied white-space layouts (tabs, runs of blanks, line breaks before / after a "
        "connective, margins, trailing comment): enumerated styles x missing-operator subsets, and random layouts.  "
        "non-trivial: the model reports "
        "at least one readiness error or a processing error; distinct = distinct abstract configuration")
ASSUMPTIONS = ["operators are detected in the text by the substring tests of the code (' and ', ' or '); antecedent texts ASSIGNED "
               "DIRECTLY to rule.antecedent.text whose operators are separated by tabs or parentheses fall outside the hypothesis "
               "'whitespace-separated tokens' and are only compared with the model, never judged by the soundness oracle; a rule "
               "given as a rule text (Rule.parse / Rule.create / rule.text) is inside the hypothesis in every white-space layout, "
               "and the oracle reads its connectives from the text as written",
               "outputs keep lock-previous off and no default value (F10 is outside this property)"]
LEVEL_TEXT = ("Lean theorems over engines with any number of outputs, rule blocks and rules: ready_sound (no readiness error + "
              "activation methods + operators visible in the text => process() raises none of its missing-operator errors), "
              "ready_complete / ready_complete_tree (every missing conjunction, disjunction, implication, aggregation, "
              "defuzzifier that a rule or output needs is in the error list), pinned_unsound (decided witness: the nesting of the "
              "pinned code reports an or-rule without disjunction ready), pinned_subset.  Correspondence: the model's error list "
              "and first processing error against Engine.is_ready / Engine.process on generated engines (every subset of "
              "operators removed).")
LEVEL_NOTE = ("Trusted: Lean kernel, standard axioms, the hand-written abstraction engine -> configuration (computed from the live "
              "objects by the harness).  Carried by the correspondence only: exception classes of process(), the substring tests "
              "agree with the tokens for single-blank texts, numeric processing of ready engines does not raise.")
TECHNIQUE = "Lean 4 proof over an abstract configuration model + differential run of is_ready / process against the Lean driver"

INTEGRAL = ["Centroid", "Bisector", "MeanOfMaximum", "SmallestOfMaximum", "LargestOfMaximum"]
WEIGHTED = ["WeightedAverage", "WeightedSum"]
ACTIVATIONS = ["General", "First", "Last", "Highest", "Lowest", "Proportional", "Threshold"]

# rule templates: (name, text, antecedent override or None)
TEMPLATES = {
    "plain": ("if a is lo then {o0} is t1", None),
    "and": ("if a is lo and b is hi then {o0} is t1", None),
    "or": ("if a is hi or b is lo then {o0} is t2", None),
    "andor": ("if a is lo and b is hi or a is hi then {o0} is t1", None),
    "two": ("if a is hi or b is hi then {o0} is t1 and {o1} is t2", None),
    "other": ("if a is lo and b is lo then {o1} is t2", None),
    "tab-and": ("if a is lo then {o0} is t1", "a is lo and\tb is hi"),
    "paren-or": ("if a is lo then {o0} is t1", "(a is lo)or(b is hi)"),
    # the connective that needs the missing operator sits in the RIGHT operand of the other connective
    "orand": ("if a is hi or b is lo and a is lo then {o0} is t1", None),
    "or-paren-and": ("if a is hi or ( b is lo and a is lo ) then {o0} is t1", None),
    "and-paren-or": ("if a is lo and ( b is hi or a is hi ) then {o0} is t2", None),
    # an output variable read in an antecedent after an earlier rule has activated one of its terms
    "chain": ("if {o0} is t1 then {o1} is t2", None),
    "chain-and": ("if {o0} is t1 and a is lo then {o1} is t2", None),
    # a consequent that fails to load after a first conclusion was read: the rule must stay unloaded (and is then skipped)
    "bad-concl": ("if a is lo then {o0} is t1 and {o0} is zz", None),
    "bad-concl-2": ("if a is lo or b is hi then {o0} is t2 and {o1}", None),
}


# ------------------------------------------------------------------------------------------ engines from cases

def build(case):
    """case (JSON) -> live engine; deterministic"""
    ins = []
    for name in ["a", "b"][: case["inputs"]]:
        ins.append(fl.InputVariable(name, minimum=0.0, maximum=1.0,
                                    terms=[fl.Triangle("lo", -1.0, 0.0, 1.0), fl.Triangle("hi", 0.0, 1.0, 2.0)]))
    outs = []
    for o in case["outputs"]:
        kind = o["defuzzifier"]
        if kind in INTEGRAL:
            d = getattr(fl, kind)(20)
            terms = [fl.Triangle("t1", 0.0, 0.25, 0.5), fl.Triangle("t2", 0.5, 0.75, 1.0)]
        elif kind in WEIGHTED:
            d = getattr(fl, kind)()
            terms = [fl.Constant("t1", 0.25), fl.Constant("t2", 0.75)]
        else:
            d = None
            terms = ([fl.Triangle("t1", 0.0, 0.25, 0.5), fl.Triangle("t2", 0.5, 0.75, 1.0)] if o.get("shape", "tri") == "tri"
                     else [fl.Constant("t1", 0.25), fl.Constant("t2", 0.75)])
        outs.append(fl.OutputVariable(o["name"], minimum=0.0, maximum=1.0, enabled=o.get("enabled", True),
                                      defuzzifier=d, aggregation=fl.Maximum() if o["aggregation"] else None,
                                      terms=terms if o.get("terms", True) else []))
    e = fl.Engine("e", input_variables=ins, output_variables=outs)
    names = [o["name"] for o in case["outputs"]] or ["o1"]
    for b in case["blocks"]:
        act = None
        if b["activation"]:
            a = b["activation"]
            act = {"General": fl.General, "First": lambda: fl.First(2, 0.0), "Last": lambda: fl.Last(2, 0.0),
                   "Highest": lambda: fl.Highest(2), "Lowest": lambda: fl.Lowest(2), "Proportional": fl.Proportional,
                   "Threshold": lambda: fl.Threshold(">=", 0.0)}[a]()
        rb = fl.RuleBlock(b.get("name", ""), enabled=b.get("enabled", True),
                          conjunction=fl.Minimum() if b["conjunction"] else None,
                          disjunction=fl.Maximum() if b["disjunction"] else None,
                          implication=fl.Minimum() if b["implication"] else None, activation=act)
        for r in b["rules"]:
            text, ante = TEMPLATES[r["template"]]
            text = text.format(o0=names[r.get("o0", 0) % len(names)], o1=names[r.get("o1", 1) % len(names)])
            if r.get("layout") and not ante:
                text = lay_out(text, r["layout"])
            via = r.get("layout", {}).get("via", "parse")
            if via == "create":
                rule = fl.Rule.create(text)
            else:
                rule = fl.Rule()
                if via == "text":
                    rule.text = text
                else:
                    rule.parse(text)
            if ante:
                rule.antecedent.text = ante
            rule.enabled = r.get("enabled", True)
            if r.get("loaded", True):
                try:
                    rule.load(e)
                except Exception:  # noqa: BLE001  (e.g. no such output variable / term: the rule is left as the failed load left it)
                    pass
            rb.rules.append(rule)
        e.rule_blocks.append(rb)
    return e


def lay_out(text, layout):
    """the rule text as the user wrote it: the same tokens, separated by the white space of the layout (blanks, runs of
    blanks, tabs, line breaks), with leading / trailing white space and an optional trailing comment"""
    toks = text.split()
    seps = layout["seps"]
    out = layout.get("lead", "") + toks[0]
    for i, t in enumerate(toks[1:]):
        out += seps[i % len(seps)] + t
    return out + layout.get("trail", "") + layout.get("comment", "")


def written_ops(case):
    """per block, per rule: the connectives among the white-space separated tokens of the antecedent AS WRITTEN in the rule
    text handed to Rule.parse / Rule.create / `rule.text = ...` (the hypothesis of the property speaks about how the rules
    are written), or None for the templates whose antecedent text is assigned directly to `rule.antecedent.text`"""
    names = [o["name"] for o in case["outputs"]] or ["o1"]
    out = []
    for b in case["blocks"]:
        rs = []
        for r in b["rules"]:
            text, ante = TEMPLATES[r["template"]]
            if ante:
                rs.append(None)
                continue
            text = text.format(o0=names[r.get("o0", 0) % len(names)], o1=names[r.get("o1", 1) % len(names)])
            if r.get("layout"):
                text = lay_out(text, r["layout"])
            toks = text.split("#")[0].split()
            toks = toks[1:toks.index("then")] if "then" in toks else toks[1:]
            rs.append({t for t in toks if t in ("and", "or")})
        out.append(rs)
    return out


def tree_ops(node, acc):
    if isinstance(node, fl.rule.Operator):
        acc.add(node.name)
        tree_ops(node.left, acc)
        tree_ops(node.right, acc)
    return acc


def abstract(e):
    """live engine -> the configuration the Lean model speaks about"""
    outs = []
    for o in e.output_variables:
        d = o.defuzzifier
        kind = "none" if d is None else "integral" if isinstance(d, fl.IntegralDefuzzifier) else "weighted"
        outs.append([int(o.enabled), int(bool(o.terms)), kind, int(o.aggregation is not None)])
    blocks = []
    for b in e.rule_blocks:
        rules = []
        for r in b.rules:
            ops = tree_ops(r.antecedent.expression, set()) if r.antecedent.expression else set()
            concls = []
            if r.is_loaded():
                for c in r.consequent.conclusions:
                    idx = [i for i, o in enumerate(e.output_variables) if o is c.variable]
                    if idx:
                        concls.append(idx[0])
            rules.append([int(r.is_loaded()), int(r.enabled), int(" and " in r.antecedent.text), int(" or " in r.antecedent.text),
                          int("and" in ops), int("or" in ops), concls])
        blocks.append([int(b.enabled), int(b.conjunction is not None), int(b.disjunction is not None),
                       int(b.implication is not None), int(b.activation is not None), rules])
    return [len(e.input_variables), outs, blocks]


ERR_PATTERNS = [
    (r"Engine '.*' does not have any input variables", "noInputs", None),
    (r"Engine '.*' does not have any output variables", "noOutputs", None),
    (r"Engine '.*' does not have any rule blocks", "noBlocks", None),
    (r"Output variable '(.*)' does not have any terms", "noTerms", "out"),
    (r"Output variable '(.*)' does not have any defuzzifier", "noDefuzzifier", "out"),
    (r"Output variable '(.*)' does not have any aggregation operator", "noAggregation", "out"),
    (r"Rule block (.*) does not have any rules", "noRules", "block"),
    (r"Rule block (.*) does not have any conjunction operator", "noConjunction", "block"),
    (r"Rule block (.*) does not have any disjunction operator", "noDisjunction", "block"),
    (r"Rule block (.*) does not have any implication operator", "noImplication", "block"),
]


def parse_errors(e, errors):
    out = []
    for msg in errors:
        for pat, kind, comp in ERR_PATTERNS:
            m = re.match(pat, msg)
            if not m:
                continue
            if comp is None:
                out.append(kind)
            elif comp == "out":
                idx = [i for i, o in enumerate(e.output_variables) if o.name == m.group(1)]
                out.append(f"{kind}:{idx[0] if idx else '?'}")
            else:
                ref = m.group(1).split(" ")[0]
                if ref.startswith("["):
                    idx = [int(ref.strip("[]"))]
                else:
                    idx = [i for i, b in enumerate(e.rule_blocks) if f"'{b.name}'" == ref]
                out.append(f"{kind}:{idx[0] if idx else '?'}")
            break
        else:
            out.append("unparsed:" + msg[:60])
    return out


PROC_KINDS = [("expected an activation method", "activation"), ("expected a conjunction operator", "conjunction"),
              ("expected a disjunction operator", "disjunction"), ("expected a defuzzifier", "defuzzifier"),
              ("expected an aggregation operator", "aggregation"), ("expected an implication operator", "implication")]


def observe(case):
    e = build(case)
    errors = []
    with np.errstate(all="ignore"):
        ready = bool(e.is_ready(errors))
        for v, x in zip(e.input_variables, case["values"]):
            v.value = x
        raised = None
        try:
            e.process()
        except Exception as ex:  # noqa: BLE001
            kind = next((k for pat, k in PROC_KINDS if pat in str(ex)), "other")
            raised = [type(ex).__name__, kind, str(ex)[:120]]
    return e, ready, parse_errors(e, errors), raised


def spaced(cfg):
    return all((not r[0]) or ((not r[4] or r[2]) and (not r[5] or r[3])) for b in cfg[2] for r in b[5])


def as_written(case, cfg):
    """the configuration with the flags `the text shows an and / an or` taken from the rule text as written (white-space
    separated tokens, whatever the white space) for every rule that was given as a rule text; rules whose antecedent text
    was assigned directly keep the flags of the stored text.  On a library that stores the tokens re-joined with single
    blanks both readings coincide."""
    ops = written_ops(case)
    blocks = []
    for b, wb in zip(cfg[2], ops):
        rules = [r if w is None else r[:2] + [int("and" in w), int("or" in w)] + r[4:] for r, w in zip(b[5], wb)]
        blocks.append(b[:5] + [rules])
    return [cfg[0], cfg[1], blocks]


def oracle(case):
    """the property on the implementation: soundness and completeness, judged from the live objects"""
    e, ready, errs, raised = observe(case)
    cfg = as_written(case, abstract(e))
    has_act = all(b[4] for b in cfg[2])
    if ready != (not errs):
        return False, f"is_ready returned {ready} with errors {errs}"
    if ready and has_act and spaced(cfg) and raised:
        return False, (f"is_ready() reported the engine ready (no errors), every rule block has an activation method and the "
                       f"rules are written with white-space separated tokens, but process() raised {raised[0]}: {raised[2]}")
    # completeness: what the loaded rules / outputs need (operators as the property's hypothesis lets the check see them:
    # blank-separated; tab / parenthesis separated operators are outside the hypothesis and only compared with the model)
    for bi, b in enumerate(cfg[2]):
        for r in b[5]:
            if r[0] and r[2] and not b[1] and f"noConjunction:{bi}" not in errs:
                return False, f"a loaded rule of block {bi} uses 'and', the block has no conjunction operator, not reported: {errs}"
            if r[0] and r[3] and not b[2] and f"noDisjunction:{bi}" not in errs:
                return False, f"a loaded rule of block {bi} uses 'or', the block has no disjunction operator, not reported: {errs}"
            if r[0] and not b[3] and any(cfg[1][o][2] == "integral" for o in r[6]) and f"noImplication:{bi}" not in errs:
                return False, f"a loaded rule of block {bi} concludes on an integral output, no implication operator, not reported: {errs}"
    for oi, o in enumerate(cfg[1]):
        if o[2] == "none" and f"noDefuzzifier:{oi}" not in errs:
            return False, f"output {oi} has no defuzzifier, not reported: {errs}"
        if o[2] == "integral" and not o[3] and f"noAggregation:{oi}" not in errs:
            return False, f"output {oi} has an integral defuzzifier and no aggregation operator, not reported: {errs}"
    return True, "ok"


def key(case):
    sig = []
    for b in case["blocks"]:
        ops = "".join(k[0] for k in ("conjunction", "disjunction", "implication") if not b[k]) or "-"
        lay = "layout" if any(r.get("layout") for r in b["rules"]) else ""
        sig.append(f"missing[{ops}]rules[{','.join(sorted({r['template'] for r in b['rules']}))}]{lay}")
    return ";".join(sig)


# ------------------------------------------------------------------------------------------ generation

RULESETS = [["plain"], ["and"], ["or"], ["andor"], ["plain", "or"], ["and", "or"], ["two"], ["and", "two"], ["other", "plain"],
            ["tab-and"], ["paren-or"], ["plain", "paren-or"], [], ["orand"], ["or-paren-and"], ["and-paren-or"], ["plain", "orand"],
            ["plain", "chain"], ["plain", "chain-and"], ["or", "chain"], ["bad-concl"], ["plain", "bad-concl"], ["bad-concl-2", "and"]]


def mk_rules(names, rng=None, flags=False):
    rules = []
    for t in names:
        r = {"template": t}
        if flags and rng is not None:
            if rng.random() < 0.15:
                r["loaded"] = False
            if rng.random() < 0.15:
                r["enabled"] = False
            r["o0"], r["o1"] = rng.randrange(2), rng.randrange(2)
        rules.append(r)
    return rules


def exhaustive_cases():
    """one block x one output: every subset of the six removable components x rule sets x defuzzifier family"""
    for kind in ("Centroid", "WeightedAverage"):
        for conj, disj, impl, act, aggr, dfz in itertools.product([1, 0], repeat=6):
            for rs in RULESETS:
                yield {"inputs": 2,
                       "outputs": [{"name": "o1", "defuzzifier": kind if dfz else None, "aggregation": bool(aggr),
                                    "shape": "tri" if kind == "Centroid" else "const"}],
                       "blocks": [{"name": "rb", "conjunction": bool(conj), "disjunction": bool(disj), "implication": bool(impl),
                                   "activation": "General" if act else None, "rules": mk_rules(rs)}],
                       "values": [0.25, 0.625]}


def activation_cases():
    """every activation method x every subset of {conjunction, disjunction} removed x the rule sets that use a connective:
    the operators the rules are evaluated with are the block's own, whatever the activation method"""
    for act in ACTIVATIONS:
        for conj, disj in itertools.product([1, 0], repeat=2):
            for rs in (["and"], ["or"], ["andor"], ["orand"], ["and", "or"], ["plain", "or"]):
                yield {"inputs": 2,
                       "outputs": [{"name": "o1", "defuzzifier": "Centroid", "aggregation": True, "shape": "tri"}],
                       "blocks": [{"name": "rb", "conjunction": bool(conj), "disjunction": bool(disj), "implication": True,
                                   "activation": act, "rules": mk_rules(rs)}],
                       "values": [0.25, 0.625]}


def random_case(rng, general=True):
    nout = rng.choice([1, 2, 2])
    outs = []
    for i in range(nout):
        kind = rng.choice(INTEGRAL + WEIGHTED)
        outs.append({"name": f"o{i + 1}", "defuzzifier": kind if rng.random() < 0.8 else None, "aggregation": rng.random() < 0.7,
                     "shape": "tri" if kind in INTEGRAL else "const", "terms": rng.random() < 0.95,
                     "enabled": rng.random() < 0.9})
    blocks = []
    for i in range(rng.choice([1, 2, 2, 0] if rng.random() < 0.1 else [1, 2, 2])):
        blocks.append({"name": rng.choice(["", f"rb{i}"]), "enabled": rng.random() < 0.9,
                       "conjunction": rng.random() < 0.6, "disjunction": rng.random() < 0.6, "implication": rng.random() < 0.6,
                       "activation": (("General" if general else rng.choice(ACTIVATIONS)) if rng.random() < 0.85 else None),
                       "rules": mk_rules(rng.choice(RULESETS), rng, flags=True)})
    return {"inputs": 2 if rng.random() < 0.95 else 0, "outputs": outs if rng.random() < 0.97 else [], "blocks": blocks,
            "values": [round(rng.random(), 3), round(rng.random(), 3)]}


# ---- layouts of the rule text: the property holds `whatever the white space between the tokens`
SEPS = [" ", "  ", "\t", "\n", "\n        ", "\t\t", "     ", "\r\n", " \t "]
STYLES = ["tabs", "double", "wrap-after", "wrap-before", "tab-after", "tab-before", "margins", "comment"]


def styled_layout(text, style):
    """a layout in which only the neighbourhood of the connectives / keywords is special (a long rule wrapped after or
    before its connective, a tab next to it), or every gap is (tabs, double blanks), or only the margins are"""
    toks = text.split()
    gaps = len(toks) - 1
    if style == "tabs":
        return {"seps": ["\t"] * gaps}
    if style == "double":
        return {"seps": ["  "] * gaps}
    if style == "margins":
        return {"seps": [" "] * gaps, "lead": "  \t", "trail": "  \n"}
    if style == "comment":
        return {"seps": [" "] * gaps, "comment": " # applies when a and b or none"}
    seps = []
    for i in range(gaps):
        after, before = toks[i] in ("and", "or", "then"), toks[i + 1] in ("and", "or", "then")
        special = "\n        " if style.startswith("wrap") else "\t"
        seps.append(special if (after if style.endswith("after") else before) else " ")
    return {"seps": seps}


def template_text(r, names=("o1", "o2")):
    return TEMPLATES[r["template"]][0].format(o0=names[r.get("o0", 0) % len(names)], o1=names[r.get("o1", 1) % len(names)])


def layout_cases():
    """one block x one output: every subset of {conjunction, disjunction} removed x the rule sets that use a connective x
    every layout style: readiness predicts whether process() raises, whatever the white space of the rule text"""
    for style in STYLES:
        for conj, disj in itertools.product([1, 0], repeat=2):
            for rs in (["and"], ["or"], ["andor"], ["orand"], ["plain", "or"], ["and", "two"]):
                rules = mk_rules(rs)
                for i, r in enumerate(rules):
                    r["layout"] = dict(styled_layout(template_text(r, ["o1"]), style), via=["parse", "text", "create"][i % 3])
                yield {"inputs": 2,
                       "outputs": [{"name": "o1", "defuzzifier": "Centroid", "aggregation": True, "shape": "tri"}],
                       "blocks": [{"name": "rb", "conjunction": bool(conj), "disjunction": bool(disj), "implication": True,
                                   "activation": "General", "rules": rules}],
                       "values": [0.25, 0.625]}


def random_layout_case(rng):
    """a random engine whose rule texts are written with random white space between the tokens"""
    case = random_case(rng, rng.random() < 0.7)
    for b in case["blocks"]:
        for r in b["rules"]:
            if TEMPLATES[r["template"]][1] is None and rng.random() < 0.85:
                gaps = len(TEMPLATES[r["template"]][0].split()) - 1
                if rng.random() < 0.4:
                    lay = styled_layout(TEMPLATES[r["template"]][0], rng.choice(STYLES))
                else:
                    lay = {"seps": [rng.choice(SEPS) for _ in range(gaps)]}
                    if rng.random() < 0.3:
                        lay["lead"] = rng.choice([" ", "\t", "\n  "])
                    if rng.random() < 0.3:
                        lay["trail"] = rng.choice([" ", "\t", "\n"])
                lay["via"] = rng.choice(["parse", "text", "create"])
                r["layout"] = lay
    return case


def corpus_cases():
    d = os.path.join(C.VERIF, "corpus", PID)
    for p in sorted(glob.glob(os.path.join(d, "*.json"))):
        yield json.load(open(p))["case"]


def model_line(cfg):
    return C.sx(["ready", cfg[0], cfg[1], cfg[2]])


def flat(o):
    if isinstance(o, list):
        return ":".join(flat(x) for x in o)
    return str(o)


def correspond(ctx):
    st = ctx.stats
    mism = []
    cases = [(c, "corpus") for c in corpus_cases()]
    cases += [(c, "exhaustive-1x1") for c in exhaustive_cases()]
    cases += [(c, "activation-methods") for c in activation_cases()]
    cases += [(random_case(ctx.rng, True), "random-general") for _ in range(ctx.scale(1500, 60000))]
    cases += [(random_case(ctx.rng, False), "random-any-activation") for _ in range(ctx.scale(500, 20000))]
    # rule texts in varied white-space layouts (enumerated styles, then random ones drawn after the streams above)
    cases += [(c, "layout-styles") for c in layout_cases()]
    cases += [(random_layout_case(ctx.rng), "random-layout") for _ in range(ctx.scale(500, 15000))]
    ctx.notes["exhaustive"] = True
    obs, lines = [], []
    for case, kind in cases:
        e, ready, errs, raised = observe(case)
        cfg = abstract(e)
        obs.append((case, kind, cfg, ready, errs, raised))
        lines.append(model_line(cfg))
    outs = ctx.driver.eval(lines)
    for (case, kind, cfg, ready, errs, raised), o in zip(obs, outs):
        st.count(kind)
        p = C.parse_sx(o)
        if not isinstance(p, list) or len(p) != 3:
            mism.append({"case": case, "model": o, "what": "driver rejected the configuration"})
            continue
        m_errs = sorted(flat(x) for x in p[0])
        m_proc = None if p[2] == "none" else p[2][0]
        st.case(json.dumps(cfg), bool(m_errs) or m_proc is not None,
                sample={"config": cfg, "impl": {"ready": ready, "errors": errs, "raised": raised and raised[:2]},
                        "model": {"errors": m_errs, "process": m_proc}} if kind.startswith("random") else None)
        st.validated += 1
        general = all(b["activation"] in (None, "General") for b in case["blocks"])
        bad = None
        if sorted(errs) != m_errs or ready != (not m_errs):
            bad = f"is_ready: implementation {ready} {sorted(errs)}, model {m_errs}"
        elif general:
            if (raised is None) != (m_proc is None):
                bad = f"process(): implementation raised {raised}, model expects {m_proc}"
            elif raised is not None:
                both = any(r[0] and r[4] and r[5] and not b[1] and not b[2] for b in cfg[2] for r in b[5])
                if raised[0] != "ValueError" or (raised[1] != m_proc and not (both and {raised[1], m_proc} <= {"conjunction", "disjunction"})):
                    bad = f"process(): implementation raised {raised}, model expects ValueError/{m_proc}"
        if bad:
            mism.append({"case": case, "impl": {"ready": ready, "errors": errs, "raised": raised}, "model": o, "what": bad})
        ok, detail = oracle(case)
        st.count("oracle")
        if not ok:
            mism.append({"case": case, "impl": {"ready": ready, "errors": errs, "raised": raised}, "model": o,
                         "violation": True, "detail": detail, "what": detail})
        if len(mism) > 40:
            break
    # violations first, simplest (fewest rules) first
    mism.sort(key=lambda m: (not m.get("violation"), sum(len(b["rules"]) for b in m["case"]["blocks"]), len(m["case"]["blocks"])))
    return mism


def search(ctx):
    for case in itertools.chain(corpus_cases(), exhaustive_cases(), activation_cases(), layout_cases()):
        ok, d = oracle(case)
        if not ok:
            return [(case, d)]
    for _ in range(3000):
        case = random_case(ctx.rng, False)
        ok, d = oracle(case)
        if not ok:
            return [(case, d)]
    for _ in range(1000):
        case = random_layout_case(ctx.rng)
        ok, d = oracle(case)
        if not ok:
            return [(case, d)]
    return []
