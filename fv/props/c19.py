"""C19 — An engine reported ready can be processed (DESIGN.md section 8, C19)."""
from __future__ import annotations

import copy
import glob
import itertools
import json
import os
import re

import numpy as np

import common as C
import fuzzylite as fl

PID = "C19"
MODULES = ["FlVerif.Props.C19"]
NAMESPACE = "C19"
TIE_A = ["code:fuzzylite.engine.Engine.is_ready"]
RULE = ("engines with 2 inputs, 1-2 outputs (integral or weighted defuzzifier, with/without defuzzifier, aggregation, terms), "
        "1-2 rule blocks with every subset of {conjunction, disjunction, implication, activation} removed, rule sets drawn from "
        "{plain, and, or, and+or, two conclusions, unloaded, disabled, tab/parenthesis-separated operators}; single block x single "
        "output is enumerated exhaustively, two blocks / two outputs sampled; finite input rows.  Rule texts handed to Rule.parse / "
        "Rule.create / `rule.text =` in varied white-space layouts (tabs, runs of blanks, line breaks before / after a "
        "connective, margins, trailing comment): enumerated styles x missing-operator subsets, and random layouts.  "
        "Histories on ONE engine (drawn last): is_ready + process, an in-place edit (rule text re-written through rule.text / "
        "parse with or without reload, operator set / removed, defuzzifier swapped between integral / weighted / none, aggregation, "
        "rules loaded late / unloaded / restart(), enabled flags, rules added / removed), is_ready + process again: every single "
        "edit x missing-operator subsets enumerated, random histories of 1-4 edits; every moment against the model and the oracle.  "
        "non-trivial: the model reports "
        "at least one readiness error or a processing error; distinct = distinct abstract configuration")
ASSUMPTIONS = ["operators are detected in the text by the substring tests of the code (' and ', ' or '); antecedent texts ASSIGNED "
               "DIRECTLY to rule.antecedent.text whose operators are separated by tabs or parentheses fall outside the hypothesis "
               "'whitespace-separated tokens' and are only compared with the model, never judged by the soundness oracle; a rule "
               "given as a rule text (Rule.parse / Rule.create / rule.text) is inside the hypothesis in every white-space layout, "
               "and the oracle reads its connectives from the text as written",
               "outputs keep lock-previous off and no default value (F10 is outside this property)"]
LEVEL_TEXT = ("Lean theorems over engines with any number of outputs, rule blocks and rules: ready_sound (no readiness error + "
              "activation methods + operators visible in the text => process() raises none of its missing-operator errors), "
              "ready_complete / ready_complete_tree (every missing conjunction, disjunction, implication, aggregation, "
              "defuzzifier that a rule or output needs is in the error list), pinned_unsound (decided witness: the nesting of the "
              "pinned code reports an or-rule without disjunction ready), pinned_subset.  Correspondence: the model's error list "
              "and first processing error against Engine.is_ready / Engine.process on generated engines (every subset of "
              "operators removed).")
LEVEL_NOTE = ("Trusted: Lean kernel, standard axioms, the hand-written abstraction engine -> configuration (computed from the live "
              "objects by the harness).  Carried by the correspondence only: exception classes of process(), the substring tests "
              "agree with the tokens for single-blank texts, numeric processing of ready engines does not raise.")
TECHNIQUE = "Lean 4 proof over an abstract configuration model + differential run of is_ready / process against the Lean driver"

INTEGRAL = ["Centroid", "Bisector", "MeanOfMaximum", "SmallestOfMaximum", "LargestOfMaximum"]
WEIGHTED = ["WeightedAverage", "WeightedSum"]
ACTIVATIONS = ["General", "First", "Last", "Highest", "Lowest", "Proportional", "Threshold"]

# rule templates: (name, text, antecedent override or None)
TEMPLATES = {
    "plain": ("if a is lo then {o0} is t1", None),
    "and": ("if a is lo and b is hi then {o0} is t1", None),
    "or": ("if a is hi or b is lo then {o0} is t2", None),
    "andor": ("if a is lo and b is hi or a is hi then {o0} is t1", None),
    "two": ("if a is hi or b is hi then {o0} is t1 and {o1} is t2", None),
    "other": ("if a is lo and b is lo then {o1} is t2", None),
    "tab-and": ("if a is lo then {o0} is t1", "a is lo and\tb is hi"),
    "paren-or": ("if a is lo then {o0} is t1", "(a is lo)or(b is hi)"),
    # the connective that needs the missing operator sits in the RIGHT operand of the other connective
    "orand": ("if a is hi or b is lo and a is lo then {o0} is t1", None),
    "or-paren-and": ("if a is hi or ( b is lo and a is lo ) then {o0} is t1", None),
    "and-paren-or": ("if a is lo and ( b is hi or a is hi ) then {o0} is t2", None),
    # an output variable read in an antecedent after an earlier rule has activated one of its terms
    "chain": ("if {o0} is t1 then {o1} is t2", None),
    "chain-and": ("if {o0} is t1 and a is lo then {o1} is t2", None),
    # a consequent that fails to load after a first conclusion was read: the rule must stay unloaded (and is then skipped)
    "bad-concl": ("if a is lo then {o0} is t1 and {o0} is zz", None),
    "bad-concl-2": ("if a is lo or b is hi then {o0} is t2 and {o1}", None),
}


# ------------------------------------------------------------------------------------------ engines from cases

def build(case):
    """case (JSON) -> live engine; deterministic"""
    ins = []
    for name in ["a", "b"][: case["inputs"]]:
        ins.append(fl.InputVariable(name, minimum=0.0, maximum=1.0,
                                    terms=[fl.Triangle("lo", -1.0, 0.0, 1.0), fl.Triangle("hi", 0.0, 1.0, 2.0)]))
    outs = []
    for o in case["outputs"]:
        kind = o["defuzzifier"]
        if kind in INTEGRAL:
            d = getattr(fl, kind)(20)
            terms = [fl.Triangle("t1", 0.0, 0.25, 0.5), fl.Triangle("t2", 0.5, 0.75, 1.0)]
        elif kind in WEIGHTED:
            d = getattr(fl, kind)()
            terms = [fl.Constant("t1", 0.25), fl.Constant("t2", 0.75)]
        else:
            d = None
            terms = ([fl.Triangle("t1", 0.0, 0.25, 0.5), fl.Triangle("t2", 0.5, 0.75, 1.0)] if o.get("shape", "tri") == "tri"
                     else [fl.Constant("t1", 0.25), fl.Constant("t2", 0.75)])
        outs.append(fl.OutputVariable(o["name"], minimum=0.0, maximum=1.0, enabled=o.get("enabled", True),
                                      defuzzifier=d, aggregation=fl.Maximum() if o["aggregation"] else None,
                                      terms=terms if o.get("terms", True) else []))
    e = fl.Engine("e", input_variables=ins, output_variables=outs)
    names = [o["name"] for o in case["outputs"]] or ["o1"]
    for b in case["blocks"]:
        act = None
        if b["activation"]:
            a = b["activation"]
            act = {"General": fl.General, "First": lambda: fl.First(2, 0.0), "Last": lambda: fl.Last(2, 0.0),
                   "Highest": lambda: fl.Highest(2), "Lowest": lambda: fl.Lowest(2), "Proportional": fl.Proportional,
                   "Threshold": lambda: fl.Threshold(">=", 0.0)}[a]()
        rb = fl.RuleBlock(b.get("name", ""), enabled=b.get("enabled", True),
                          conjunction=fl.Minimum() if b["conjunction"] else None,
                          disjunction=fl.Maximum() if b["disjunction"] else None,
                          implication=fl.Minimum() if b["implication"] else None, activation=act)
        for r in b["rules"]:
            text, ante = TEMPLATES[r["template"]]
            text = text.format(o0=names[r.get("o0", 0) % len(names)], o1=names[r.get("o1", 1) % len(names)])
            if r.get("layout") and not ante:
                text = lay_out(text, r["layout"])
            via = r.get("layout", {}).get("via", "parse")
            if via == "create":
                rule = fl.Rule.create(text)
            else:
                rule = fl.Rule()
                if via == "text":
                    rule.text = text
                else:
                    rule.parse(text)
            if ante:
                rule.antecedent.text = ante
            rule.enabled = r.get("enabled", True)
            if r.get("loaded", True):
                try:
                    rule.load(e)
                except Exception:  # noqa: BLE001  (e.g. no such output variable / term: the rule is left as the failed load left it)
                    pass
            rb.rules.append(rule)
        e.rule_blocks.append(rb)
    return e


def lay_out(text, layout):
    """the rule text as the user wrote it: the same tokens, separated by the white space of the layout (blanks, runs of
    blanks, tabs, line breaks), with leading / trailing white space and an optional trailing comment"""
    toks = text.split()
    seps = layout["seps"]
    out = layout.get("lead", "") + toks[0]
    for i, t in enumerate(toks[1:]):
        out += seps[i % len(seps)] + t
    return out + layout.get("trail", "") + layout.get("comment", "")


def written_ops(case):
    """per block, per rule: the connectives among the white-space separated tokens of the antecedent AS WRITTEN in the rule
    text handed to Rule.parse / Rule.create / `rule.text = ...` (the hypothesis of the property speaks about how the rules
    are written), or None for the templates whose antecedent text is assigned directly to `rule.antecedent.text`"""
    names = [o["name"] for o in case["outputs"]] or ["o1"]
    out = []
    for b in case["blocks"]:
        rs = []
        for r in b["rules"]:
            text, ante = TEMPLATES[r["template"]]
            if ante:
                rs.append(None)
                continue
            text = text.format(o0=names[r.get("o0", 0) % len(names)], o1=names[r.get("o1", 1) % len(names)])
            if r.get("layout"):
                text = lay_out(text, r["layout"])
            toks = text.split("#")[0].split()
            toks = toks[1:toks.index("then")] if "then" in toks else toks[1:]
            rs.append({t for t in toks if t in ("and", "or")})
        out.append(rs)
    return out


def tree_ops(node, acc):
    if isinstance(node, fl.rule.Operator):
        acc.add(node.name)
        tree_ops(node.left, acc)
        tree_ops(node.right, acc)
    return acc


def abstract(e):
    """live engine -> the configuration the Lean model speaks about"""
    outs = []
    for o in e.output_variables:
        d = o.defuzzifier
        kind = "none" if d is None else "integral" if isinstance(d, fl.IntegralDefuzzifier) else "weighted"
        outs.append([int(o.enabled), int(bool(o.terms)), kind, int(o.aggregation is not None)])
    blocks = []
    for b in e.rule_blocks:
        rules = []
        for r in b.rules:
            ops = tree_ops(r.antecedent.expression, set()) if r.antecedent.expression else set()
            concls = []
            if r.is_loaded():
                for c in r.consequent.conclusions:
                    idx = [i for i, o in enumerate(e.output_variables) if o is c.variable]
                    if idx:
                        concls.append(idx[0])
            rules.append([int(r.is_loaded()), int(r.enabled), int(" and " in r.antecedent.text), int(" or " in r.antecedent.text),
                          int("and" in ops), int("or" in ops), concls])
        blocks.append([int(b.enabled), int(b.conjunction is not None), int(b.disjunction is not None),
                       int(b.implication is not None), int(b.activation is not None), rules])
    return [len(e.input_variables), outs, blocks]


ERR_PATTERNS = [
    (r"Engine '.*' does not have any input variables", "noInputs", None),
    (r"Engine '.*' does not have any output variables", "noOutputs", None),
    (r"Engine '.*' does not have any rule blocks", "noBlocks", None),
    (r"Output variable '(.*)' does not have any terms", "noTerms", "out"),
    (r"Output variable '(.*)' does not have any defuzzifier", "noDefuzzifier", "out"),
    (r"Output variable '(.*)' does not have any aggregation operator", "noAggregation", "out"),
    (r"Rule block (.*) does not have any rules", "noRules", "block"),
    (r"Rule block (.*) does not have any conjunction operator", "noConjunction", "block"),
    (r"Rule block (.*) does not have any disjunction operator", "noDisjunction", "block"),
    (r"Rule block (.*) does not have any implication operator", "noImplication", "block"),
]


def parse_errors(e, errors):
    out = []
    for msg in errors:
        for pat, kind, comp in ERR_PATTERNS:
            m = re.match(pat, msg)
            if not m:
                continue
            if comp is None:
                out.append(kind)
            elif comp == "out":
                idx = [i for i, o in enumerate(e.output_variables) if o.name == m.group(1)]
                out.append(f"{kind}:{idx[0] if idx else '?'}")
            else:
                ref = m.group(1).split(" ")[0]
                if ref.startswith("["):
                    idx = [int(ref.strip("[]"))]
                else:
                    idx = [i for i, b in enumerate(e.rule_blocks) if f"'{b.name}'" == ref]
                out.append(f"{kind}:{idx[0] if idx else '?'}")
            break
        else:
            out.append("unparsed:" + msg[:60])
    return out


PROC_KINDS = [("expected an activation method", "activation"), ("expected a conjunction operator", "conjunction"),
              ("expected a disjunction operator", "disjunction"), ("expected a defuzzifier", "defuzzifier"),
              ("expected an aggregation operator", "aggregation"), ("expected an implication operator", "implication")]


def observe(case):
    e = build(case)
    errors = []
    with np.errstate(all="ignore"):
        ready = bool(e.is_ready(errors))
        for v, x in zip(e.input_variables, case["values"]):
            v.value = x
        raised = None
        try:
            e.process()
        except Exception as ex:  # noqa: BLE001
            kind = next((k for pat, k in PROC_KINDS if pat in str(ex)), "other")
            raised = [type(ex).__name__, kind, str(ex)[:120]]
    return e, ready, parse_errors(e, errors), raised


def spaced(cfg):
    return all((not r[0]) or ((not r[4] or r[2]) and (not r[5] or r[3])) for b in cfg[2] for r in b[5])


def as_written(case, cfg):
    """the configuration with the flags `the text shows an and / an or` taken from the rule text as written (white-space
    separated tokens, whatever the white space) for every rule that was given as a rule text; rules whose antecedent text
    was assigned directly keep the flags of the stored text.  On a library that stores the tokens re-joined with single
    blanks both readings coincide."""
    ops = written_ops(case)
    blocks = []
    for b, wb in zip(cfg[2], ops):
        rules = [r if w is None else r[:2] + [int("and" in w), int("or" in w)] + r[4:] for r, w in zip(b[5], wb)]
        blocks.append(b[:5] + [rules])
    return [cfg[0], cfg[1], blocks]


def judge(cfg, ready, errs, raised):
    """the property at one moment of an engine's life: soundness and completeness, judged from the live objects (`cfg` is the
    abstract configuration of that moment, with the connectives of rule texts as written)"""
    has_act = all(b[4] for b in cfg[2])
    if ready != (not errs):
        return False, f"is_ready returned {ready} with errors {errs}"
    if ready and has_act and spaced(cfg) and raised:
        return False, (f"is_ready() reported the engine ready (no errors), every rule block has an activation method and the "
                       f"rules are written with white-space separated tokens, but process() raised {raised[0]}: {raised[2]}")
    # completeness: what the loaded rules / outputs need (operators as the property's hypothesis lets the check see them:
    # blank-separated; tab / parenthesis separated operators are outside the hypothesis and only compared with the model)
    for bi, b in enumerate(cfg[2]):
        for r in b[5]:
            if r[0] and r[2] and not b[1] and f"noConjunction:{bi}" not in errs:
                return False, f"a loaded rule of block {bi} uses 'and', the block has no conjunction operator, not reported: {errs}"
            if r[0] and r[3] and not b[2] and f"noDisjunction:{bi}" not in errs:
                return False, f"a loaded rule of block {bi} uses 'or', the block has no disjunction operator, not reported: {errs}"
            if r[0] and not b[3] and any(cfg[1][o][2] == "integral" for o in r[6]) and f"noImplication:{bi}" not in errs:
                return False, f"a loaded rule of block {bi} concludes on an integral output, no implication operator, not reported: {errs}"
    for oi, o in enumerate(cfg[1]):
        if o[2] == "none" and f"noDefuzzifier:{oi}" not in errs:
            return False, f"output {oi} has no defuzzifier, not reported: {errs}"
        if o[2] == "integral" and not o[3] and f"noAggregation:{oi}" not in errs:
            return False, f"output {oi} has an integral defuzzifier and no aggregation operator, not reported: {errs}"
    return True, "ok"


def oracle(case):
    """the property on the implementation: soundness and completeness, judged from the live objects"""
    if case.get("history") is not None:
        return oracle_history(case)
    e, ready, errs, raised = observe(case)
    return judge(as_written(case, abstract(e)), ready, errs, raised)


# ------------------------------------------------------------------------------------------ histories on one engine
# The property speaks about the engine at the moment the readiness check is asked: "IF the readiness check reports an engine
# ready ... THEN processing it completes", whatever was done to that engine before - built complete or edited into its
# present state, checked for the first time or checked before.  A history is: is_ready() + process(), an in-place edit of a
# component the readiness depends on, is_ready() + process() again, ... on ONE engine object (the same Engine, RuleBlock,
# Rule and OutputVariable objects throughout).  Every answer is judged on the configuration of its own moment.

RETEXT = ["plain", "and", "or", "andor", "orand", "two", "other"]          # templates without an antecedent override
EDIT_OPS = ["retext", "operator", "defuzzifier", "aggregation", "load", "unload", "restart", "enable", "add-rule", "remove-rule"]


def connectives(text):
    toks = text.split("#")[0].split()
    toks = toks[1:toks.index("then")] if "then" in toks else toks[1:]
    return {t for t in toks if t in ("and", "or")}


def apply_edit(e, case, ed, written):
    """one in-place edit of the live engine (indices are taken modulo the present sizes; an edit without a target is a no-op);
    `written` (per block, per rule: connectives of the rule text as written, or None) follows the rule texts"""
    names = [o["name"] for o in case["outputs"]] or ["o1"]
    op = ed["op"]
    blocks, outs = e.rule_blocks, e.output_variables

    def rule_text(tpl_ref):
        text = template_text(tpl_ref, names)
        return lay_out(text, tpl_ref["layout"]) if tpl_ref.get("layout") else text

    if op in ("retext", "load", "unload", "add-rule", "remove-rule", "operator") and not blocks:
        return
    if op in ("defuzzifier", "aggregation") and not outs:
        return
    if op == "retext":
        # the SAME Rule object gets another text (`rule.text = ...` or `rule.parse(...)`) and is - or is not - loaded again
        bi = ed["block"] % len(blocks)
        if not blocks[bi].rules:
            return
        ri = ed["rule"] % len(blocks[bi].rules)
        rule, text = blocks[bi].rules[ri], rule_text(ed)
        if ed.get("via") == "parse":
            rule.parse(text)
        else:
            rule.text = text
        written[bi][ri] = connectives(text)
        if ed.get("reload", True):
            try:
                rule.load(e)
            except Exception:  # noqa: BLE001  (no such output variable: the rule stays as the failed load left it)
                pass
    elif op == "operator":
        b = blocks[ed["block"] % len(blocks)]
        which = ed["which"]
        new = None
        if ed["on"]:
            new = {"conjunction": fl.Minimum, "disjunction": fl.Maximum, "implication": fl.Minimum, "activation": fl.General}[which]()
        setattr(b, which, new)
    elif op == "defuzzifier":
        kind = ed["kind"]
        outs[ed["output"] % len(outs)].defuzzifier = (getattr(fl, kind)(20) if kind in INTEGRAL else getattr(fl, kind)() if kind else None)
    elif op == "aggregation":
        outs[ed["output"] % len(outs)].aggregation = fl.Maximum() if ed["on"] else None
    elif op in ("load", "unload"):
        b = blocks[ed["block"] % len(blocks)]
        rules = b.rules if ed.get("rule") is None else ([b.rules[ed["rule"] % len(b.rules)]] if b.rules else [])
        for rule in rules:
            if op == "unload":
                rule.unload()
            else:
                try:
                    rule.load(e)
                except Exception:  # noqa: BLE001
                    pass
    elif op == "restart":
        # Engine.restart() reloads the rules of every rule block (the documented way to load rules created with load=False)
        try:
            e.restart()
        except Exception:  # noqa: BLE001  (a rule that cannot be loaded: the others are loaded)
            pass
    elif op == "enable":
        what = ed["what"]
        if what == "rule":
            if blocks and blocks[ed["block"] % len(blocks)].rules:
                b = blocks[ed["block"] % len(blocks)]
                b.rules[ed["rule"] % len(b.rules)].enabled = ed["on"]
        else:
            comps = {"output": outs, "input": e.input_variables, "block": blocks}[what]
            if comps:
                comps[ed["index"] % len(comps)].enabled = ed["on"]
    elif op == "add-rule":
        bi = ed["block"] % len(blocks)
        rule = fl.Rule()
        text = rule_text(ed)
        rule.parse(text)
        if ed.get("reload", True):
            try:
                rule.load(e)
            except Exception:  # noqa: BLE001
                pass
        blocks[bi].rules.append(rule)
        written[bi].append(connectives(text))
    elif op == "remove-rule":
        bi = ed["block"] % len(blocks)
        if blocks[bi].rules:
            ri = ed["rule"] % len(blocks[bi].rules)
            blocks[bi].rules.pop(ri)
            written[bi].pop(ri)


def observe_history(case):
    """-> (engine, [(moment, edit or None, abstract configuration, configuration as written, ready, errors, raised)]): moment 0
    is the engine as built, moment k the same engine after the k-th edit; at every moment is_ready(errors) is asked and the
    engine is processed with the finite input values of the case"""
    e = build(case)
    written = [list(rs) for rs in written_ops(case)]
    steps = []
    with np.errstate(all="ignore"):
        for k, ed in enumerate([None] + list(case["history"])):
            if ed is not None:
                apply_edit(e, case, ed, written)
            errors = []
            ready = bool(e.is_ready(errors))
            for v, x in zip(e.input_variables, case["values"]):
                v.value = x
            raised = None
            try:
                e.process()
            except Exception as ex:  # noqa: BLE001
                kind = next((kd for pat, kd in PROC_KINDS if pat in str(ex)), "other")
                raised = [type(ex).__name__, kind, str(ex)[:120]]
            cfg = abstract(e)
            blocks = []
            for b, wb in zip(cfg[2], written):
                rules = [r if w is None else r[:2] + [int("and" in w), int("or" in w)] + r[4:] for r, w in zip(b[5], wb)]
                blocks.append(b[:5] + [rules])
            steps.append((k, ed, cfg, [cfg[0], cfg[1], blocks], ready, parse_errors(e, errors), raised))
    return e, steps


def oracle_history(case):
    _, steps = observe_history(case)
    for k, ed, _cfg, cfg_w, ready, errs, raised in steps:
        ok, detail = judge(cfg_w, ready, errs, raised)
        if not ok:
            when = "on the engine as built" if k == 0 else f"asked again on the same engine after edit {k} ({json.dumps(ed)})"
            return False, f"{when}: {detail}"
    return True, "ok"


def base_case(kind, conj, disj, impl, rules, aggregation=True, activation="General"):
    return {"inputs": 2,
            "outputs": [{"name": "o1", "defuzzifier": kind, "aggregation": aggregation,
                         "shape": "const" if kind in WEIGHTED else "tri"}],
            "blocks": [{"name": "rb", "conjunction": bool(conj), "disjunction": bool(disj), "implication": bool(impl),
                        "activation": activation, "rules": rules}],
            "values": [0.25, 0.625]}


def single_edits(b):
    """every kind of in-place edit the readiness of a 1 block x 1 output engine depends on, as one-step histories"""
    for t in ("plain", "and", "or", "andor"):
        for via, reload in (("text", True), ("parse", True), ("text", False)):
            yield {"op": "retext", "block": 0, "rule": 0, "template": t, "via": via, "reload": reload}
    for which in ("conjunction", "disjunction", "implication", "activation"):
        yield {"op": "operator", "block": 0, "which": which, "on": not b[which]}
    for kind in ("Centroid", "LargestOfMaximum", "WeightedAverage", "WeightedSum", None):
        yield {"op": "defuzzifier", "output": 0, "kind": kind}
    for on in (True, False):
        yield {"op": "aggregation", "output": 0, "on": on}
    yield {"op": "unload", "block": 0, "rule": None}
    yield {"op": "load", "block": 0, "rule": None}
    yield {"op": "restart"}
    for what in ("output", "block", "input"):
        yield {"op": "enable", "what": what, "index": 0, "on": False}
    yield {"op": "enable", "what": "rule", "block": 0, "rule": 0, "on": False}
    for t in ("and", "or"):
        yield {"op": "add-rule", "block": 0, "template": t, "reload": True}
    yield {"op": "remove-rule", "block": 0, "rule": 0}


def history_cases():
    """one block x one output, asked twice: every subset of {conjunction, disjunction, implication} removed x rules that do or
    do not use a connective, loaded at construction or left unloaded (load=False) x integral / weighted defuzzifier x every
    single in-place edit; the second answer must hold for the edited engine exactly as the first held for the built one"""
    for kind in ("Centroid", "WeightedAverage"):
        for conj, disj, impl in itertools.product([1, 0], repeat=3):
            for rs, loaded in ((["plain"], True), (["and"], True), (["or"], True), (["plain", "or"], False)):
                rules = mk_rules(rs)
                if not loaded:
                    for r in rules:
                        r["loaded"] = False
                base = base_case(kind, conj, disj, impl, rules)
                for ed in single_edits(base["blocks"][0]):
                    if ed["op"] == "defuzzifier" and ed["kind"] == kind:
                        continue
                    yield dict(copy.deepcopy(base), history=[ed])


def random_edit(rng):
    op = rng.choice(EDIT_OPS + ["retext", "operator", "defuzzifier"])
    ed = {"op": op}
    if op in ("retext", "add-rule"):
        ed.update(block=rng.randrange(2), template=rng.choice(RETEXT), reload=rng.random() < 0.8)
        if op == "retext":
            ed.update(rule=rng.randrange(3), via=rng.choice(["text", "parse"]))
        if rng.random() < 0.3:
            text = TEMPLATES[ed["template"]][0]
            ed["layout"] = (styled_layout(text, rng.choice(STYLES)) if rng.random() < 0.5
                            else {"seps": [rng.choice(SEPS) for _ in range(len(text.split()) - 1)]})
    elif op == "operator":
        ed.update(block=rng.randrange(2), which=rng.choice(["conjunction", "disjunction", "implication", "activation"]),
                  on=rng.random() < 0.5)
    elif op == "defuzzifier":
        ed.update(output=rng.randrange(2), kind=rng.choice(INTEGRAL + WEIGHTED + [None]))
    elif op == "aggregation":
        ed.update(output=rng.randrange(2), on=rng.random() < 0.5)
    elif op in ("load", "unload"):
        ed.update(block=rng.randrange(2), rule=rng.choice([None, 0, 1]))
    elif op == "enable":
        what = rng.choice(["output", "block", "input", "rule"])
        ed.update(what=what, on=rng.random() < 0.5)
        if what == "rule":
            ed.update(block=rng.randrange(2), rule=rng.randrange(3))
        else:
            ed["index"] = rng.randrange(2)
    elif op == "remove-rule":
        ed.update(block=rng.randrange(2), rule=rng.randrange(3))
    return ed


def random_history_case(rng):
    """a random engine (as `random_case`: any subset of components missing, rules loaded or not) and 1-4 random edits"""
    case = random_case(rng, rng.random() < 0.8)
    case["history"] = [random_edit(rng) for _ in range(rng.choice([1, 1, 2, 2, 3, 4]))]
    return case


def shrink_history(case):
    """a failing history with as few edits as possible (edits are dropped while the oracle keeps failing)"""
    cur = case
    i = 0
    while i < len(cur["history"]) and len(cur["history"]) > 1:
        cand = dict(cur, history=cur["history"][:i] + cur["history"][i + 1:])
        if not oracle(cand)[0]:
            cur = cand
        else:
            i += 1
    return cur


def key(case):
    sig = []
    for b in case["blocks"]:
        ops = "".join(k[0] for k in ("conjunction", "disjunction", "implication") if not b[k]) or "-"
        lay = "layout" if any(r.get("layout") for r in b["rules"]) else ""
        sig.append(f"missing[{ops}]rules[{','.join(sorted({r['template'] for r in b['rules']}))}]{lay}")
    if case.get("history") is not None:
        sig.append("history[" + ",".join(ed["op"] for ed in case["history"]) + "]")
    return ";".join(sig)


# ------------------------------------------------------------------------------------------ generation

RULESETS = [["plain"], ["and"], ["or"], ["andor"], ["plain", "or"], ["and", "or"], ["two"], ["and", "two"], ["other", "plain"],
            ["tab-and"], ["paren-or"], ["plain", "paren-or"], [], ["orand"], ["or-paren-and"], ["and-paren-or"], ["plain", "orand"],
            ["plain", "chain"], ["plain", "chain-and"], ["or", "chain"], ["bad-concl"], ["plain", "bad-concl"], ["bad-concl-2", "and"]]


def mk_rules(names, rng=None, flags=False):
    rules = []
    for t in names:
        r = {"template": t}
        if flags and rng is not None:
            if rng.random() < 0.15:
                r["loaded"] = False
            if rng.random() < 0.15:
                r["enabled"] = False
            r["o0"], r["o1"] = rng.randrange(2), rng.randrange(2)
        rules.append(r)
    return rules


def exhaustive_cases():
    """one block x one output: every subset of the six removable components x rule sets x defuzzifier family"""
    for kind in ("Centroid", "WeightedAverage"):
        for conj, disj, impl, act, aggr, dfz in itertools.product([1, 0], repeat=6):
            for rs in RULESETS:
                yield {"inputs": 2,
                       "outputs": [{"name": "o1", "defuzzifier": kind if dfz else None, "aggregation": bool(aggr),
                                    "shape": "tri" if kind == "Centroid" else "const"}],
                       "blocks": [{"name": "rb", "conjunction": bool(conj), "disjunction": bool(disj), "implication": bool(impl),
                                   "activation": "General" if act else None, "rules": mk_rules(rs)}],
                       "values": [0.25, 0.625]}


def activation_cases():
    """every activation method x every subset of {conjunction, disjunction} removed x the rule sets that use a connective:
    the operators the rules are evaluated with are the block's own, whatever the activation method"""
    for act in ACTIVATIONS:
        for conj, disj in itertools.product([1, 0], repeat=2):
            for rs in (["and"], ["or"], ["andor"], ["orand"], ["and", "or"], ["plain", "or"]):
                yield {"inputs": 2,
                       "outputs": [{"name": "o1", "defuzzifier": "Centroid", "aggregation": True, "shape": "tri"}],
                       "blocks": [{"name": "rb", "conjunction": bool(conj), "disjunction": bool(disj), "implication": True,
                                   "activation": act, "rules": mk_rules(rs)}],
                       "values": [0.25, 0.625]}


def random_case(rng, general=True):
    nout = rng.choice([1, 2, 2])
    outs = []
    for i in range(nout):
        kind = rng.choice(INTEGRAL + WEIGHTED)
        outs.append({"name": f"o{i + 1}", "defuzzifier": kind if rng.random() < 0.8 else None, "aggregation": rng.random() < 0.7,
                     "shape": "tri" if kind in INTEGRAL else "const", "terms": rng.random() < 0.95,
                     "enabled": rng.random() < 0.9})
    blocks = []
    for i in range(rng.choice([1, 2, 2, 0] if rng.random() < 0.1 else [1, 2, 2])):
        blocks.append({"name": rng.choice(["", f"rb{i}"]), "enabled": rng.random() < 0.9,
                       "conjunction": rng.random() < 0.6, "disjunction": rng.random() < 0.6, "implication": rng.random() < 0.6,
                       "activation": (("General" if general else rng.choice(ACTIVATIONS)) if rng.random() < 0.85 else None),
                       "rules": mk_rules(rng.choice(RULESETS), rng, flags=True)})
    return {"inputs": 2 if rng.random() < 0.95 else 0, "outputs": outs if rng.random() < 0.97 else [], "blocks": blocks,
            "values": [round(rng.random(), 3), round(rng.random(), 3)]}


# ---- layouts of the rule text: the property holds `whatever the white space between the tokens`
SEPS = [" ", "  ", "\t", "\n", "\n        ", "\t\t", "     ", "\r\n", " \t "]
STYLES = ["tabs", "double", "wrap-after", "wrap-before", "tab-after", "tab-before", "margins", "comment"]


def styled_layout(text, style):
    """a layout in which only the neighbourhood of the connectives / keywords is special (a long rule wrapped after or
    before its connective, a tab next to it), or every gap is (tabs, double blanks), or only the margins are"""
    toks = text.split()
    gaps = len(toks) - 1
    if style == "tabs":
        return {"seps": ["\t"] * gaps}
    if style == "double":
        return {"seps": ["  "] * gaps}
    if style == "margins":
        return {"seps": [" "] * gaps, "lead": "  \t", "trail": "  \n"}
    if style == "comment":
        return {"seps": [" "] * gaps, "comment": " # applies when a and b or none"}
    seps = []
    for i in range(gaps):
        after, before = toks[i] in ("and", "or", "then"), toks[i + 1] in ("and", "or", "then")
        special = "\n        " if style.startswith("wrap") else "\t"
        seps.append(special if (after if style.endswith("after") else before) else " ")
    return {"seps": seps}


def template_text(r, names=("o1", "o2")):
    return TEMPLATES[r["template"]][0].format(o0=names[r.get("o0", 0) % len(names)], o1=names[r.get("o1", 1) % len(names)])


def layout_cases():
    """one block x one output: every subset of {conjunction, disjunction} removed x the rule sets that use a connective x
    every layout style: readiness predicts whether process() raises, whatever the white space of the rule text"""
    for style in STYLES:
        for conj, disj in itertools.product([1, 0], repeat=2):
            for rs in (["and"], ["or"], ["andor"], ["orand"], ["plain", "or"], ["and", "two"]):
                rules = mk_rules(rs)
                for i, r in enumerate(rules):
                    r["layout"] = dict(styled_layout(template_text(r, ["o1"]), style), via=["parse", "text", "create"][i % 3])
                yield {"inputs": 2,
                       "outputs": [{"name": "o1", "defuzzifier": "Centroid", "aggregation": True, "shape": "tri"}],
                       "blocks": [{"name": "rb", "conjunction": bool(conj), "disjunction": bool(disj), "implication": True,
                                   "activation": "General", "rules": rules}],
                       "values": [0.25, 0.625]}


def random_layout_case(rng):
    """a random engine whose rule texts are written with random white space between the tokens"""
    case = random_case(rng, rng.random() < 0.7)
    for b in case["blocks"]:
        for r in b["rules"]:
            if TEMPLATES[r["template"]][1] is None and rng.random() < 0.85:
                gaps = len(TEMPLATES[r["template"]][0].split()) - 1
                if rng.random() < 0.4:
                    lay = styled_layout(TEMPLATES[r["template"]][0], rng.choice(STYLES))
                else:
                    lay = {"seps": [rng.choice(SEPS) for _ in range(gaps)]}
                    if rng.random() < 0.3:
                        lay["lead"] = rng.choice([" ", "\t", "\n  "])
                    if rng.random() < 0.3:
                        lay["trail"] = rng.choice([" ", "\t", "\n"])
                lay["via"] = rng.choice(["parse", "text", "create"])
                r["layout"] = lay
    return case


def corpus_cases():
    d = os.path.join(C.VERIF, "corpus", PID)
    for p in sorted(glob.glob(os.path.join(d, "*.json"))):
        yield json.load(open(p))["case"]


def model_line(cfg):
    return C.sx(["ready", cfg[0], cfg[1], cfg[2]])


def flat(o):
    if isinstance(o, list):
        return ":".join(flat(x) for x in o)
    return str(o)


def correspond(ctx):
    st = ctx.stats
    mism = []
    cases = [(c, "corpus") for c in corpus_cases()]
    cases += [(c, "exhaustive-1x1") for c in exhaustive_cases()]
    cases += [(c, "activation-methods") for c in activation_cases()]
    cases += [(random_case(ctx.rng, True), "random-general") for _ in range(ctx.scale(1500, 60000))]
    cases += [(random_case(ctx.rng, False), "random-any-activation") for _ in range(ctx.scale(500, 20000))]
    # rule texts in varied white-space layouts (enumerated styles, then random ones drawn after the streams above)
    cases += [(c, "layout-styles") for c in layout_cases()]
    cases += [(random_layout_case(ctx.rng), "random-layout") for _ in range(ctx.scale(500, 15000))]
    ctx.notes["exhaustive"] = True
    obs, lines = [], []
    for case, kind in cases:
        e, ready, errs, raised = observe(case)
        cfg = abstract(e)
        obs.append((case, kind, cfg, ready, errs, raised))
        lines.append(model_line(cfg))
    outs = ctx.driver.eval(lines)
    for (case, kind, cfg, ready, errs, raised), o in zip(obs, outs):
        st.count(kind)
        p = C.parse_sx(o)
        if not isinstance(p, list) or len(p) != 3:
            mism.append({"case": case, "model": o, "what": "driver rejected the configuration"})
            continue
        m_errs = sorted(flat(x) for x in p[0])
        m_proc = None if p[2] == "none" else p[2][0]
        st.case(json.dumps(cfg), bool(m_errs) or m_proc is not None,
                sample={"config": cfg, "impl": {"ready": ready, "errors": errs, "raised": raised and raised[:2]},
                        "model": {"errors": m_errs, "process": m_proc}} if kind.startswith("random") else None)
        st.validated += 1
        general = all(b["activation"] in (None, "General") for b in case["blocks"])
        bad = None
        if sorted(errs) != m_errs or ready != (not m_errs):
            bad = f"is_ready: implementation {ready} {sorted(errs)}, model {m_errs}"
        elif general:
            if (raised is None) != (m_proc is None):
                bad = f"process(): implementation raised {raised}, model expects {m_proc}"
            elif raised is not None:
                both = any(r[0] and r[4] and r[5] and not b[1] and not b[2] for b in cfg[2] for r in b[5])
                if raised[0] != "ValueError" or (raised[1] != m_proc and not (both and {raised[1], m_proc} <= {"conjunction", "disjunction"})):
                    bad = f"process(): implementation raised {raised}, model expects ValueError/{m_proc}"
        if bad:
            mism.append({"case": case, "impl": {"ready": ready, "errors": errs, "raised": raised}, "model": o, "what": bad})
        ok, detail = oracle(case)
        st.count("oracle")
        if not ok:
            mism.append({"case": case, "impl": {"ready": ready, "errors": errs, "raised": raised}, "model": o,
                         "violation": True, "detail": detail, "what": detail})
        if len(mism) > 40:
            break
    mism += correspond_histories(ctx)
    # violations first, simplest (fewest rules, shortest history) first
    mism.sort(key=lambda m: (not m.get("violation"), sum(len(b["rules"]) for b in m["case"]["blocks"]), len(m["case"]["blocks"]),
                             len(m["case"].get("history") or [])))
    return mism


def correspond_histories(ctx):
    """histories on one engine (drawn after every other stream): at every moment the model's error list / first processing
    error for the configuration of that moment against is_ready / process of the edited engine, and the property oracle"""
    st = ctx.stats
    mism = []
    cases = [(c, "history-single-edit") for c in history_cases()]
    cases += [(random_history_case(ctx.rng), "history-random") for _ in range(ctx.scale(400, 15000))]
    obs, lines = [], []
    for case, kind in cases:
        _, steps = observe_history(case)
        obs.append((case, kind, steps))
        lines += [model_line(step[2]) for step in steps]
    outs = iter(ctx.driver.eval(lines))
    for case, kind, steps in obs:
        st.count(kind)
        general = all(b["activation"] in (None, "General") for b in case["blocks"])   # an edit only ever sets General
        bad = viol = None
        for k, ed, cfg, cfg_w, ready, errs, raised in steps:
            o = next(outs)
            p = C.parse_sx(o)
            st.validated += 1
            if bad or viol:
                continue
            if not isinstance(p, list) or len(p) != 3:
                bad = "driver rejected the configuration"
                continue
            m_errs = sorted(flat(x) for x in p[0])
            m_proc = None if p[2] == "none" else p[2][0]
            st.case(json.dumps([cfg, k > 0]), bool(m_errs) or m_proc is not None,
                    sample={"config": cfg, "after_edit": ed, "impl": {"ready": ready, "errors": errs, "raised": raised and raised[:2]},
                            "model": {"errors": m_errs, "process": m_proc}} if kind == "history-random" and k else None)
            if sorted(errs) != m_errs or ready != (not m_errs):
                bad = f"moment {k}: is_ready: implementation {ready} {sorted(errs)}, model {m_errs}"
            elif general:
                if (raised is None) != (m_proc is None):
                    bad = f"moment {k}: process(): implementation raised {raised}, model expects {m_proc}"
                elif raised is not None:
                    both = any(r[0] and r[4] and r[5] and not b[1] and not b[2] for b in cfg[2] for r in b[5])
                    if raised[0] != "ValueError" or (raised[1] != m_proc and not (both and {raised[1], m_proc} <= {"conjunction", "disjunction"})):
                        bad = f"moment {k}: process(): implementation raised {raised}, model expects ValueError/{m_proc}"
            ok, detail = judge(cfg_w, ready, errs, raised)
            st.count("oracle")
            if not ok:
                viol = detail
        if viol:
            small = shrink_history(case)
            detail = oracle(small)[1]
            mism.append({"case": small, "violation": True, "detail": detail, "what": detail})
        elif bad:
            mism.append({"case": case, "what": bad})
        if len(mism) > 40:
            break
    return mism


def search(ctx):
    for case in itertools.chain(corpus_cases(), exhaustive_cases(), activation_cases(), layout_cases()):
        ok, d = oracle(case)
        if not ok:
            return [(case, d)]
    for _ in range(3000):
        case = random_case(ctx.rng, False)
        ok, d = oracle(case)
        if not ok:
            return [(case, d)]
    for _ in range(1000):
        case = random_layout_case(ctx.rng)
        ok, d = oracle(case)
        if not ok:
            return [(case, d)]
    for case in itertools.chain(history_cases(), (random_history_case(ctx.rng) for _ in range(3000))):
        ok, d = oracle(case)
        if not ok:
            case = shrink_history(case)
            return [(case, oracle(case)[1])]
    return []
