"""C18 — FuzzyLite Dataset export is a faithful tabulation of the engine (DESIGN.md section 8, C18)."""
from __future__ import annotations

import decimal
import io
import json
import math
from fractions import Fraction as Fr

import numpy as np

import common as C
import fuzzylite as fl
from streams import fld_write as S_WRITE

PID = "C18"
MODULES = ["FlVerif.Props.C18"]
NAMESPACE = "C18"
TIE_A = ["code:fuzzylite.operation.Operation.increment", "code:fuzzylite.exporter.FldExporter.write_from_scope",
         "code:fuzzylite.exporter.FldExporter.write_from_reader", "code:fuzzylite.exporter.FldExporter.header",
         "code:fuzzylite.exporter.FldExporter.write"]
RULE = ("engines with 1-4 input variables (Mamdani and Takagi-Sugeno) x requested sizes v (every perfect n-th power <= 2000 "
        "and its neighbours, random v, v = 1) x both scopes x active-variable subsets x header/inputs/outputs switches x "
        "separators x decimals; reader contents with comments, blank lines, indentation and skipped lines. non-trivial: "
        "more than one grid row and at least two inputs, or a reader text with at least one dropped line; distinct = "
        "distinct (engine shape, scope, v, switches)")
RULE += (" Engines with disabled input variables / output variables / rule blocks, exported with a selection of active variables and without one (to_string_from_scope, write_from_scope, to_string): drawn last; including the engines in which NO output variable receives a value per row (every output variable disabled, every rule block disabled, both, every input variable disabled), with every header / inputs / outputs switch: one row per grid point, nan outputs.")
RULE += (" Stream `fld-write` (fv/streams/fld_write.py): the control flow of FldExporter.write on a recording stub engine (ValueError for too few columns, order of restart / assignments / process, stacked blocks, header) against Op.Fld.write.")
RULE += (" Drawn after them: grids whose step is a short decimal (v - 1 = 8 .. 1000 on ten ranges, both scopes, 1-2 inputs, decimals at which grid points lie half way between two numerals) on Mamdani / Takagi-Sugeno engines and `echo` engines whose output repeats the first input; readers of 1-4 input columns (blank / tab separated, comments, blank and skipped lines, output columns of a re-read dataset behind the inputs, values with a 5 behind the printed decimals) against every separator (also non-blank) x decimals 0..9 x header / inputs / outputs switch.  Every printed number (inputs and outputs, scope and reader exports, all families) is compared as TEXT with the rendering of the double with the configured decimals computed by the decimal module.")
ASSUMPTIONS = ["printed numbers are compared with the exact grid values within half a unit of the last printed decimal",
               "output columns are compared with the engine's own batch results on the same input rows (text equality)",
               "the double of a grid point is minimum + index * (range / resolution) in double arithmetic (or the value the engine was fed for the row, if it is the exact grid value within 8 ulp of the range end)"]
LEVEL_TEXT = ("Lean theorems about the grid enumeration for ANY number of inputs and ANY size: increment_lex_succ (Op.increment "
              "is the lexicographic successor with the last input fastest, false exactly at the last tuple), grid_enumerates / "
              "grid_length / rank_injective (the while loop emits every grid point exactly once in lexicographic order), "
              "iroot_spec / iroot_unique / iroot_greatest (k is the largest integer with k^n <= v), correctedRoot_eq (the "
              "repaired root computation is exact from any floating-point guess), allVariables_rows, eachVariable_rows, "
              "inactive_variable_constant, reader_filter, header_switches. Correspondence: exported text vs the model's rows "
              "(row count, order, values), outputs vs the engine, reader filtering.")
LEVEL_NOTE = ("Trusted: Lean kernel, the Op.Fld model (tied to operation.py / exporter.py by code_increment / code_grid; externals: what the loop reads of a variable, the float guess as an arbitrary function) and the "
              "correspondence, numpy.savetxt formatting, the float guess int(pow(v, 1/n)) (any guess is corrected - proved).")
TECHNIQUE = "Lean 4 proof (induction on mixed-radix counters, integer roots) about a code-shaped model of the FLD grid loop + differential run of exports"


_DEC = decimal.Context(prec=1200)


def render(x, d):
    """`x` "printed with the configured decimals": the decimal numeral with `d` decimals nearest to the double x (exact ties
    to even, as in C), computed from the exact binary value with the decimal module - not with a formatting routine of
    Python / NumPy and not by scaling and rounding in floating point"""
    x = float(x)
    if x != x:
        return "nan"
    if math.isinf(x):
        return "inf" if x > 0 else "-inf"
    q = decimal.Decimal(x).quantize(decimal.Decimal(1).scaleb(-d), rounding=decimal.ROUND_HALF_EVEN, context=_DEC)
    return format(q, "f")


DEFAULT_RANGES = [(0.0, 1.0), (-1.0, 1.0), (2.0, 10.0), (-5.0, -1.0)]


def mk_engine(n, kind="mamdani", ranges=None):
    e = fl.Engine(name=f"e{n}")
    ranges = [tuple(r) for r in ranges] if ranges else DEFAULT_RANGES
    for i in range(n):
        lo, hi = ranges[i]
        e.input_variables.append(fl.InputVariable(name=f"in{i}", minimum=lo, maximum=hi, lock_range=False, terms=[
            fl.Triangle("low", lo, lo, hi), fl.Triangle("high", lo, hi, hi)]))
    if kind == "locked":
        # rules fire on the lower 30 % of every input range only; elsewhere the outputs hold their previous value
        for iv in e.input_variables:
            lo, hi = iv.minimum, iv.maximum
            iv.terms = [fl.Triangle("low", lo, lo, lo + 0.3 * (hi - lo)), fl.Triangle("high", lo, lo + 0.15 * (hi - lo), lo + 0.3 * (hi - lo))]
    if kind == "echo":
        # a Takagi-Sugeno output that repeats the first input (one rule of degree 1, the term 1 * in0): whatever numbers the
        # input column holds, the output column holds them too
        e.output_variables.append(fl.OutputVariable(name="out", minimum=-1000.0, maximum=1000.0, aggregation=None,
                                                    defuzzifier=fl.WeightedAverage(), lock_previous=False, terms=[
            fl.Linear("b", [1.0] + [0.0] * n)]))
    elif kind in ("mamdani", "locked"):
        e.output_variables.append(fl.OutputVariable(name="out", minimum=0.0, maximum=1.0, aggregation=fl.Maximum(),
                                                    defuzzifier=fl.Centroid(50), lock_previous=False, terms=[
            fl.Triangle("a", 0.0, 0.25, 0.5), fl.Triangle("b", 0.5, 0.75, 1.0)]))
    else:
        e.output_variables.append(fl.OutputVariable(name="out", minimum=-10.0, maximum=10.0, aggregation=None,
                                                    defuzzifier=fl.WeightedAverage(), lock_previous=False, terms=[
            fl.Constant("a", 1.5), fl.Linear("b", [0.5] * n + [1.0])]))
    e.output_variables.append(fl.OutputVariable(name="out2", minimum=0.0, maximum=1.0, aggregation=fl.AlgebraicSum(),
                                                defuzzifier=fl.MeanOfMaximum(20), lock_previous=False, terms=[
        fl.Rectangle("r", 0.2, 0.6)]))
    rules = []
    for i in range(n):
        if kind == "echo":
            rules.append(f"if in{i} is low then out2 is r")
            continue
        rules.append(f"if in{i} is low then out is a and out2 is r")
        rules.append(f"if in{i} is high then out is b")
    if kind == "echo":
        rules.append("if in0 is any then out is b")
    e.rule_blocks.append(fl.RuleBlock(name="rb", conjunction=fl.Minimum(), disjunction=fl.Maximum(),
                                      implication=fl.Minimum(), activation=fl.General(),
                                      rules=[fl.Rule.create(r, e) for r in rules]))
    for t in e.output_variables[0].terms:
        t.update_reference(e)
    if kind == "locked":
        for ov in e.output_variables:
            ov.lock_previous = True
    return e


def build(case):
    """the engine of a case: `mk_engine`, with the components named in `case["disabled"]` switched off (enabled = False)"""
    e = mk_engine(case["n"], case["kind"], case.get("ranges"))
    off = case.get("disabled") or {}
    if len(off.get("blocks", [])) == 2:
        # a second rule block with the same rules, so that one of the two can be switched off
        first = e.rule_blocks[0]
        e.rule_blocks.append(fl.RuleBlock(name="rb2", conjunction=fl.Minimum(), disjunction=fl.Maximum(),
                                          implication=fl.Minimum(), activation=fl.General(),
                                          rules=[fl.Rule.create(r.text, e) for r in first.rules]))
    for iv, d in zip(e.input_variables, off.get("inputs", [])):
        iv.enabled = not d
    for ov, d in zip(e.output_variables, off.get("outputs", [])):
        ov.enabled = not d
    for rb, d in zip(e.rule_blocks, off.get("blocks", [])):
        rb.enabled = not d
    return e


def swept(case):
    """which input variables are swept: the given selection; without one (`active` None) every input variable - the property
    speaks of `v` values "per input" of the engine, whatever its state"""
    return [True] * case["n"] if case["active"] is None else case["active"]


def export_scope(case):
    e = build(case)
    active = None if case["active"] is None else {iv for i, iv in enumerate(e.input_variables) if case["active"][i]}
    for iv in e.input_variables:
        iv.value = 0.123
    exp = fl.FldExporter(separator=case["sep"], headers=case["headers"], input_values=case["inputs"],
                         output_values=case["outputs"])
    scope = fl.FldExporter.ScopeOfValues.AllVariables if case["scope"] == "all" else fl.FldExporter.ScopeOfValues.EachVariable

    def run(engine, act):
        entry = case.get("entry", "selection")
        if entry == "to_string":              # the default export: 1024 values for all variables
            assert case["v"] == 1024 and case["scope"] == "all" and act is None
            return exp.to_string(engine)
        if entry == "writer":
            w = io.StringIO()
            exp.write_from_scope(engine, w, case["v"], scope) if act is None else exp.write_from_scope(engine, w, case["v"], scope, act)
            return w.getvalue()
        if act is None:                       # no selection given
            return exp.to_string_from_scope(engine, case["v"], scope)
        return exp.to_string_from_scope(engine, case["v"], scope, act)

    with fl.settings.context(decimals=case["decimals"]):
        if case.get("reuse"):
            # the same exporter object has been used before, for a grid of the same shape (this engine and another one with
            # as many inputs): an export does not depend on what the exporter did earlier
            run(e, active)
            other = mk_engine(case["n"], "ts" if case["kind"] != "ts" else "mamdani", case.get("ranges"))
            run(other, None if active is None else {iv for i, iv in enumerate(other.input_variables) if case["active"][i]})
        text = run(e, active)
    return e, text


def model_line(case):
    e = mk_engine(case["n"], case["kind"], case.get("ranges"))
    vs = [[iv.minimum, iv.maximum, 1 if a else 0, "nan"] for iv, a in zip(e.input_variables, swept(case))]
    return C.sx(["fld-grid", case["scope"], str(case["v"]), vs])


def parse_text(text, case):
    lines = text.split("\n")
    if lines and lines[-1] == "":
        lines.pop()
    header = None
    if case["headers"]:
        header = lines[0].split(case["sep"]) if lines and lines[0] != "" else []
        lines = lines[1:]
    rows = [[x for x in l.split(case["sep"])] if l != "" else [] for l in lines]
    return header, rows


def check_export(case, model_rows):
    """compare one export with the model's rows; returns None or a description"""
    try:
        e, text = export_scope(case)
    except Exception as ex:  # noqa: BLE001
        return (f"the export raises {type(ex).__name__}: {str(ex)[:160]} (the grid has {len(model_rows)} points: a dataset of "
                f"{len(model_rows)} rows is expected for every engine, whatever is switched off in it)")
    header, rows = parse_text(text, case)
    n, d = case["n"], case["decimals"]
    names_in = [iv.name for iv in e.input_variables]
    names_out = [ov.name for ov in e.output_variables]
    if case["headers"]:
        exp_header = (names_in if case["inputs"] else []) + (names_out if case["outputs"] else [])
        if header != exp_header and not (exp_header == [] and header in ([], [""])):
            return f"header {header} != {exp_header}"
    if len(rows) != len(model_rows):
        return f"{len(rows)} rows exported, the grid has {len(model_rows)}"
    ncols = (n if case["inputs"] else 0) + (len(names_out) if case["outputs"] else 0)
    half = Fr(1, 2 * 10 ** d) + Fr(1, 10 ** 9)
    # expected outputs: the engine's own results on the exact grid (as floats)
    exp_out = None
    e2 = build(case)
    # the float input values at the model's grid points: minimum + index * (range / resolution) in double arithmetic
    res = (max(1, iroot_py(n, case["v"])) - 1) if case["scope"] == "all" else case["v"] - 1
    points = [{} for _ in range(n)]       # per input: the model's value (text) -> (exact value, double); few distinct values per column

    def point(ci_, ms):
        known = points[ci_]
        if ms not in known:
            iv = e2.input_variables[ci_]
            if ms == "nan":
                known[ms] = (Fr(0.123), 0.123)
            else:
                lo_, hi_ = Fr(iv.minimum), Fr(iv.maximum)
                idx_ = (Fr(ms) - lo_) * max(1, res) / (hi_ - lo_)
                assert idx_.denominator == 1
                known[ms] = (Fr(ms), grid_double(iv, int(idx_), res))
        return known[ms]
    grid = np.zeros((len(model_rows), n))
    for ri_, r_ in enumerate(model_rows):
        for ci_ in range(n):
            grid[ri_, ci_] = point(ci_, r_[ci_])[1]
    fed = fed_values(e, len(model_rows))
    seen = [{} for _ in range(n)]         # per input: (model value, printed text, value fed) -> verdict of the comparisons
    if case["outputs"]:
        e2.restart()
        if case["kind"] == "locked":
            # the engine itself, restarted once and fed the grid points one at a time (the previous value carries over)
            exp_out = np.zeros((len(model_rows), len(e2.output_variables)))
            for ri_ in range(len(model_rows)):
                for i, iv in enumerate(e2.input_variables):
                    iv.value = float(grid[ri_, i])
                e2.process()
                exp_out[ri_, :] = [float(np.take(ov.value, -1)) for ov in e2.output_variables]
        else:
            for i, iv in enumerate(e2.input_variables):
                iv.value = grid[:, i]
            e2.process()
            # one row per grid point: an output variable that received no value per row (disabled, or without
            # activations) holds the single value it produces for every one of them.  Read variable by variable, not
            # through `Engine.output_values`, which is part of what the exporter itself uses
            exp_out = np.column_stack([np.broadcast_to(np.atleast_1d(np.asarray(ov.value, dtype=float)), (len(model_rows),))
                                       for ov in e2.output_variables]) if len(model_rows) else np.zeros((0, len(e2.output_variables)))
    for ri, (r, m) in enumerate(zip(rows, model_rows)):
        if len(r) != ncols:
            return f"row {ri} has {len(r)} columns, expected {ncols}"
        if case["inputs"]:
            for ci in range(n):
                fv = float(fed[ci][ri]) if fed else None
                k_ = (m[ci], r[ci], fv)
                if k_ not in seen[ci]:
                    mv, gv = point(ci, m[ci])
                    if abs(Fr(r[ci]) - mv) > half:
                        seen[ci][k_] = f"printed {r[ci]}, grid value {float(mv)}"
                    else:
                        seen[ci][k_] = not_printed(r[ci], d, gv, mv, e.input_variables[ci], fv)
                if seen[ci][k_]:
                    return f"row {ri} input {ci}: {seen[ci][k_]}"
        if case["outputs"]:
            off = n if case["inputs"] else 0
            for oi in range(len(names_out)):
                want = exp_out[ri, oi]
                got = r[off + oi]
                if want != want:
                    if got.lower() != "nan":
                        return f"row {ri} output {oi}: printed {got}, engine gives nan"
                elif not (abs(float(got) - want) <= 0.5 * 10 ** (-d) + 1e-7):       # also when a number became nan
                    return f"row {ri} output {oi}: printed {got}, engine gives {want!r}"
                elif case["kind"] != "locked" and got != render(want, d):
                    # "printed with the configured decimals": the numeral is the d-decimal rendering of the double the
                    # engine produces (the same batch computation on the same rows gives the same double; the `locked`
                    # reference is computed row by row and may differ from the batch in the last bits: tolerance only)
                    return (f"row {ri} output {oi}: printed {got}, the engine gives {want!r} whose rendering with {d} decimals "
                            f"is {render(want, d)}")
    return None


def grid_double(iv, index, res):
    """the grid value number `index` of an input variable as a double: minimum + index * (range / resolution)"""
    return iv.minimum + index * ((iv.maximum - iv.minimum) / max(1.0, res))


def fed_values(e, nrows):
    """the values the engine holds for its input variables after the export, one per row (None if it holds something else)"""
    out = []
    for iv in e.input_variables:
        a = np.asarray(iv.value, dtype=float)
        if a.shape != (nrows,):
            return None
        out.append(a)
    return out


def not_printed(text, d, value, exact, iv, fed=None):
    """"every row holds the input values of that point ... printed with the configured decimals": the numeral `text` is the
    rendering with d decimals of the double that is the input value of the point.  That double is `value` (the equidistant
    value computed in double arithmetic); a value that the engine was fed for the row is accepted as well when it is the
    exact grid value `exact` up to the rounding of such a computation (8 units of the last place of the larger range end).
    Comparing with the exact rational alone cannot decide a numeral whose next decimal is a 5: 1/80 is the double
    0.01250000000000000069..., printed 0.013 with three decimals, while 0.012 is just as near to 1/80."""
    if text == render(value, d):
        return None
    if fed is not None and fed == fed:
        slack = 8 * 2.0 ** -52 * max(abs(iv.minimum), abs(iv.maximum), 1e-300)
        if abs(Fr(float(fed)) - exact) <= Fr(slack) and text == render(fed, d):
            return None
    return f"printed {text}, the grid value is the double {float(value)!r} whose rendering with {d} decimals is {render(value, d)}"


def iroot_py(n, v):
    k = 0
    while (k + 1) ** n <= v:
        k += 1
    return k


def key(case):
    if case.get("stream"):
        return case["stream"]
    if case.get("reader") is not None:
        return "reader"
    return f"{case['scope']} n={case['n']}"


def oracle(case):
    try:
        return oracle_(case)
    except Exception as ex:  # noqa: BLE001
        # the exported text could not even be read back as a table of numbers in the configured layout
        return False, (f"the export of case {json.dumps(case, default=str)[:200]} cannot be read back as rows of numbers separated by "
                       f"{case.get('sep', ' ')!r}: {type(ex).__name__}: {ex}")


def oracle_(case):
    """property oracle, independent of Lean: grid size, equidistant values from minimum to maximum, lexicographic order"""
    if case.get("stream"):
        return S_WRITE.oracle(case)       # control flow of FldExporter.write on a recording stub
    if case.get("reader") is not None:
        return oracle_reader(case)
    n, v, d = case["n"], case["v"], case["decimals"]
    k = max(1, iroot_py(n, v)) if case["scope"] == "all" else v
    act = swept(case)
    per = [k if a else 1 for a in act]
    total = math.prod(per)
    try:
        e, text = export_scope(case)
    except Exception as ex:  # noqa: BLE001
        return False, (f"the export raises {type(ex).__name__}: {str(ex)[:160]}; expected a dataset of {total} rows, one per grid "
                       f"point (k={k} per active input, {n} inputs, v={v}, scope={case['scope']}, disabled={case.get('disabled')})")
    header, rows = parse_text(text, case)
    if case["headers"]:
        want_h = ([iv.name for iv in e.input_variables] if case["inputs"] else []) + \
                 ([ov.name for ov in e.output_variables] if case["outputs"] else [])
        if header != want_h:
            return False, f"header {header}, expected the selected variable names {want_h}"
    if len(rows) != total:
        return False, f"{len(rows)} rows, expected {total} (k={k} per active input, {n} inputs, v={v}, scope={case['scope']})"
    half = Fr(1, 2 * 10 ** d) + Fr(1, 10 ** 9)
    idx = [0] * n
    grid_rows = []
    fed = fed_values(e, len(rows))
    points = [{} for _ in range(n)]       # per input: index -> (exact grid value, its text); few distinct values per column
    seen = [{} for _ in range(n)]         # per input: (index, printed text, value fed) -> verdict of the comparisons
    for ri, r in enumerate(rows):
        grow = []
        for ci, iv in enumerate(e.input_variables):
            if idx[ci] not in points[ci]:
                if act[ci]:
                    lo, hi = Fr(iv.minimum), Fr(iv.maximum)
                    want = lo + idx[ci] * ((hi - lo) / max(1, k - 1))
                    points[ci][idx[ci]] = (want, str(want))
                else:
                    points[ci][idx[ci]] = (Fr(0.123), "nan")
            want, wtext = points[ci][idx[ci]]
            grow.append(wtext)
            if case["inputs"]:
                fv = float(fed[ci][ri]) if fed else None
                k_ = (idx[ci], r[ci], fv)
                if k_ not in seen[ci]:
                    if abs(Fr(r[ci]) - want) > half:
                        seen[ci][k_] = f"printed {r[ci]}, lexicographic grid point has {float(want)}"
                    else:
                        seen[ci][k_] = not_printed(r[ci], d, grid_double(iv, idx[ci], k - 1) if act[ci] else 0.123, want, iv, fv)
                if seen[ci][k_]:
                    return False, f"row {ri}: input {ci} {seen[ci][k_]}"
        grid_rows.append(grow)
        # lexicographic successor, last input fastest
        for ci in reversed(range(n)):
            if idx[ci] + 1 < per[ci]:
                idx[ci] += 1
                break
            idx[ci] = 0
    if case["outputs"]:
        # every row holds the outputs the engine produces for the row's inputs (the engine itself is the reference)
        bad = check_export(case, grid_rows)
        if bad:
            return False, bad
    return True, "ok"


def reader_rows(case):
    """the data lines of a reader, read independently: lines after the skipped ones that are neither blank nor comments,
    their values separated by any white space"""
    want = []
    for i, line in enumerate(case["reader"].split("\n")):
        if i < case["skip"]:
            continue
        t = line.strip()
        if not t or t.startswith("#"):
            continue
        want.append([float(x) for x in t.split()])
    return want


def oracle_reader(case):
    """"Exporting from a reader tabulates exactly the given rows, skipping blank and comment lines": one row per data line,
    holding its input values (the first value per input variable; a dataset that is read back has output columns behind
    them) and the outputs the engine produces for them, in the exporter's OWN layout - header, inputs / outputs switches,
    separator, decimals.  How the reader's lines are written (blanks, tabs, indentation) is independent of that layout.
    The older cases (no layout given) use the default exporter without header and outputs at 6 decimals."""
    n, d = case["n"], case.get("decimals", 6)
    sep, headers = case.get("sep", " "), case.get("headers", False)
    ins, outs = case.get("inputs", True), case.get("outputs", False)
    e = mk_engine(n, case.get("kind", "mamdani"), case.get("ranges"))
    exp = fl.FldExporter(separator=sep, headers=headers, input_values=ins, output_values=outs)
    # a reader is a stream: lines that its owner has read before handing it over (`consumed`) are not "the given rows"
    rd = io.StringIO(case["reader"])
    for _ in range(int(case.get("consumed", 0))):
        rd.readline()
    want = reader_rows(dict(case, reader=case["reader"][rd.tell():]) if case.get("consumed") else case)
    try:
        with fl.settings.context(decimals=d):
            text = exp.to_string_from_reader(e, rd, skip_lines=case["skip"])
    except ValueError as ex:
        if not want:
            return True, "ok"   # a reader without data lines is rejected by the exporter (nothing to tabulate)
        return False, (f"the export from the reader raises ValueError: {str(ex)[:160]}; {len(want)} data lines of "
                       f"{len(want[0])} values are given for {n} input variables (exporter separator {sep!r})")
    lines = text.split("\n")
    if lines and lines[-1] == "":
        lines.pop()
    if headers:
        names = ([iv.name for iv in e.input_variables] if ins else []) + ([ov.name for ov in e.output_variables] if outs else [])
        if not lines or lines[0] != sep.join(names):
            return False, f"header line {lines[:1]}, expected the selected variable names joined by {sep!r}: {sep.join(names)!r}"
        lines = lines[1:]
    rows = [l for l in lines if l != ""]
    if len(rows) != len(want):
        return False, f"{len(rows)} rows exported from the reader, {len(want)} data lines given"
    if not want:
        return True, "ok"
    for r, w in zip(rows, want):
        if "sep" in case:
            break
        got = [float(x) for x in r.split()]
        if len(got) != len(w) or any(abs(a - b) > 1e-6 for a, b in zip(got, w)):
            return False, f"row {got} differs from the given line {w}"
    # every printed number: the rendering with d decimals of the given input value / of the output the engine produces
    exp_out = None
    if outs:
        e2 = mk_engine(n, case.get("kind", "mamdani"), case.get("ranges"))
        e2.restart()
        for i, iv in enumerate(e2.input_variables):
            iv.value = np.array([w[i] for w in want], dtype=float)
        e2.process()
        exp_out = [np.broadcast_to(np.atleast_1d(np.asarray(ov.value, dtype=float)), (len(want),)) for ov in e2.output_variables]
    for ri, (r, w) in enumerate(zip(rows, want)):
        cells = ([render(x, d) for x in w[:n]] if ins else []) + ([render(col[ri], d) for col in exp_out] if outs else [])
        if r != sep.join(cells):
            return False, (f"row {ri} is {r!r}; the data line holds the input values {w[:n]}"
                           + (f", the engine produces {[float(col[ri]) for col in exp_out]}" if outs else "")
                           + f": expected {sep.join(cells)!r} (separator {sep!r}, {d} decimals)")
    return True, "ok"


def gen_cases(ctx):
    rng = ctx.rng
    # every perfect power and its neighbours: where the integer root changes
    for n in (1, 2, 3, 4):
        vs = {1, 2, 3, 1999, 2000}
        k = 1
        while k ** n <= 2000:
            vs |= {k ** n - 1, k ** n, k ** n + 1}
            k += 1
        vs = sorted(v for v in vs if 1 <= v <= 2000)
        if n == 1:
            vs = vs[:: max(1, len(vs) // ctx.scale(12, 60))]
        elif not ctx.thorough:
            vs = [v for v in vs if v <= 1400 or n >= 3]
        for v in vs:
            yield {"n": n, "kind": "mamdani", "scope": "all", "v": v, "active": [True] * n, "sep": " ", "headers": True,
                   "inputs": True, "outputs": False, "decimals": 3}
    # outputs that lock their previous value, on grids small and large (more than 1024 rows: any internal batching of the
    # export must not lose the value carried from one row to the next)
    for n, scope, v in [(1, "each", 7), (1, "each", 40), (2, "each", 6), (2, "all", 50), (1, "each", 1100), (2, "all", 1160),
                        (1, "all", 1537)] + ([(2, "each", 40), (3, "all", 1400)] if ctx.thorough else []):
        yield {"n": n, "kind": "locked", "scope": scope, "v": v, "active": [True] * n, "sep": " ", "headers": False,
               "inputs": True, "outputs": True, "decimals": 4}
    for _ in range(ctx.scale(60, 600)):
        n = rng.randint(1, 4)
        scope = rng.choice(["all", "each"])
        v = rng.randint(1, 2000) if scope == "all" else rng.randint(1, {1: 300, 2: 40, 3: 10, 4: 6}[n])
        active = [rng.random() < 0.8 for _ in range(n)]
        ins, outs = rng.choice([(True, True), (True, True), (True, False), (False, True)])  # at least one column
        yield {"n": n, "kind": rng.choice(["mamdani", "ts"]), "scope": scope, "v": v, "active": active,
               "sep": rng.choice([" ", ",", "\t", ";"]), "headers": rng.random() < 0.7, "inputs": ins,
               "outputs": outs, "decimals": rng.choice([0, 1, 3, 6, 9]), "reuse": rng.random() < 0.3}


def gen_disabled_cases(ctx):
    """"all engines": an engine may hold input variables, output variables and rule blocks that are switched off
    (`enabled: false` is legal FLL).  The dataset is still the tabulation over all its inputs: a disabled input variable is a
    column of the grid like any other (the header names it, `v` values from minimum to maximum), a disabled output variable
    is a column of what the engine produces for it.  Exported with a selection of active variables (which may contain or leave
    out the disabled ones) and without one, through to_string_from_scope, write_from_scope and the default to_string."""
    rng = ctx.rng
    for i in range(ctx.scale(48, 400)):
        n = rng.randint(1, 4)
        scope = rng.choice(["all", "each"])
        v = rng.randint(1, 400) if scope == "all" else rng.randint(1, {1: 60, 2: 12, 3: 6, 4: 4}[n])
        off_in = [rng.random() < 0.45 for _ in range(n)]
        if i % 4 != 3 and not any(off_in):
            off_in[rng.randrange(n)] = True
        off_out = rng.choice([[False, False], [False, False], [True, False], [False, True]])
        off_blocks = rng.choice([[False], [False], [True, False], [False, True], [False, False]])
        # engines in which NO output variable receives a value per row - every output variable disabled, every rule block
        # disabled, or (an antecedent over a disabled input variable has degree 0) every input variable disabled - are
        # engines like any other: one row per grid point, the output columns holding the single value (nan) each variable
        # produces (F17: their export raised ValueError or printed a single row; `all(off_in)` is no longer excluded,
        # the other two corners are drawn below, after the older choices)
        off = {"inputs": off_in, "outputs": off_out, "blocks": off_blocks}
        active = None if i % 2 == 0 else [rng.random() < 0.7 for _ in range(n)]
        ins, outs = rng.choice([(True, True), (True, True), (True, False), (False, True)])
        case = {"n": n, "kind": rng.choice(["mamdani", "ts"]), "scope": scope, "v": v, "active": active,
                "sep": rng.choice([" ", ",", "\t", ";"]), "headers": rng.random() < 0.7, "inputs": ins, "outputs": outs,
                "decimals": rng.choice([1, 3, 6]), "reuse": rng.random() < 0.2, "disabled": off,
                "entry": rng.choice(["selection", "selection", "writer"])}
        if active is None and i % 12 == 0:
            case.update(entry="to_string", v=1024, scope="all", reuse=False)
        u = rng.random()
        if u < 0.3:
            corner = rng.choice(["outputs", "blocks", "outputs+blocks", "inputs"])
            if "outputs" in corner:
                off["outputs"] = [True, True]
            if "blocks" in corner:
                off["blocks"] = [True] * len(off["blocks"])
            if corner == "inputs":
                off["inputs"] = [True] * n
        yield case
    # the same corners with EVERY header / inputs / outputs switch, both scopes, with and without a selection (small grids)
    switches = [(h, ins, outs) for h in (True, False) for ins, outs in ((True, True), (True, False), (False, True))]
    corners = [{"outputs": [True, True]}, {"blocks": [True]}, {"blocks": [True, True]}, {"outputs": [True, True], "blocks": [True]},
               {"inputs": "all"}]
    for j in range(ctx.scale(30, 300)):
        n = rng.randint(1, 3)
        h, ins, outs = switches[j % len(switches)]
        off = dict(corners[(j // len(switches)) % len(corners)])
        kind = rng.choice(["mamdani", "ts"])
        if off.get("inputs") == "all":
            off["inputs"], kind = [True] * n, "mamdani"
        scope = rng.choice(["all", "each"])
        v = rng.randint(1, 60) if scope == "all" else rng.randint(1, {1: 20, 2: 6, 3: 4}[n])
        yield {"n": n, "kind": kind, "scope": scope, "v": v, "active": None if rng.random() < 0.5 else [rng.random() < 0.7 for _ in range(n)],
               "sep": rng.choice([" ", ",", "\t", ";"]), "headers": h, "inputs": ins, "outputs": outs, "decimals": rng.choice([1, 3, 6]),
               "reuse": False, "disabled": off, "entry": rng.choice(["selection", "selection", "writer"])}


def gen_readers(ctx):
    rng = ctx.rng
    for _ in range(ctx.scale(150, 1500)):
        n = rng.randint(1, 3)
        lines = []
        for _ in range(rng.randint(0, 10)):
            r = rng.random()
            if r < 0.15:
                lines.append("")
            elif r < 0.25:
                lines.append("   ")
            elif r < 0.4:
                lines.append(rng.choice(["# comment", "   # indented comment", "#1 2 3"]))
            else:
                row = " ".join(f"{rng.uniform(-2, 2):.4f}" for _ in range(n))
                lines.append(rng.choice(["", "  ", "\t"]) + row + rng.choice(["", " "]))
        yield {"reader": "\n".join(lines), "skip": rng.randint(0, 3), "n": n}


# "printed with the configured decimals": a numeral with d decimals is decided by the digits behind them, and the hard
# numbers are those whose next digit is a 5 followed by zeros in decimal while the double is a little more or less
# (1/80 = 0.0125 at 3 decimals, 0.45 at 1, 2.675 at 2) - next to the exact binary ties (0.125, 0.375), which go to the even
# digit.  Equidistant grids are full of them whenever range / (v - 1) is a short decimal: v - 1 = 20, 40, 80, 100, 200 ... on
# [0, 1], [0, 0.25], [-1, 1], [2, 10] ...  The random sizes above almost never give such a step, and their outputs never
# repeat such values; the `echo` engines below print the first input once more as an output.
TIE_RANGES = [(0.0, 1.0), (0.0, 0.25), (-1.0, 1.0), (0.0, 10.0), (-0.5, 0.5), (2.0, 10.0), (0.0, 0.1), (1.0, 2.0), (0.0, 100.0),
              (-5.0, -1.0)]
TIE_STEPS = [8, 16, 20, 40, 50, 80, 100, 160, 200, 250, 400, 500, 1000]


def tie_decimals(lo, hi, steps):
    """the numbers of decimals at which some of the first grid points lo + j (hi - lo) / steps lie half way between two numerals"""
    out = []
    for d in range(0, 7):
        for j in range(min(steps, 40) + 1):
            t = (Fr(lo) + j * (Fr(hi) - Fr(lo)) / steps) * 10 ** d * 2
            if t.denominator == 1 and t.numerator % 2 == 1:
                out.append(d)
                break
    return out


def gen_tie_grids(ctx):
    rng = ctx.rng
    base = {"scope": "each", "active": None, "sep": " ", "headers": True, "inputs": True, "outputs": True, "reuse": False}
    for v in (21, 41, 81, 101, 201):
        for d in (1, 2, 3, 4):
            yield dict(base, n=1, kind="echo", v=v, decimals=d, ranges=[[0.0, 1.0]])
    for _ in range(ctx.scale(40, 400)):
        n = rng.choice([1, 1, 2])
        ranges = [list(rng.choice(TIE_RANGES)) for _ in range(n)]
        steps = rng.choice(TIE_STEPS if n == 1 else TIE_STEPS[:4])
        scope = rng.choice(["each", "each", "all"])
        v = steps + 1 if scope == "each" else (steps + 1) ** n + rng.choice([0, 0, 1, 2])
        ds = sorted({d for lo, hi in ranges for d in tie_decimals(lo, hi, steps)})
        d = rng.choice(ds) if ds and rng.random() < 0.8 else rng.choice([0, 1, 2, 3, 4, 6])
        ins, outs = rng.choice([(True, True), (True, False), (False, True)])
        yield {"n": n, "kind": rng.choice(["echo", "echo", "mamdani", "ts"]), "scope": scope, "v": v,
               "active": None if rng.random() < 0.7 else [rng.random() < 0.8 for _ in range(n)],
               "sep": rng.choice([" ", ",", "\t", ";"]), "headers": rng.random() < 0.5, "inputs": ins, "outputs": outs,
               "decimals": d, "reuse": False, "ranges": ranges}


# "all reader contents ... x header/inputs/outputs switches x separators x decimals": the layout of the exported dataset is
# the exporter's, the reader's lines are the caller's.  Every switch, separator (also the non-blank ones) and number of
# decimals against readers of 1..4 input columns - the values of a line separated by blanks and tabs, with comments, blank
# lines, indentation, skipped header lines, with the output columns of a dataset that is read back behind the inputs - and
# with input values of the kind described above (short decimals whose next digit is a 5).
def gen_reader_exports(ctx):
    rng = ctx.rng
    for _ in range(ctx.scale(150, 1500)):
        n = rng.randint(1, 4)
        cols = n + rng.choice([0, 0, 0, 1, 2])
        d = rng.choice([0, 1, 2, 3, 4, 6, 9])
        ranges = [list(rng.choice(TIE_RANGES)) for _ in range(n)] if rng.random() < 0.5 else None

        def value(c):
            lo, hi = (ranges[c] if ranges else DEFAULT_RANGES[c]) if c < n else (0.0, 1.0)
            u = rng.random()
            if c >= n and u < 0.2:
                return "nan"
            if u < 0.5:                             # a grid point with a short decimal expansion
                steps = rng.choice(TIE_STEPS)
                return repr(float(Fr(lo) + rng.randint(0, steps) * (Fr(hi) - Fr(lo)) / steps))
            if u < 0.7:                             # 5 behind the printed decimals, as written by hand
                return f"{rng.uniform(lo, hi):.{min(d, 5)}f}5"
            if u < 0.85:
                return f"{rng.uniform(lo, hi):.4f}"
            return repr(rng.uniform(lo, hi))
        skip = rng.randint(0, 2)
        lines = []
        for li in range(rng.randint(1, 10)):
            r = rng.random()
            if li < skip and r < 0.6:
                lines.append(rng.choice(["in0 in1 out", "# header", "x,y;z", ""]))
            elif r < 0.12:
                lines.append(rng.choice(["", "   ", "\t"]))
            elif r < 0.25:
                lines.append(rng.choice(["# comment", "   # indented comment", "#1 2 3", "#0.5,0.5"]))
            else:
                gap = rng.choice([" ", " ", "\t", "  ", " \t "])
                lines.append(rng.choice(["", "", "  ", "\t"]) + gap.join(value(c) for c in range(cols)) + rng.choice(["", " ", "\r"]))
        ins, outs = rng.choice([(True, True), (True, True), (True, False), (False, True)])
        case = {"reader": "\n".join(lines), "skip": skip, "n": n, "kind": rng.choice(["mamdani", "ts", "echo"]),
                "sep": rng.choice([" ", "\t", ",", ";", ", ", " | ", "  "]), "decimals": d, "headers": rng.random() < 0.5,
                "inputs": ins, "outputs": outs}
        if ranges:
            case["ranges"] = ranges
        yield case


def correspond(ctx):
    st = ctx.stats
    mism = []

    def exports(cases, label=""):
        outs = ctx.driver.eval([model_line(c) for c in cases])
        for case, line in zip(cases, outs):
            st.count(f"scope-{case['scope']}-n{case['n']}{label}")
            if line in ("bad-op", "bad-parse"):
                mism.append({"case": case, "model": line, "what": "model rejected the export request"})
                continue
            model_rows = C.parse_sx(line)
            model_rows = [] if model_rows == "()" else model_rows
            bad = check_export(case, model_rows)
            st.case(repr(sorted(case.items())), len(model_rows) > 1 and case["n"] >= 2,
                    sample={"case": case, "rows": len(model_rows)} if case["n"] >= 3 and len(st.samples) < 4 else None)
            st.validated += 1
            if bad:
                mism.append({"case": case, "impl": bad, "model": f"{len(model_rows)} rows", "what": bad})
            ok, detail = oracle(case)
            if not ok:
                mism.append({"case": case, "violation": True, "detail": detail, "what": detail})
            if len(mism) > 12:
                break

    exports(list(gen_cases(ctx)))
    # integer root of the model against plain integer search, every v <= 2000, n <= 4 (model self-check)
    rl = [C.sx(["iroot", str(n), str(v)]) for n in (1, 2, 3, 4) for v in range(0, 2001, 1 if ctx.thorough else 7)]
    ro = ctx.driver.eval(rl)
    i = 0
    for n in (1, 2, 3, 4):
        for v in range(0, 2001, 1 if ctx.thorough else 7):
            if int(ro[i]) != iroot_py(n, v):
                mism.append({"case": {"n": n, "v": v}, "violation": False, "model": ro[i], "impl": iroot_py(n, v),
                             "what": "model iroot differs from integer search"})
            i += 1
    st.count("iroot-selfcheck", len(rl))
    # readers
    readers = list(gen_readers(ctx))
    outs = ctx.driver.eval([C.sx(["fld-reader", str(c["skip"]), [C.hexs(l) for l in c["reader"].split("\n")]]) for c in readers])
    for case, line in zip(readers, outs):
        st.count("reader")
        kept = C.parse_sx(line)
        kept = [] if kept == "()" else kept
        kept = [bytes.fromhex(k[1:]).decode() for k in kept]
        e = mk_engine(case["n"], "mamdani")
        exp = fl.FldExporter(headers=False, input_values=True, output_values=False)
        try:
            with fl.settings.context(decimals=4):
                text = exp.to_string_from_reader(e, io.StringIO(case["reader"]), skip_lines=case["skip"])
            rows = [l for l in text.split("\n") if l != ""]
        except Exception as ex:  # noqa: BLE001
            rows = f"raised {type(ex).__name__}: {ex}"
        want = [" ".join(f"{float(x):.4f}" for x in k.split()) for k in kept]
        nlines = len(case["reader"].split("\n"))
        st.case(("reader", case["reader"], case["skip"]), len(kept) < nlines and len(kept) > 0,
                sample={"reader": case["reader"], "skip": case["skip"], "kept": kept} if len(st.samples) < 6 else None)
        st.validated += 1
        if rows != want and not (not kept and isinstance(rows, str)):
            mism.append({"case": case, "impl": rows, "model": want, "what": f"reader export {rows} differs from the model's kept lines {want}"})
        ok, detail = oracle(case) if kept else (True, "")
        if not ok:
            mism.append({"case": case, "violation": True, "detail": detail, "what": detail})
    # the control flow of FldExporter.write against Op.Fld.write (model of the code tie), both on a recording stub
    mism += S_WRITE.run(ctx)
    # engines with disabled input variables / output variables / rule blocks, with and without a selection of active
    # variables (drawn last: the streams above are the same as before for a seed)
    exports(list(gen_disabled_cases(ctx)), label="-disabled")
    # grids and outputs whose values lie half way between two printed numerals, then readers against every layout of the
    # exported dataset (drawn after everything else)
    exports(list(gen_tie_grids(ctx)), label="-ties")
    readers = list(gen_reader_exports(ctx))
    outs = ctx.driver.eval([C.sx(["fld-reader", str(c["skip"]), [C.hexs(l) for l in c["reader"].split("\n")]]) for c in readers])
    for case, line in zip(readers, outs):
        if len(mism) > 12:
            break
        st.count("reader-layout")
        kept = C.parse_sx(line)
        kept = [] if kept == "()" else kept
        kept = [bytes.fromhex(k[1:]).decode() for k in kept]
        want = reader_rows(case)
        st.case(("reader-layout", case["reader"], case["skip"], case["sep"], case["decimals"], case["headers"], case["inputs"],
                 case["outputs"]), len(want) > 0 and (len(want[0]) >= 2 or case["outputs"]))
        st.validated += 1
        if [[repr(float(x)) for x in k.split()] for k in kept] != [[repr(x) for x in w] for w in want]:
            mism.append({"case": case, "impl": want, "model": kept, "what": f"the model keeps the lines {kept}, the harness reads the data lines {want}"})
            continue
        ok, detail = oracle(case)
        if not ok:
            mism.append({"case": case, "violation": True, "detail": detail, "what": detail})
    # the same readers handed over after their owner has read the first one or two lines (no new random draw)
    for i, case in enumerate(readers):
        if i % 3 or len(mism) > 12 or case["reader"].count("\n") < 3:
            continue
        # ... and tabulated by an engine whose outputs hold their previous value where no rule fires (lock-previous): the rows
        # are processed in the order given, repeated and unsorted rows included
        c3 = dict(case, kind="locked", outputs=True)
        st.count("reader-locked")
        ok, detail = oracle(c3)
        if not ok:
            mism.append({"case": c3, "violation": True, "detail": detail, "what": detail})
        c2 = dict(case, consumed=1 + (i // 3) % 2)
        st.count("reader-consumed")
        ok, detail = oracle(c2)
        if not ok:
            mism.append({"case": c2, "violation": True, "detail": detail + f" (the first {c2['consumed']} line(s) of the reader had been read before it was handed over)", "what": detail})
    return mism


def search(ctx):
    for case in gen_cases(ctx):
        ok, d = oracle(case)
        if not ok:
            return [(case, d)]
    for case in gen_readers(ctx):
        ok, d = oracle(case)
        if not ok:
            return [(case, d)]
    for case in gen_disabled_cases(ctx):
        ok, d = oracle(case)
        if not ok:
            return [(case, d)]
    for case in list(gen_tie_grids(ctx)) + list(gen_reader_exports(ctx)):
        ok, d = oracle(case)
        if not ok:
            return [(case, d)]
    return []
