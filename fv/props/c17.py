"""C17 — Function formulas follow the documented precedence and associativity (DESIGN.md section 8, C06/C17)."""
from __future__ import annotations

import glob
import json
import math
import os
from fractions import Fraction as Fr

import numpy as np

import common as C
import fuzzylite as fl

PID = "C17"
MODULES = ["FlVerif.Props.C17"]
NAMESPACE = "C17"
TIE_A = ["code:fuzzylite.term.Function.infix_to_postfix", "code:fuzzylite.term.Function.parse",
         "code:fuzzylite.term.Function.Node.evaluate", "code:fuzzylite.term.Function.evaluate", "code:fuzzylite.term.Function.membership"]
TIE_A += ["code:fuzzylite.factory.ConstructionFactory.construct", "code:fuzzylite.factory.CloningFactory.copy",
          "code:fuzzylite.factory.FunctionFactory.operators", "code:fuzzylite.factory.FunctionFactory.functions",
          "code:fuzzylite.factory.FunctionFactory._precedence"]
TIE_A += ["code:fuzzylite.term.Function.format_infix", "code:fuzzylite.term.Function.Node.value",
          "code:fuzzylite.term.Function.Node.prefix", "code:fuzzylite.term.Function.Node.infix",
          "code:fuzzylite.term.Function.Node.postfix"]
RULE = ("typed expression trees to depth 5 over all 13 operators, all 34 functions/constants, literals and 1-3 engine / term "
        "variables and x, written with minimal | random redundant | full parentheses and random spacing, evaluated on "
        "scalars and on arrays (mixed with scalars); ill-formed variants (operand deleted, arity changed, parenthesis "
        "deleted/inserted); term variables that clash with x or an engine variable; random token soups.  Non-trivial: "
        "the formula contains at least two operators/functions and the model produced a tree; distinct = distinct "
        "(text, values)")
RULE += (" Family `shared` (drawn after `literals`): trees over one or two names, so that every variable recurs, with the unary operators "
         ".+ .- ~ (abs floor) directly on the variables, on float64 arrays of the result's shape (2-6 rows, some variables scalar), through "
         "Function.membership (engine values, x) and Function.evaluate (the caller's map).  On EVERY successful evaluation of the stream: "
         "the values handed in are unchanged afterwards, a second evaluation on the same objects gives the same result and does not rewrite "
         "the array returned first.")
RULE += (" Family `literals` (drawn last): clusters of decimal literals that agree in their first 3..11 decimals (with duplicates and "
         "re-spellings) in scaled differences, linear combinations, ratios and random trees with a repeated sub-expression (copied as it "
         "is or with neighbouring literals); value against NumPy on the tree and against the exact model; rows whose value moves when "
         "every literal moves to a neighbouring double are skipped and counted.")
ASSUMPTIONS = ["float evaluation compared with the exact value within 1e-9 abs+rel; points where a discontinuous element "
               "(floor ceil round % fmod relations and/or/! domain edges, division by ~0) receives an inexactly computed "
               "argument within 1e-7 of its discontinuity, overflowing intermediates (>1e150) and numerically unstable "
               "formulas (perturbation test) are skipped and counted",
               "literals are non-negative decimals (a sign is an operator), variable names are identifiers that are not "
               "element names"]
LEVEL_TEXT = ("Lean theorems, parametric in the element table and instantiated on the table regenerated from FunctionFactory "
              "(table_wellFormed, precedence_table by kernel evaluation): sy_correct - for EVERY expression tree and EVERY "
              "writing of it with at least the necessary and any number of redundant parentheses the shunting-yard loop "
              "returns the tree's postfix form; parsePostfix_postfix / parse_print - Function.parse of any writing is the "
              "tree; postfix_roundtrip / loaded_postfix_roundtrip - for every tree, and for the tree of EVERY accepted token "
              "list, parsing its postfix form gives the tree back and tree value = reverse-Polish value for any "
              "interpretation; rejection for EVERY "
              "token list: operand balance != 1 (missing operand, wrong arity) and #( != #) are SyntaxErrors "
              "(reject_operand_balance, reject_missing_operand, reject_wrong_arity, reject_unbalanced_parenthesis); "
              "membership_rejects_name_clash.  Correspondence: the same executable definitions (character-level "
              "format_infix, loop, stack machine, evaluation at exact rationals) against Function.create / membership.")
LEVEL_NOTE = ("Carried by the correspondence only: the NumPy meaning of each element (the model's X-algebra definitions of "
              "+ - * / % ^ ** pow fmod floor ceil round abs min max relations logic exp log log10 log1p sqrt sin cos tan "
              "sinh cosh tanh pi are compared at exact rationals through the 2^-128 fixed-point oracle; acos asin atan "
              "atan2 acosh asinh atanh are uninterpreted in the model: for them the postfix/tree structure is compared and "
              "the model's tree is evaluated with NumPy by the harness); elementwise evaluation on arrays (rows are sent "
              "to the model one by one); the character-level scanner format_infix is modelled and compared but has no "
              "theorem; exception classes.  Trusted: Lean kernel, standard axioms, tolerance 1e-9, Fn.rat, CPython float().")
TECHNIQUE = ("Lean 4 proof of the shunting-yard / postfix stack machine for all trees and writings over the regenerated element "
             "table + differential run of the executable model against Function.create/membership")

# ------------------------------------------------------------------------------------------------ documented table
# level: 6 = tightest.  (name: (level, right_assoc, arity))
DOC_OPS = {"!": (6, True, 1), "~": (6, True, 1),
           "^": (5, True, 2), "**": (5, True, 2), ".-": (5, True, 1), ".+": (5, True, 1),
           "*": (4, False, 2), "/": (4, False, 2), "%": (4, False, 2),
           "+": (3, False, 2), "-": (3, False, 2),
           "and": (2, False, 2), "or": (1, False, 2)}
FN1 = ["abs", "acos", "acosh", "asin", "asinh", "atan", "atanh", "ceil", "cos", "cosh", "exp", "fabs", "floor", "log",
       "log10", "log1p", "round", "sin", "sinh", "sqrt", "tan", "tanh"]
FN2 = ["atan2", "fmod", "max", "min", "pow"]
REL = ["eq", "ge", "gt", "le", "lt", "neq"]
FN0 = ["pi"]
ALL_FN = FN0 + FN1 + FN2 + REL
FP = 7


def lvl(name):
    if name in DOC_OPS:
        p, r, _ = DOC_OPS[name]
        return 2 * p + (1 if r else 0), 2 * p
    return 2 * FP, 2 * FP


def is_op(name):
    return name in DOC_OPS


# ------------------------------------------------------------------------------------------------ documented meaning
def _ind(f):
    return lambda a, b: np.asarray(f(np.asarray(a, dtype=float), np.asarray(b, dtype=float)), dtype=float)


def _eqn(a, b):
    return np.isclose(a, b, rtol=0, atol=0, equal_nan=True)


NP1 = {"!": np.logical_not, "~": np.negative, ".-": np.negative, ".+": np.positive, "abs": np.fabs, "fabs": np.fabs,
       "acos": np.arccos, "acosh": np.arccosh, "asin": np.arcsin, "asinh": np.arcsinh, "atan": np.arctan,
       "atanh": np.arctanh, "ceil": np.ceil, "cos": np.cos, "cosh": np.cosh, "exp": np.exp, "floor": np.floor,
       "log": np.log, "log10": np.log10, "log1p": np.log1p, "round": np.round, "sin": np.sin, "sinh": np.sinh,
       "sqrt": np.sqrt, "tan": np.tan, "tanh": np.tanh}
NP2 = {"+": np.add, "-": np.subtract, "*": np.multiply, "/": np.true_divide, "%": np.remainder, "^": np.float_power,
       "**": np.float_power, "pow": np.float_power, "fmod": np.fmod, "atan2": np.arctan2, "min": np.minimum,
       "max": np.maximum, "and": np.logical_and, "or": np.logical_or,
       "gt": _ind(lambda a, b: a > b), "lt": _ind(lambda a, b: a < b),
       "ge": _ind(lambda a, b: (a >= b) | _eqn(a, b)), "le": _ind(lambda a, b: (a <= b) | _eqn(a, b)),
       "eq": _ind(_eqn), "neq": _ind(lambda a, b: ~_eqn(a, b))}
TRANSC = {"acos", "acosh", "asin", "asinh", "atan", "atanh", "cos", "cosh", "exp", "log", "log10", "log1p", "sin", "sinh",
          "sqrt", "tan", "tanh", "atan2", "pow", "^", "**"}
TOL = 1e-7


class Flags:
    def __init__(self):
        self.fragile = None
        self.big = False


def _near_int(v):
    return abs(v - round(v)) < TOL * (1 + abs(v))


def leaf_value(tok, env):
    try:
        return float(tok), True
    except ValueError:
        return env[tok], False


def doc_eval(t, env, fl_: Flags):
    """documented value of a tree on one row (floats) -> (value, inexact); records fragile points in fl_"""
    with np.errstate(all="ignore"):
        if t[0] == "leaf":
            v, lit = leaf_value(t[1], env)
            inexact = False
            if lit and math.isfinite(v):
                try:
                    inexact = Fr(t[1].replace("_", "")) != Fr(v)
                except ValueError:
                    inexact = False
            return np.float64(v), inexact
        name = t[0]
        if len(t) == 1:
            return np.float64(np.pi), True
        if len(t) == 2:
            a, ia = doc_eval(t[1], env, fl_)
            v = NP1[name](a)
            af = float(a)
            if ia and math.isfinite(af):
                if name in ("floor", "ceil") and _near_int(af):
                    fl_.fragile = name
                if name == "round" and _near_int(af - 0.5):
                    fl_.fragile = name
                if name in ("sqrt", "log", "log10") and abs(af) < TOL:
                    fl_.fragile = name
                if name == "log1p" and abs(af + 1) < TOL:
                    fl_.fragile = name
                if name in ("acos", "asin", "atanh") and abs(abs(af) - 1) < TOL:
                    fl_.fragile = name
                if name == "acosh" and abs(af - 1) < TOL:
                    fl_.fragile = name
                if name == "!" and abs(af) < TOL:
                    fl_.fragile = name
            if name == "tan" and math.isfinite(float(v)) and abs(float(v)) > 1e6:
                fl_.fragile = "tan-pole"
            if name in ("sin", "cos", "tan") and math.isfinite(af) and abs(af) > (1e5 if ia else 1e15):
                fl_.fragile = "trig-of-huge-argument"
            inexact = ia or name in TRANSC
            if math.isfinite(float(v)) and abs(float(v)) > 1e150:
                fl_.big = True
            if math.isinf(float(v)) and math.isfinite(af) and name in ("exp", "sinh", "cosh"):
                fl_.big = True          # float overflow; the model has no overflow
            return v, inexact
        a, ia = doc_eval(t[1], env, fl_)
        b, ib = doc_eval(t[2], env, fl_)
        v = NP2[name](a, b)
        af, bf = float(a), float(b)
        ine = ia or ib
        fin = math.isfinite(af) and math.isfinite(bf)
        if name in ("and", "or") and ((ia and abs(af) < TOL) or (ib and abs(bf) < TOL)):
            fl_.fragile = name
        # the model has no signed zero: the sign of x/0 and 0**(negative) depends on it
        if name == "/" and bf == 0:
            fl_.fragile = "signed-zero"
        if name in ("^", "**", "pow") and af == 0 and bf < 0:
            fl_.fragile = "signed-zero"
        if ine and fin:
            if name in REL and abs(af - bf) < TOL * (1 + abs(af) + abs(bf)):
                fl_.fragile = name
            if name in ("%", "fmod"):
                if abs(bf) < TOL or _near_int(af / bf):
                    fl_.fragile = name
            if name == "/" and ib and abs(bf) < TOL:
                fl_.fragile = name
            if name in ("^", "**", "pow"):
                if (ia and abs(af) < TOL) or (af < 0 and ib) or (ib and abs(bf) < TOL):
                    fl_.fragile = name
            if name == "atan2" and ((ia and abs(af) < TOL) or (ib and abs(bf) < TOL)):
                fl_.fragile = name
        if name in ("^", "**", "pow") and ia and abs(abs(af) - 1) < TOL and not math.isfinite(bf):
            fl_.fragile = name
        if math.isinf(float(v)) and math.isfinite(af) and math.isfinite(bf) and (
                name in ("+", "-", "*") or (name in ("^", "**", "pow") and af != 0)):
            fl_.big = True              # float overflow; the model has no overflow
        inexact = ine or name in TRANSC
        if not inexact and name in ("+", "-", "*", "/") and fin and math.isfinite(float(v)):
            fa, fb = Fr(af), Fr(bf)
            try:
                ex = {"+": fa + fb, "-": fa - fb, "*": fa * fb, "/": (fa / fb) if fb != 0 else None}[name]
            except ZeroDivisionError:
                ex = None
            inexact = ex is None or ex != Fr(float(v))
        if math.isfinite(float(v)) and abs(float(v)) > 1e150:
            fl_.big = True
        return v, inexact


# ------------------------------------------------------------------------------------------------ trees and writings
def postfix_of(t):
    if t[0] == "leaf":
        return [t[1]]
    out = []
    for c in t[1:]:
        out += postfix_of(c)
    return out + [t[0]]


def show_tok(tok):
    """Node.postfix() prints constants with Op.str"""
    try:
        return fl.Op.str(float(tok))
    except ValueError:
        return tok


def writing(t, a, b, rng=None, p=0.0, full=False):
    """tokens of the tree in context (a, b): minimal parentheses, plus redundant ones with probability p / all"""
    if rng is not None and p > 0 and rng.random() < p:
        return ["("] + writing(t, 0, 0, rng, p, full) + [")"]
    if t[0] == "leaf":
        return [t[1]]
    name = t[0]
    L, R = lvl(name)
    if len(t) == 1:
        return ["(", name, ")"] if (R < b or full) else [name]
    if is_op(name):
        need = full or L < a or R < b
        if len(t) == 2:
            if need:
                return ["(", name] + writing(t[1], R + 1, 0, rng, p, full) + [")"]
            return [name] + writing(t[1], R + 1, b, rng, p, full)
        if need:
            return ["("] + writing(t[1], 0, L, rng, p, full) + [name] + writing(t[2], R + 1, 0, rng, p, full) + [")"]
        return writing(t[1], a, L, rng, p, full) + [name] + writing(t[2], R + 1, b, rng, p, full)
    out = [name, "("]
    for i, c in enumerate(t[1:]):
        if i:
            out.append(",")
        out += writing(c, 0, 0, rng, p, full)
    return out + [")"]


def wordy(c):
    return c.isalnum() or c in "_."


def join_tokens(toks, rng=None):
    out = []
    for i, t in enumerate(toks):
        if i:
            # words must stay apart; a literal ending in "." followed by + or - would read as the operator .+ / .-
            need = (wordy(out[-1][-1]) and wordy(t[0])) or (out[-1][-1] == "." and t[0] in "+-")
            if rng is None:
                out.append(" ")
            elif need:
                out.append(rng.choice([" ", "  ", "\t"]))
            else:
                out.append(rng.choice(["", "", " ", "  "]))
        out.append(t)
    s = "".join(out)
    if rng is not None and rng.random() < 0.2:
        s = " " + s + "  "
    return s


LITS = ["0", "1", "2", "3", "4", "7", "10", "0.5", "0.25", "1.5", "2.5", "0.1", "0.75", "1e2", "2.", "1_0"]
ENGINE_NAMES = ["a", "b", "c", "in1", "speed"]
OUT_NAMES = ["out1", "power"]
TERM_NAMES = ["k", "gain"]
ARITH1 = [".-", ".+", "~"]
ARITH2 = ["+", "-", "*", "/", "%", "^", "**"]


def gen_num(rng, depth, names):
    r = rng.random()
    if depth <= 0 or r < 0.18:
        q = rng.random()
        if q < 0.5:
            return ["leaf", rng.choice(names)]
        if q < 0.93:
            return ["leaf", rng.choice(LITS)]
        return ["pi"]
    if r < 0.30:
        return [rng.choice(ARITH1), gen_num(rng, depth - 1, names)]
    if r < 0.58:
        return [rng.choice(ARITH2), gen_num(rng, depth - 1, names), gen_num(rng, depth - 1, names)]
    if r < 0.78:
        return [rng.choice(FN1), gen_num(rng, depth - 1, names)]
    if r < 0.88:
        return [rng.choice(FN2), gen_num(rng, depth - 1, names), gen_num(rng, depth - 1, names)]
    return [rng.choice(REL), gen_num(rng, depth - 1, names), gen_num(rng, depth - 1, names)]


def gen_bool(rng, depth, names):
    """truth-valued: and / or / ! over truth values or numbers"""
    def operand():
        return gen_bool(rng, depth - 1, names) if depth > 1 and rng.random() < 0.5 else gen_num(rng, depth - 1, names)
    if rng.random() < 0.3:
        return ["!", operand()]
    return [rng.choice(["and", "or"]), operand(), operand()]


def gen_tree(rng, names):
    depth = rng.choice([1, 2, 2, 3, 3, 4, 4, 5])
    if rng.random() < 0.2:
        return gen_bool(rng, depth, names)
    return gen_num(rng, depth, names)


SCALARS = [-3.0, -2.0, -1.5, -1.0, -0.5, 0.0, 0.25, 0.5, 1.0, 1.5, 2.0, 3.0, 4.0]


def gen_value(rng):
    r = rng.random()
    if r < 0.45:
        return rng.choice(SCALARS)
    if r < 0.95:
        return rng.uniform(-4, 4)
    return rng.choice([math.nan, math.inf, -math.inf])


def size_of(t):
    return 0 if t[0] == "leaf" else 1 + sum(size_of(c) for c in t[1:])


def elements_of(t, acc=None):
    acc = set() if acc is None else acc
    if t[0] != "leaf":
        acc.add(t[0])
        for c in t[1:]:
            elements_of(c, acc)
    return acc


# ------------------------------------------------------------------------------------------------ implementation side
def errkind(ex):
    if isinstance(ex, RecursionError):
        return "INTERNAL:RecursionError"
    if isinstance(ex, SyntaxError):
        return "syntax"
    if isinstance(ex, ValueError):
        return "value"
    if isinstance(ex, LookupError):
        return "lookup"
    if isinstance(ex, RuntimeError):
        return "runtime"
    return "INTERNAL:" + type(ex).__name__


def dec(v):
    """json value -> float / array"""
    if isinstance(v, list):
        return np.array([float(u) for u in v], dtype=float)
    return float(v)


def nrows(case):
    n = 1
    for v in list(case["evars"].values()) + [case["x"]]:
        if isinstance(v, list):
            n = max(n, len(v))
    return n


def row_env(case, i):
    def at(v):
        return float(v[i]) if isinstance(v, list) else float(v)
    ev = {k: at(v) for k, v in case["evars"].items()}
    return ev, at(case["x"])


def run_impl(case):
    """-> dict(load=kind|'ok', postfix, value=list of floats per row | None, err=kind of membership)"""
    out = {"load": "ok", "postfix": None, "value": None, "err": None, "msg": None}
    outs = set(case.get("outs", []))
    ivs = [fl.InputVariable(n) for n in case["evars"] if n not in outs]
    ovs = [fl.OutputVariable(n) for n in case["evars"] if n in outs]
    engine = fl.Engine("e", input_variables=ivs, output_variables=ovs)
    for v in ivs + ovs:
        v.value = dec(case["evars"][v.name])
        if v.name in case.get("disabled", ()):
            # a variable that is switched off still HAS its value: a formula that mentions it reads that value
            v.enabled = False
    try:
        f = fl.Function.create("f", case["text"], engine)
    except Exception as ex:  # noqa: BLE001
        out["load"] = errkind(ex)
        out["msg"] = str(ex)[:200]
        return out
    out["postfix"] = f.root.postfix().split()
    f.variables = {k: float(v) for k, v in case["fvars"].items()}
    x_in = dec(case["x"])
    if case.get("route") == "evaluate":
        # Function.evaluate(variables): the caller's own map of values (the function is not attached to an engine)
        f = fl.Function.create("f", case["text"])
        vmap = {k: dec(v) for k, v in case["evars"].items()}
        vmap["x"] = x_in
        vmap.update({k: float(v) for k, v in case["fvars"].items()})
        handed = dict(vmap)

        def call():
            return f.evaluate(vmap)

        def current(name):
            return vmap[name]
    else:
        handed = {v.name: v.value for v in ivs + ovs}
        handed["x"] = x_in
        by_name = {v.name: v for v in ivs + ovs}

        def call():
            return f.membership(x_in)

        def current(name):
            return x_in if name == "x" else by_name[name].value
    before = {k: np.array(v, dtype=float, copy=True) for k, v in handed.items()}
    try:
        with np.errstate(all="ignore"):
            y = call()
        n = nrows(case)
        arr = np.asarray(y, dtype=float)
        if arr.ndim == 0:
            arr = np.full(n, float(arr))
        if arr.shape != (n,):
            out["err"] = f"shape {arr.shape} for {n} rows"
        else:
            out["value"] = [float(u) for u in arr]
    except Exception as ex:  # noqa: BLE001
        out["err"] = errkind(ex)
        out["msg"] = f"{type(ex).__name__}: {str(ex)[:200]}"
    # "evaluated as ordinary mathematics": evaluating a formula is a computation FROM the values of its variables - it leaves
    # the values handed in as they were (the engine's input / output values, the array passed as x, the caller's map), so a
    # second evaluation on the same objects gives the same result, and an array returned earlier is not rewritten by it
    # (the operands of fv/layouts.py are watched in the same way).  Observed on every evaluation that succeeded.
    if out["value"] is not None:
        try:
            first = np.array(y, dtype=float, copy=True)
            changed = [k for k in sorted(before) if not np.array_equal(before[k], np.asarray(current(k), dtype=float), equal_nan=True)]
            if changed:
                k = changed[0]
                out["aliasing"] = (f"evaluating the formula changed the value of the variable '{k}' that was handed in: "
                                   f"{np.asarray(current(k), dtype=float).tolist()!r} afterwards, {before[k].tolist()!r} before")
            else:
                with np.errstate(all="ignore"):
                    again = np.asarray(call(), dtype=float)
                if again.shape != first.shape or not np.array_equal(again, first, equal_nan=True):
                    out["aliasing"] = (f"a second evaluation on the same variables gives {again.tolist()!r}, the first one gave "
                                       f"{first.tolist()!r}")
                elif not np.array_equal(np.asarray(y, dtype=float), first, equal_nan=True):
                    out["aliasing"] = (f"the array returned by the first evaluation ({first.tolist()!r}) was rewritten by the second "
                                       f"one to {np.asarray(y, dtype=float).tolist()!r}")
                else:
                    changed = [k for k in sorted(before) if not np.array_equal(before[k], np.asarray(current(k), dtype=float), equal_nan=True)]
                    if changed:
                        out["aliasing"] = f"the second evaluation changed the value of the variable '{changed[0]}' that was handed in"
        except Exception as ex:  # noqa: BLE001
            out["aliasing"] = f"second evaluation on the same variables: {type(ex).__name__}: {str(ex)[:160]}"
    # a history: the engine's variables are replaced by NEW objects of the same names holding other values (and one
    # variable is appended); the function, already evaluated once, must resolve to the engine's CURRENT variables,
    # exactly like a function created afterwards
    if out["value"] is not None and case.get("route") != "evaluate":
        try:
            def shifted(v):
                return [u + 1.0 for u in v] if isinstance(v, list) else v + 1.0
            engine.input_variables = [fl.InputVariable(v.name) for v in ivs] + [fl.InputVariable("zz_added")]
            engine.output_variables = [fl.OutputVariable(v.name) for v in ovs]
            for v in engine.variables:
                v.value = dec(shifted(case["evars"][v.name])) if v.name in case["evars"] else 0.0
            with np.errstate(all="ignore"):
                y2 = np.asarray(f.membership(dec(case["x"])), dtype=float)
                g = fl.Function.create("g", case["text"], engine)
                g.variables = dict(f.variables)
                y3 = np.asarray(g.membership(dec(case["x"])), dtype=float)
            if y2.shape != y3.shape or not np.allclose(y2, y3, rtol=1e-12, atol=0, equal_nan=True):
                out["stale"] = f"after replacing the engine's variables the loaded function gives {y2.tolist()!r}, a function created on the modified engine gives {y3.tolist()!r}"
        except Exception as ex:  # noqa: BLE001
            out["stale"] = f"after replacing the engine's variables: {type(ex).__name__}: {str(ex)[:160]}"
    return out


def values_close(a, b):
    """two floats, same class and within tolerance"""
    ca, cb = C.cls_of(a), C.cls_of(b)
    if ca != "fin" or cb != "fin":
        return ca == cb
    return abs(a - b) <= 1e-9 + 1e-9 * abs(b)


def unstable(case, i):
    """perturbation test on the implementation: does a relative 1e-12 change of the variables move the result?"""
    base = run_impl(case)
    if base["value"] is None:
        return False
    for s in (1 + 1e-12, 1 - 1e-12):
        c2 = json.loads(json.dumps(case))
        c2["evars"] = {k: ([u * s for u in v] if isinstance(v, list) else v * s) for k, v in case["evars"].items()}
        c2["x"] = [u * s for u in case["x"]] if isinstance(case["x"], list) else case["x"] * s
        c2["fvars"] = {k: v * s for k, v in case["fvars"].items()}
        r = run_impl(c2)
        if r["value"] is None:
            return True
        a, b = base["value"][i], r["value"][i]
        if C.cls_of(a) != C.cls_of(b) or (C.cls_of(a) == "fin" and abs(a - b) > 1e-10 + 1e-10 * abs(a)):
            return True
    return False


def key(case):
    return f"{case.get('kind')}:{case.get('text')}"


def oracle(case):
    """property oracle on the real implementation, replayable from the JSON case"""
    r = run_impl(case)
    kind = case["kind"]
    if r["load"].startswith("INTERNAL") or (r["err"] or "").startswith("INTERNAL"):
        return False, f"internal error on '{case['text']}': load={r['load']} membership={r['err']} ({r['msg']})"
    if kind == "illformed":
        if r["load"] not in ("syntax", "value"):
            return False, (f"ill-formed formula ({case.get('defect')}) '{case['text']}' was not rejected when loaded: "
                           f"load={r['load']} postfix={r['postfix']}")
        return True, "rejected"
    if kind == "clash":
        if r["load"] != "ok":
            return False, f"well-formed formula '{case['text']}' rejected: {r['load']} {r['msg']}"
        if r["err"] != "value":
            return False, (f"term variables {sorted(case['fvars'])} clash with engine variables {sorted(case['evars'])} / x "
                           f"but membership did not raise ValueError: err={r['err']} value={r['value']}")
        return True, "clash rejected"
    if kind == "soup":
        return True, "no documented expectation for a token soup (model comparison only)"
    # well-formed formula written from a tree
    tree = case["tree"]
    if r["load"] != "ok":
        return False, f"well-formed formula '{case['text']}' rejected when loaded: {r['load']} ({r['msg']})"
    exp_pf = [show_tok(t) for t in postfix_of(tree)]
    if r["postfix"] != exp_pf:
        return False, f"'{case['text']}' read as {' '.join(r['postfix'])}, documented reading {' '.join(exp_pf)}"
    if r["value"] is None:
        return False, f"'{case['text']}' did not evaluate: {r['err']} ({r['msg']})"
    if r.get("stale"):
        return False, f"'{case['text']}' does not resolve its variables to the engine's current values: {r['stale']}"
    if r.get("aliasing"):
        return False, (f"'{case['text']}' with {'the map' if case.get('route') == 'evaluate' else 'the engine values'} "
                       f"{json.dumps(case['evars'])} x={case['x']}: {r['aliasing']}")
    for i in range(nrows(case)):
        ev, x = row_env(case, i)
        env = dict(ev)
        env["x"] = x
        env.update({k: float(v) for k, v in case["fvars"].items()})
        flg = Flags()
        v, _ = doc_eval(tree, env, flg)
        if flg.fragile or flg.big:
            continue
        v = float(v)
        if not values_close(r["value"][i], v):
            if math.isinf(r["value"][i]) or math.isinf(v) or unstable(case, i):
                continue
            if case.get("family") == "literals" and literal_sensitive(tree, env):
                continue
            return False, (f"'{case['text']}' at row {i} {env}: implementation {r['value'][i]!r}, documented value {v!r}")
    return True, "ok"


def shrink(case):
    """smallest sub-formula (minimal writing, single spaces) on which the property oracle still fails"""
    if case.get("kind") != "wf" or not case.get("tree"):
        return case
    best = case
    budget = 150
    improved = True
    while improved and budget > 0:
        improved = False
        tree = best["tree"]
        cands = [c for c in tree[1:]] if tree[0] != "leaf" else []
        plain = dict(best, text=join_tokens(writing(tree, 0, 0)), style="min")
        for cand in [plain] + [dict(best, tree=c, text=join_tokens(writing(c, 0, 0)), style="min") for c in cands]:
            budget -= 1
            if cand["text"] == best["text"] and cand["tree"] == best["tree"]:
                continue
            try:
                ok, _ = oracle(cand)
            except Exception:  # noqa: BLE001
                ok = True
            if not ok:
                best = cand
                improved = True
                break
    return best


# ------------------------------------------------------------------------------------------------ generators
def gen_env(rng, tree_names, arrays):
    """engine variables (inputs and outputs), term variables, x"""
    n = 3 if arrays else 1

    def val():
        if arrays and rng.random() < 0.7:
            return [gen_value(rng) for _ in range(n)]
        return gen_value(rng)
    evars, fvars, outs = {}, {}, []
    for nm in tree_names:
        if nm == "x":
            continue
        if nm in TERM_NAMES:
            fvars[nm] = gen_value(rng)
        else:
            evars[nm] = val()
            if nm in OUT_NAMES:
                outs.append(nm)
    x = val()
    if arrays and not any(isinstance(v, list) for v in list(evars.values()) + [x]):
        x = [gen_value(rng) for _ in range(n)]
    return evars, fvars, outs, x


def leaves_of(t, acc=None):
    acc = [] if acc is None else acc
    if t[0] == "leaf":
        acc.append(t[1])
    else:
        for c in t[1:]:
            leaves_of(c, acc)
    return acc


def is_number(tok):
    try:
        float(tok)
        return True
    except ValueError:
        return False


def make_wf(rng):
    k = rng.choice([1, 2, 2, 3])
    names = rng.sample(ENGINE_NAMES + OUT_NAMES + TERM_NAMES, k) + ["x"]
    tree = gen_tree(rng, names)
    used = sorted({t for t in leaves_of(tree) if not is_number(t)})
    arrays = rng.random() < 0.4
    evars, fvars, outs, x = gen_env(rng, used, arrays)
    style = rng.choice(["min", "min", "rand", "rand", "full"])
    if style == "min":
        toks = writing(tree, 0, 0)
    elif style == "rand":
        toks = writing(tree, 0, 0, rng, rng.choice([0.1, 0.3]))
    else:
        toks = writing(tree, 0, 0, full=True)
    text = join_tokens(toks, rng if rng.random() < 0.7 else None)
    return {"kind": "wf", "style": style, "tree": tree, "text": text, "evars": evars, "fvars": fvars, "outs": outs, "x": x}


# "numeric literals" of the quantifier are decimal numerals of any length: a formula may hold several literals that differ only
# far behind the point (coefficients such as 1.0004 and 1.0001, break points 0.3331 and 0.3334), the same literal twice, the same
# number written in two ways, and sub-expressions that are equal or equal up to such a literal.  Every literal keeps its own
# value whatever the others are ("evaluated as ordinary mathematics"); texts derived from the tree (postfix, infix) print
# constants rounded to 3 decimals, so these formulas are the ones on which any step that goes through such a text loses
# information.
LITERAL_BASES = ["0.333", "1.000", "0.125", "2.500", "0.999", "1.250", "0.500", "3.141", "0.000", "1.999"]


def literal_cluster(rng):
    """literals that agree with one another in their first 3 .. 11 decimals, with duplicates and re-spellings"""
    base = rng.choice(LITERAL_BASES)
    j = rng.randrange(4, 13)                      # the first decimal in which they differ
    lits = []
    while len(lits) < rng.choice([2, 2, 3, 4]):
        s = base + "0" * (j - 4) + str(rng.randrange(1, 10)) + (str(rng.randrange(1, 10)) if rng.random() < 0.3 else "")
        if s not in lits:
            lits.append(s)
    if rng.random() < 0.3 and base != "0.000":
        lits.append(base)                          # the 3-decimal numeral itself
    if rng.random() < 0.4:
        lits.append(rng.choice(lits))              # the same literal once more
    if rng.random() < 0.3:
        lits.append(rng.choice(lits) + "0")        # the same number spelled with a trailing zero
    rng.shuffle(lits)
    return lits, j


def subtrees(t, path=()):
    yield path, t
    if t[0] != "leaf":
        for i, c in enumerate(t[1:], 1):
            yield from subtrees(c, path + (i,))


def replaced(t, path, new):
    if not path:
        return new
    t = list(t)
    t[path[0]] = replaced(t[path[0]], path[1:], new)
    return t


def make_literals(rng):
    """a well-formed formula (kind `wf`, family `literals`) over a cluster of close literals: scaled differences, linear
    combinations, ratios, and random trees whose literal leaves are taken from the cluster and in which a sub-expression is
    repeated - as it is, or with its literals exchanged for their neighbours"""
    lits, j = literal_cluster(rng)
    k = rng.choice([1, 2, 2, 3])
    names = rng.sample(ENGINE_NAMES + OUT_NAMES + TERM_NAMES, k) + ["x"]

    def lit(i):
        return ["leaf", lits[i % len(lits)]]

    def var():
        return ["leaf", rng.choice(names)]
    r = rng.random()
    if r < 0.2:
        # the difference of two literals, scaled so that a difference in the 12th decimal is far above the tolerance while
        # the rounding of the two literals (below 4.5e-16 each) stays far below it
        tree = ["*", ["-", lit(0), lit(1)], ["leaf", rng.choice(["1000", "10000", "1e4"])]]
        if rng.random() < 0.5:
            tree = ["+", tree, var()]
    elif r < 0.4:
        tree = [rng.choice(["-", "+"]), ["*", lit(0), var()], ["*", lit(1), var()]]
        if rng.random() < 0.5:
            tree = ["+", tree, ["*", var(), lit(2)]]
    elif r < 0.5:
        tree = ["/", ["-", var(), lit(0)], ["-", lit(1), lit(0)]]
    elif r < 0.6:
        tree = ["+", ["*", lit(0), ["^", var(), ["leaf", "2"]]], ["*", lit(1), var()]]
    else:
        tree = gen_num(rng, rng.choice([2, 3, 3, 4]), names)
        i = 0
        for path, sub in list(subtrees(tree)):
            if sub[0] == "leaf" and is_number(sub[1]) and rng.random() < 0.8:
                tree = replaced(tree, path, lit(rng.randrange(len(lits))))
                i += 1
        if i < 2:
            tree = [rng.choice(["+", "-", "*"]), tree, ["*", lit(0), ["-", var(), lit(1)]]]
    if rng.random() < 0.5:
        # a repeated sub-expression: a copy of a sub-tree (literals kept, or exchanged for other members of the cluster)
        # takes the place of another sub-tree or is combined with the whole
        subs = [(p_, t_) for p_, t_ in subtrees(tree) if t_[0] != "leaf" and size_of(t_) <= 4]
        if subs:
            _, s0 = rng.choice(subs)
            copy_ = json.loads(json.dumps(s0))
            if rng.random() < 0.6:
                for path, sub in list(subtrees(copy_)):
                    if sub[0] == "leaf" and sub[1] in lits:
                        copy_ = replaced(copy_, path, lit(rng.randrange(len(lits))))
            spots = [p_ for p_, t_ in subtrees(tree) if p_ and t_ is not s0]
            if spots and rng.random() < 0.5:
                tree = replaced(tree, rng.choice(spots), copy_)
            else:
                tree = [rng.choice(["-", "/", "+", "*"]), tree, copy_]
    used = sorted({t for t in leaves_of(tree) if not is_number(t)})
    arrays = rng.random() < 0.4
    evars, fvars, outs, x = gen_env(rng, used, arrays)
    style = rng.choice(["min", "min", "rand", "full"])
    toks = writing(tree, 0, 0) if style == "min" else writing(tree, 0, 0, rng, 0.2) if style == "rand" else writing(tree, 0, 0, full=True)
    text = join_tokens(toks, rng if rng.random() < 0.7 else None)
    return {"kind": "wf", "family": "literals", "first_differing_decimal": j, "style": style, "tree": tree, "text": text,
            "evars": evars, "fvars": fvars, "outs": outs, "x": x}


# "variables resolve to the engine's current input/output values, the term's own variables and x, and array operands are
# evaluated elementwise": a variable may occur any number of times in a formula, every occurrence stands for the same value,
# and the unary operators .+ .- ~ ! apply to a variable as to any other operand.  In the random trees above a variable rarely
# occurs twice and is rarely the direct operand of a unary operator; the values are lists of three rows at most mixed with
# scalars.  This family draws trees over ONE or TWO names (so every name recurs), puts unary operators directly on the
# variables (also stacked), gives every variable a float64 array of the shape of the result (2..6 rows; some variables stay
# scalars) and evaluates through both entries: Function.membership (engine values and x) and Function.evaluate (the caller's
# map).  run_impl watches what a functional model cannot see: the arrays handed in are the same afterwards and a second
# evaluation agrees with the first.
UNARY_ON_VARIABLE = [".+", ".-", "~", ".+", ".-", "abs", "floor"]


def gen_shared(rng, depth, names):
    if depth <= 0 or rng.random() < 0.2:
        if rng.random() < 0.85:
            t = ["leaf", rng.choice(names)]
            while rng.random() < 0.4:
                t = [rng.choice(UNARY_ON_VARIABLE), t]
            return t
        return ["leaf", rng.choice(LITS)]
    r = rng.random()
    if r < 0.12:
        return [rng.choice(ARITH1), gen_shared(rng, depth - 1, names)]
    if r < 0.70:
        return [rng.choice(ARITH2), gen_shared(rng, depth - 1, names), gen_shared(rng, depth - 1, names)]
    if r < 0.78:
        return [rng.choice(FN1), gen_shared(rng, depth - 1, names)]
    if r < 0.92:
        return [rng.choice(FN2), gen_shared(rng, depth - 1, names), gen_shared(rng, depth - 1, names)]
    return [rng.choice(REL), gen_shared(rng, depth - 1, names), gen_shared(rng, depth - 1, names)]


def make_shared(rng):
    """a well-formed formula (kind `wf`, family `shared`) in which the variables recur and are direct operands of unary
    operators, on float64 arrays of the result's shape, through membership or evaluate"""
    names = rng.choice([["x"], [rng.choice(ENGINE_NAMES), "x"], [rng.choice(ENGINE_NAMES + OUT_NAMES)],
                        rng.sample(ENGINE_NAMES + OUT_NAMES, 2), [rng.choice(ENGINE_NAMES), rng.choice(TERM_NAMES), "x"]])
    while True:
        tree = gen_shared(rng, rng.choice([1, 2, 2, 3, 3, 4]), names)
        if rng.random() < 0.1:                    # a truth value as the final result only
            tree = [rng.choice(["and", "or"]), tree, gen_shared(rng, rng.choice([0, 1, 2]), names)]
        leaves = [t for t in leaves_of(tree) if not is_number(t)]
        if len(leaves) > len(set(leaves)):        # some variable occurs at least twice
            break
    used = sorted(set(leaves))
    n = rng.choice([2, 3, 4, 6])
    evars, fvars, outs = {}, {}, []
    for nm in used:
        if nm == "x":
            continue
        if nm in TERM_NAMES:
            fvars[nm] = gen_value(rng)
        else:
            evars[nm] = [gen_value(rng) for _ in range(n)] if rng.random() < 0.85 else gen_value(rng)
            if nm in OUT_NAMES:
                outs.append(nm)
    x = [gen_value(rng) for _ in range(n)] if rng.random() < 0.85 else gen_value(rng)
    if not any(isinstance(v, list) for v in list(evars.values()) + [x]):
        x = [gen_value(rng) for _ in range(n)]
    style = rng.choice(["min", "min", "rand", "full"])
    toks = writing(tree, 0, 0) if style == "min" else writing(tree, 0, 0, rng, 0.2) if style == "rand" else writing(tree, 0, 0, full=True)
    text = join_tokens(toks, rng if rng.random() < 0.5 else None)
    return {"kind": "wf", "family": "shared", "route": rng.choice(["membership", "evaluate"]), "style": style, "tree": tree,
            "text": text, "evars": evars, "fvars": fvars, "outs": outs, "x": x}


def literal_sensitive(tree, env):
    """family `literals` only: does moving every literal to a neighbouring double move the (NumPy) value of the tree by
    more than 1e-10?  Then the float result says nothing about the formula (cancellation of the literals' own rounding)"""
    def moved(t, up, k=[0]):
        if t[0] == "leaf":
            if is_number(t[1]):
                k[0] += 1
                d = math.inf if (up if up in (True, False) else (k[0] % 2 == up[0])) else -math.inf
                return ["leaf", repr(float(np.nextafter(float(t[1].replace("_", "")), d)))]
            return t
        return [t[0]] + [moved(c, up, k) for c in t[1:]]
    try:
        base = float(doc_eval(tree, env, Flags())[0])
        for up in (True, False, (0,), (1,)):
            v = float(doc_eval(moved(tree, up, [0]), env, Flags())[0])
            if C.cls_of(v) != C.cls_of(base) or (C.cls_of(v) == "fin" and abs(v - base) > 1e-10 + 1e-10 * abs(base)):
                return True
    except Exception:  # noqa: BLE001
        return True
    return False


def make_illformed(rng):
    base = make_wf(rng)
    toks = writing(base["tree"], 0, 0, rng, 0.15)
    defect = rng.choice(["operand", "arity", "paren"])
    t2 = None
    if defect == "operand":
        idx = [i for i, t in enumerate(toks) if t not in ("(", ")", ",") and t not in DOC_OPS and t not in ALL_FN]
        if idx:
            i = rng.choice(idx)
            t2 = toks[:i] + toks[i + 1:]
    elif defect == "arity":
        idx = [i for i, t in enumerate(toks) if t in FN1 + FN2 + REL]
        if idx:
            i = rng.choice(idx)
            other = rng.choice(FN1) if toks[i] in FN2 + REL else rng.choice(FN2 + REL)
            t2 = toks[:i] + [other] + toks[i + 1:]
        else:
            idx = [i for i, t in enumerate(toks) if t in DOC_OPS and DOC_OPS[t][2] == 2]
            if idx:
                i = rng.choice(idx)
                t2 = toks[:i] + [rng.choice(["!", "~", ".-"])] + toks[i + 1:]
                defect = "arity-op"
    if t2 is None:
        defect = "paren"
        idx = [i for i, t in enumerate(toks) if t in ("(", ")")]
        if idx and rng.random() < 0.6:
            i = rng.choice(idx)
            t2 = toks[:i] + toks[i + 1:]
        else:
            i = rng.randrange(len(toks) + 1)
            t2 = toks[:i] + [rng.choice(["(", ")"])] + toks[i:]
    if not t2:
        t2 = ["("]
    base.update({"kind": "illformed", "defect": defect, "text": join_tokens(t2), "tree": None})
    return base


def make_clash(rng):
    base = make_wf(rng)
    for k, v in list(base["evars"].items()):
        if isinstance(v, list):
            base["evars"][k] = v[0]
    if isinstance(base["x"], list):
        base["x"] = base["x"][0]
    how = rng.choice(["term-x", "engine-x", "override"])
    if how == "term-x":
        base["fvars"]["x"] = 1.0
    elif how == "engine-x":
        base["evars"]["x"] = 2.0
    else:
        nm = rng.choice(sorted(base["evars"])) if base["evars"] else "a"
        base["evars"].setdefault(nm, 1.0)
        base["fvars"][nm] = 0.5
    base.update({"kind": "clash", "how": how})
    return base


SOUP = ["a", "b", "x", "1", "2.5", "(", ")", ",", "+", "-", "*", "/", "^", "**", ".-", "!", "~", "%", "and", "or", "sin",
        "max", "pi", "pow", "eq", "floor"]


def make_soup(rng):
    n = rng.randrange(1, 9)
    toks = [rng.choice(SOUP) for _ in range(n)]
    return {"kind": "soup", "text": join_tokens(toks), "tree": None, "evars": {"a": 1.5, "b": -2.0}, "fvars": {},
            "outs": [], "x": 0.5}


def corpus():
    out = []
    for p in sorted(glob.glob(os.path.join(C.VERIF, "corpus", PID, "*.json"))):
        d = json.load(open(p))
        out.append(d.get("case", d))
    return out


def cases(ctx):
    rng = ctx.rng
    cs = corpus()
    nw = ctx.scale(6000, 60000)
    cs += [make_wf(rng) for _ in range(nw)]
    cs += [make_illformed(rng) for _ in range(nw // 4)]
    cs += [make_clash(rng) for _ in range(nw // 12)]
    cs += [make_soup(rng) for _ in range(nw // 5)]
    cs += [make_literals(rng) for _ in range(nw // 10)]       # drawn last: the families above are unchanged for a seed
    cs += [make_shared(rng) for _ in range(nw // 10)]         # drawn after them
    return cs


def model_line(case):
    def b(d):
        return [[C.hexs(k), v] for k, v in d.items()]
    rows = []
    for i in range(nrows(case)):
        ev, x = row_env(case, i)
        rows.append([b(ev), x])
    return C.sx(["c17", C.hexs(case["text"]), b({k: float(v) for k, v in case["fvars"].items()}), rows])


def tree_of_model(sx):
    """model tree S-expression -> harness tree"""
    if sx[0] == "leaf":
        return ["leaf", sx[1]]
    return [sx[0]] + [tree_of_model(c) for c in sx[1:]]


def correspond(ctx):
    st = ctx.stats
    mism = []
    cs = cases(ctx)
    outs = ctx.driver.eval([model_line(c) for c in cs])
    n_or = 0
    for case, o in zip(cs, outs):
        kind = case["kind"]
        st.count(kind if kind != "illformed" else f"illformed-{case.get('defect')}")
        if o in ("bad-op", "bad-parse"):
            mism.append({"case": case, "model": o, "what": "driver could not read the case"})
            continue
        m = C.parse_sx(o)
        r = run_impl(case)
        nt = m[0] == "ok" and case.get("tree") is not None and size_of(case["tree"]) >= 2
        st.case((case["text"], json.dumps(case["evars"], sort_keys=True), str(case["x"])), nt,
                sample={"text": case["text"], "impl_postfix": " ".join(r["postfix"] or []), "impl": r["value"],
                        "model": o[:160]} if kind == "wf" and nt else None)
        bad = None
        if kind == "soup" and r["load"] == "ok":
            # an accepted soup need not be well typed (truth values under arithmetic): structure only
            r["err"], r["value"] = None, None
        if r["load"].startswith("INTERNAL") or (r["err"] or "").startswith("INTERNAL"):
            bad = f"internal error: load={r['load']} membership={r['err']} ({r['msg']})"
        elif m[0] == "err":
            st.count("model-rejects")
            if r["load"] != m[1]:
                bad = f"model rejects with {m[1]}, implementation load={r['load']} ({r['msg']})"
        else:
            if r["load"] != "ok":
                bad = f"model accepts, implementation load={r['load']} ({r['msg']})"
            else:
                mpf = [show_tok(t) for t in (m[1] if isinstance(m[1], list) else [m[1]])]
                if mpf != r["postfix"]:
                    bad = f"postfix: model {' '.join(mpf)} / implementation {' '.join(r['postfix'])}"
                else:
                    mtree = tree_of_model(m[2])
                    for i, mv in enumerate(m[3] if kind != "soup" else []):
                        ev, x = row_env(case, i)
                        env = dict(ev)
                        env["x"] = x
                        env.update({k: float(v) for k, v in case["fvars"].items()})
                        if isinstance(mv, list) and mv[0] == "err":
                            if r["err"] != mv[1]:
                                bad = f"row {i}: model raises {mv[1]}, implementation err={r['err']} value={r['value']}"
                            break
                        if r["value"] is None:
                            bad = f"row {i}: model evaluates, implementation err={r['err']} ({r['msg']})"
                            break
                        iv = r["value"][i]
                        flg = Flags()
                        try:
                            dv, _ = doc_eval(mtree, env, flg)
                            dv = float(dv)
                        except KeyError:
                            dv = None
                        if flg.fragile or flg.big:
                            st.skipped_fragile += 1
                            continue
                        ok = True
                        if mv == "unk":
                            st.count("uninterpreted-in-model")
                            ok = dv is not None and values_close(iv, dv)
                        else:
                            ex = C.parse_x(mv[1]) if mv[0] == "num" else Fr(int(mv[1]))
                            if isinstance(ex, Fr) and abs(ex) > Fr(10) ** 150:
                                st.skipped_fragile += 1
                                continue
                            ok = C.close(iv, ex)
                            st.validated += 1
                        if not ok:
                            if (math.isinf(iv) and mv != "unk" and C.cls_of(ex) == "fin") or unstable(case, i):
                                st.skipped_fragile += 1
                                continue
                            if case.get("family") == "literals" and literal_sensitive(mtree, env):
                                st.skipped_fragile += 1
                                continue
                            bad = (f"row {i} {env}: implementation {iv!r}, model "
                                   f"{mv if mv == 'unk' else (float(ex) if isinstance(ex, Fr) else ex)!r}, "
                                   f"NumPy on the model's tree {dv!r}")
                            break
        if bad is None and kind == "wf" and r.get("aliasing"):
            bad = r["aliasing"]     # the values handed in were changed / a second evaluation differs (seen by run_impl)
        if bad:
            ok, detail = oracle(case)
            if not ok:
                small = shrink(case)
                ok2, detail2 = oracle(small)
                mism.append({"case": small if not ok2 else case, "violation": True,
                             "detail": detail2 if not ok2 else detail, "what": bad, "model": o[:300]})
            else:
                mism.append({"case": case, "impl": {k: r[k] for k in ("load", "postfix", "value", "err")},
                             "model": o[:300], "what": bad})
        # property oracle on a sub-stream (all ill-formed / clash cases, a third of the well-formed ones)
        if bad is None and (kind in ("illformed", "clash") or (kind == "wf" and (n_or % 3 == 0 or case.get("family")))):
            ok, detail = oracle(case)
            st.count("oracle")
            if not ok:
                small = shrink(case)
                ok2, detail2 = oracle(small)
                mism.append({"case": small if not ok2 else case, "violation": True,
                             "detail": detail2 if not ok2 else detail, "what": detail2 if not ok2 else detail})
        n_or += 1
        if len(mism) > 25:
            break
    # the same well-formed formulas over engines whose variables are switched off (`enabled = False`): the value of a formula is
    # a function of the values of its variables, whatever else is configured on them (no new random draw)
    k = 0
    for case in cs:
        if case["kind"] != "wf" or not case["evars"] or case.get("route") == "evaluate" or len(mism) > 25:
            continue
        k += 1
        if k % 5:
            continue
        names = sorted(case["evars"])
        c2 = dict(case, disabled=names if (k // 5) % 2 else names[:1])
        ok0, _ = oracle(case)
        ok, detail = oracle(c2)
        st.count("disabled-variables")
        if ok0 and not ok:
            mism.append({"case": c2, "violation": True, "detail": detail + f" (engine variables {c2['disabled']} are disabled)",
                         "what": detail})
    return mism


def search(ctx):
    rng = ctx.rng
    for c in corpus() + [make_wf(rng) for _ in range(ctx.scale(3000, 20000))] + \
            [make_illformed(rng) for _ in range(1000)] + [make_clash(rng) for _ in range(300)] + \
            [make_literals(rng) for _ in range(ctx.scale(600, 3000))] + [make_shared(rng) for _ in range(ctx.scale(600, 3000))]:
        ok, d = oracle(c)
        if not ok:
            return [(c, d)]
    return []
