"""C09 — Integral defuzzifiers return the defined point of the sampled fuzzy set (DESIGN.md section 8, C09)."""
from __future__ import annotations

import glob
import itertools
import json
import math
import os
import sys
from fractions import Fraction as Fr

import numpy as np

import common as C
import fuzzylite as fl
from props import c04
from streams import midpoints as S_MID

sys.set_int_max_str_digits(0)  # exact results of long sums have thousands of digits

PID = "C09"
MODULES = ["FlVerif.Props.C09"]
NAMESPACE = "C09"

POLY = ["Triangle", "Trapezoid", "Rectangle", "Ramp", "SShape", "ZShape", "PiShape", "Binary", "Concave"]
TRANS = ["Gaussian", "Bell", "Sigmoid", "Cosine", "Spike", "GaussianProduct", "SigmoidDifference", "SigmoidProduct"]
TIE_A = (["Norm."] + [f"Term.{c}.membership" for c in POLY + TRANS]
         + ["code:fuzzylite.operation.Op.midpoints", "code:fuzzylite.term.Activated.membership",
            "code:fuzzylite.term.Aggregated.membership"]
         + [f"code:fuzzylite.defuzzifier.{c}.defuzzify" for c in
            ("Centroid", "Bisector", "SmallestOfMaximum", "MeanOfMaximum", "LargestOfMaximum")])
RULE = ("5 integral defuzzifiers x resolution {1,2,3,5,10,100, random <= 100, in the thorough tier also random <= 1000} x aggregated sets of 0-5 "
        "activated shape terms x ranges (unit, symmetric, translated, tiny, large) x scalar and batch degrees (incl. 0, 1, "
        "NaN/inf degrees). Family 'dyadic': sample points, parameters, heights and degrees on dyadic grids (float arithmetic "
        "is exact), all 7x9 implication/aggregation pairs, plateaus, equal maxima, symmetric sets, gaps. Family 'general': "
        "decimal/random parameters, also Gaussian/Bell/Sigmoid/Cosine/Spike/product terms, continuous norms only. Arc and "
        "SemiEllipse are left to C03 (F1/F2). A case is non-trivial when some result is finite; distinct = distinct input")
RULE += (" Stream `midpoints` (fv/streams/midpoints.py): Op.midpoints at resolutions 1..5 (and 7, 16, 100) on reversed, empty, infinite and NaN ranges against Op.Integral.midpoints.")
RULE += (" Family `shared term`: sets of both families in which 1-3 further activations hold the SAME term object as an earlier one (rules sharing a consequent), each with its own scalar / batch degree, the dyadic ones under each of the 7x9 implication x aggregation pairs in turn: the set is the aggregation of the implied terms activation by activation.")
RULE += (" Family `declared range`: the sets of both families held in Aggregated objects whose own (minimum, maximum) is NaN, equal to, wider / narrower than, shifted against, disjoint from the range handed to defuzzify, half-NaN, infinite, reversed or a point (it stays put when terms and range are translated): the sampled set and all five points depend on the range of the call only.")
ASSUMPTIONS = ["the model evaluates the memberships at the float sample points the implementation computed (Op.midpoints is "
               "compared separately against the exact midpoints)",
               "numbers: 1e-9 abs+rel; tie-sensitive results (Bisector arg-min set, max-plateau): the implementation may "
               "resolve ties among the points whose exact score is within 1e-9 of the optimum – Bisector: mean of a union of "
               "classes of equal cumulative membership; maxima: the plateau of the implementation's own membership values, "
               "which must lie inside the exact eps-plateau",
               "cases with a nilpotent norm whose float operands are within 1e-9 of its threshold a+b=1 without being short "
               "dyadic numbers are skipped as fragile (counted); likewise HamacherSum aggregation with operands whose product is "
               "within 1e-6 of 1 (its float formula cancels catastrophically there: HamacherSum(1, 1-2^-53) = 2.0)"]
LEVEL_TEXT = ("Lean theorems over every ordered field, for sample lists of any length: Op.midpoints = documented midpoints, "
              "strictly inside the range, translation; the array code of the five defuzzifiers (nancumsum / normalise / "
              "abs(.-1/2) / mask of minima / nanmean; (y>0)&(y==max) masks with nanmin/nanmean/nanmax; sum(xy)/sum(y)) equals "
              "the documented point (op_eq_spec x5); results in [min,max]; SOM<=MOM<=LOM; NaN iff all memberships zero (x5); "
              "centroid moves by c under translation; Bisector's chosen points minimise |cum_i/total-1/2|; a batch = the "
              "per-row sets. Correspondence: implementation vs the executable model at exact rationals.")
LEVEL_NOTE = ("Trusted: Lean kernel, standard axioms, Mathlib, tracer (term memberships, norms), harness, Fn.rat. Carried "
              "only by the correspondence: np.sum order and float ties (tolerance and tie rule), NumPy broadcasting / "
              "squeeze of batches, ValueError for missing operators.")
TECHNIQUE = ("Lean 4 proof (list inductions over ordered fields) about a code-shaped model of defuzzifier.py + differential run "
             "against the Lean driver at exact rationals, memberships through definitions regenerated from term.py")

DEFUZZ = ["Centroid", "Bisector", "SmallestOfMaximum", "MeanOfMaximum", "LargestOfMaximum"]
TN = ["AlgebraicProduct", "BoundedDifference", "DrasticProduct", "EinsteinProduct", "HamacherProduct", "Minimum",
      "NilpotentMinimum"]
SN = ["AlgebraicSum", "BoundedSum", "DrasticSum", "EinsteinSum", "HamacherSum", "Maximum", "NilpotentMaximum",
      "NormalizedSum", "UnboundedSum"]
TN_CONT = ["AlgebraicProduct", "BoundedDifference", "EinsteinProduct", "HamacherProduct", "Minimum"]
SN_CONT = ["AlgebraicSum", "BoundedSum", "EinsteinSum", "HamacherSum", "Maximum", "NormalizedSum", "UnboundedSum"]
# indices of the parameters that are positions on the x axis (move with a translation)
POS = {"Triangle": [0, 1, 2], "Trapezoid": [0, 1, 2, 3], "Rectangle": [0, 1], "Ramp": [0, 1], "SShape": [0, 1],
       "ZShape": [0, 1], "PiShape": [0, 1, 2, 3], "Binary": [0], "Concave": [0, 1], "Gaussian": [0], "Bell": [0],
       "Sigmoid": [0], "Cosine": [0], "Spike": [0], "GaussianProduct": [0, 2], "SigmoidDifference": [0, 3],
       "SigmoidProduct": [0, 3]}
EPS = Fr(1, 10 ** 9)


# ------------------------------------------------------------------------------------------ the implementation

def batch_size(case):
    b = [len(a["deg"]) for a in case["acts"] if isinstance(a["deg"], list)]
    return max(b) if b else 1


def is_batch(case):
    return any(isinstance(a["deg"], list) for a in case["acts"])


def fl_num(v):
    if isinstance(v, str):
        return {"nan": math.nan, "inf": math.inf, "-inf": -math.inf}[v]
    return float(v)


def build(case, row=None, shift=0.0):
    fm = fl.settings.factory_manager
    terms = []
    for i, a in enumerate(case["acts"]):
        ps = [fl_num(p) for p in a["params"]]
        if shift:
            ps = [p + shift if j in POS[a["cls"]] else p for j, p in enumerate(ps)]
        term = getattr(fl, a["cls"])(f"t{i}", *ps, height=float(a["h"]))
        if a.get("same") is not None:
            # two rules with the same consequent: this activation holds the very term OBJECT of an earlier activation
            # (RuleBlock activation appends Activated(variable.term(name), degree, implication) for every such rule)
            term = terms[int(a["same"])].term
        d = a["deg"]
        if isinstance(d, list):
            d = fl_num(d[row]) if row is not None else np.array([fl_num(v) for v in d], dtype=float)
        else:
            d = fl_num(d)
        terms.append(fl.Activated(term, d, fm.tnorm.construct(a["impl"]) if a["impl"] else None))
    agg = fm.snorm.construct(case["agg"]) if case["agg"] else None
    if "declared" in case:
        # the Aggregated object carries its own (minimum, maximum); the fuzzy set "over [min, max]" of the property is the one
        # sampled over the range GIVEN TO defuzzify, so the attributes may say anything (and stay put under a translation)
        dlo, dhi = (fl_num(v) for v in case["declared"])
        return fl.Aggregated("out", dlo, dhi, agg, terms)
    return fl.Aggregated("out", float(case["lo"]) + shift, float(case["hi"]) + shift, agg, terms)


def run(case, name, row=None, shift=0.0):
    """-> list of floats (one per set) | error kind"""
    with np.errstate(all="ignore"):
        try:
            r = int(case["r"])
            if r % 2 == 1:
                # a history (every other resolution): the defuzzifier object has been used over the same range at another
                # resolution, then `resolution` is assigned; the result must be the point for the CURRENT resolution
                d = getattr(fl, name)(r + 3 if r < 100 else 7)
                d.defuzzify(build(case, row, shift), float(case["lo"]) + shift, float(case["hi"]) + shift)
                d.resolution = r
            else:
                d = getattr(fl, name)(r)
            v = d.defuzzify(build(case, row, shift), float(case["lo"]) + shift, float(case["hi"]) + shift)
            return [float(t) for t in np.atleast_1d(np.asarray(v, dtype=float)).ravel()]
        except ValueError:
            return "value-error"
        except Exception as ex:  # noqa: BLE001
            return f"error:{type(ex).__name__}"


def sample_points(case, shift=0.0):
    return np.asarray(fl.Op.midpoints(float(case["lo"]) + shift, float(case["hi"]) + shift, int(case["r"])), dtype=float)


def memberships(case, row, x, shift=0.0):
    """membership values of the row-th set at the sample points (floats), or an error kind"""
    with np.errstate(all="ignore"):
        try:
            y = np.asarray(build(case, row, shift).membership(x), dtype=float)
        except ValueError:
            return "value-error"
    return np.broadcast_to(y, x.shape).astype(float)


# ------------------------------------------------------------------------------------------ closed forms (Fractions)

def frs(a):
    return [Fr(float(v)) for v in a]


def closed_forms(x, y):
    """documented results from sample points and memberships, exact; tie information for the bisector"""
    X, Y = frs(x), frs(y)
    out = {}
    tot = sum(Y)
    out["Centroid"] = (sum(a * b for a, b in zip(X, Y)) / tot) if tot != 0 else "nan"
    m = max(Y) if Y else Fr(0)
    if m > 0:
        S = [i for i, v in enumerate(Y) if v == m]
        pts = [X[i] for i in S]
        out["SmallestOfMaximum"], out["LargestOfMaximum"] = min(pts), max(pts)
        out["MeanOfMaximum"] = sum(pts) / len(pts)
    else:
        out["SmallestOfMaximum"] = out["LargestOfMaximum"] = out["MeanOfMaximum"] = "nan"
    if tot != 0:
        cum, acc = [], Fr(0)
        for v in Y:
            acc += v
            cum.append(acc)
        sc = [abs(c / tot - Fr(1, 2)) for c in cum]
        best = min(sc)
        T = [i for i, s in enumerate(sc) if s == best]
        out["Bisector"] = sum(X[i] for i in T) / len(T)
        classes = []
        for i, s in enumerate(sc):
            if s <= best + EPS:
                if classes and classes[-1][0] == cum[i]:
                    classes[-1][1].append(i)
                else:
                    classes.append((cum[i], [i]))
        out["_classes"] = [c[1] for c in classes]
    else:
        out["Bisector"] = "nan"
        out["_classes"] = []
    return out


def tie_candidates(X, classes):
    """means of the unions of tie classes (the float arg-min set is a union of classes of equal cumulative value)"""
    if len(classes) > 6:
        pts = [X[i] for c in classes for i in c]
        return None, (min(pts), max(pts))
    cands = []
    for k in range(1, len(classes) + 1):
        for sub in itertools.combinations(classes, k):
            idx = [i for c in sub for i in c]
            cands.append(sum(X[i] for i in idx) / len(idx))
    return cands, None


def bisector_ok(v, exact, X, classes):
    if C.close(v, exact):
        return True, "exact"
    if C.cls_of(v) != "fin" or len(classes) < 2:
        return False, "no tie"
    cands, interval = tie_candidates(X, classes)
    if cands is None:
        lo, hi = interval
        return (lo - Fr(1, 10 ** 9) * (1 + abs(lo)) <= Fr(v) <= hi + Fr(1, 10 ** 9) * (1 + abs(hi))), "interval"
    return any(C.close(v, c) for c in cands), "classes"


def documented_set(case, row, x):
    """mu(x) = (+)_i d_i (x) mu_i(x) with the documented norm formulas (exact, on the float term memberships)"""
    y = [Fr(0)] * len(x)
    for i, a in enumerate(case["acts"]):
        ps = [fl_num(p) for p in a["params"]]
        term = getattr(fl, a["cls"])(f"t{i}", *ps, height=float(a["h"]))
        with np.errstate(all="ignore"):
            mu = np.broadcast_to(np.asarray(term.membership(x), dtype=float), x.shape)
        d = a["deg"][row] if isinstance(a["deg"], list) else a["deg"]
        d = fl_num(d)
        d = Fr(0) if (d != d or d == -math.inf) else Fr(1) if d == math.inf else Fr(d)
        T, S = c04.T[a["impl"]], c04.S[case["agg"]]
        y = [S(u, T(d, Fr(float(m)))) for u, m in zip(y, mu)]
    return y


# ------------------------------------------------------------------------------------------ property oracle

def key(case):
    if case.get("stream"):
        return case["stream"]
    return (f"fam={case.get('fam')};r={case.get('r')};batch={batch_size(case) if is_batch(case) else 0};"
            f"terms={len(case.get('acts', []))};agg={case.get('agg')}"
            + (f";declared={case.get('rel')}" if "declared" in case else "")
            + (f";shared={sum(1 for a in case['acts'] if a.get('same') is not None)}" if case.get("fam2") == "shared term" else ""))


def tol(case):
    return 1e-9 * (1.0 + abs(float(case["lo"])) + abs(float(case["hi"])))


def oracle(case):
    """direct predicate on the implementation: closed forms, range, order, NaN, batch, translation"""
    if case.get("stream"):
        return S_MID.oracle(case)      # Op.midpoints at small resolutions and unusual ranges
    lo, hi, r = float(case["lo"]), float(case["hi"]), int(case["r"])
    x = sample_points(case)
    if x.shape != (r,):
        return False, f"Op.midpoints returned shape {x.shape} for resolution {r}"
    for i, v in enumerate(x):
        pos = (Fr(float(v)) - Fr(lo)) / (Fr(hi) - Fr(lo))
        if abs(pos - Fr(2 * i + 1, 2 * r)) > Fr(1, 10 ** 9):
            return False, f"sample point {i} = {v!r} is not the midpoint of cell {i} of {r} in [{lo}, {hi}]"
    B = batch_size(case)
    batch = {n: run(case, n) for n in DEFUZZ} if is_batch(case) else None
    t = tol(case)
    for b in range(B):
        y = memberships(case, b if is_batch(case) else None, x)
        res = {n: run(case, n, row=b if is_batch(case) else None) for n in DEFUZZ}
        if isinstance(y, str):
            for n in DEFUZZ:
                if res[n] != y:
                    return False, f"{n}: the set raises {y} but defuzzify gives {res[n]!r}"
            continue
        for n in DEFUZZ:
            if isinstance(res[n], str) or len(res[n]) != 1:
                return False, f"{n}: expected one value for one set, got {res[n]!r}"
        if np.any(y < 0) or not np.all(np.isfinite(y)):
            continue
        if case["acts"] and not fragile(case, x):
            try:
                doc = documented_set(case, b if is_batch(case) else None, x)
            except ZeroDivisionError:
                doc = None
            if doc is not None:
                for j, (u, w) in enumerate(zip(y, doc)):
                    if not C.close(float(u), w):
                        return False, (f"membership of the aggregated set at sample point {j} is {float(u)!r}, the documented "
                                       f"aggregation of the implied terms gives {float(w)!r} (set {b})")
        cf = closed_forms(x, y)
        X = frs(x)
        for n in DEFUZZ:
            v = res[n][0]
            if n == "Bisector":
                ok, _ = bisector_ok(v, cf[n], X, cf["_classes"])
            else:
                ok = C.close(v, cf[n])
            if not ok:
                want = cf[n] if isinstance(cf[n], str) else float(cf[n])
                return False, f"{n} = {v!r}, the documented point of the sampled set is {want!r} (set {b})"
            allzero = bool(np.all(y == 0))
            if math.isnan(v) != allzero:
                return False, f"{n} = {v!r} but all memberships zero is {allzero} (set {b})"
            if not math.isnan(v) and not (lo - t <= v <= hi + t):
                return False, f"{n} = {v!r} outside [{lo}, {hi}] (set {b})"
        s, m, l = res["SmallestOfMaximum"][0], res["MeanOfMaximum"][0], res["LargestOfMaximum"][0]
        if not math.isnan(s) and not (s <= m + t and m <= l + t):
            return False, f"SOM <= MOM <= LOM fails: {s!r}, {m!r}, {l!r} (set {b})"
        if batch is not None:
            for n in DEFUZZ:
                bv = batch[n]
                if isinstance(bv, str) or len(bv) != B:
                    return False, (f"{n}: a batch of {B} sets gives {bv!r} – not one result per set "
                                   f"(set {b} alone gives {res[n][0]!r})")
                if not C.close(bv[b], Fr(res[n][0]) if not math.isnan(res[n][0]) else "nan", atol=1e-12, rtol=1e-12):
                    return False, f"{n}: batch result {bv[b]!r} for set {b} differs from the per-set result {res[n][0]!r}"
        c = case.get("shift")
        if c:
            c = float(c)
            v0 = res["Centroid"][0]
            v1 = run(case, "Centroid", row=b if is_batch(case) else None, shift=c)
            if isinstance(v1, str) or len(v1) != 1:
                return False, f"translated Centroid gives {v1!r}"
            if math.isnan(v0) != math.isnan(v1[0]) or (not math.isnan(v0) and
                                                      abs(v1[0] - (v0 + c)) > 1e-9 * (1 + abs(c) + abs(lo) + abs(hi))):
                return False, f"Centroid of the set translated by {c} is {v1[0]!r}, expected {v0!r} + {c}"
    return True, "ok"


# ------------------------------------------------------------------------------------------ generators

def dyadic_term(rng, cls, lo, dx, r):
    """parameters on the cell-edge grid lo + j*dx with power-of-two widths (all memberships are dyadic numbers)"""
    kmax = max(0, int(math.log2(max(1, r))))
    w = lambda: dx * 2 ** rng.randint(0, kmax)  # noqa: E731
    a = lo + dx * rng.randint(-2, max(0, r - 1))
    if cls == "Triangle":
        w1, w2 = w(), w()
        return [a, a + w1, a + w1 + w2]
    if cls == "Trapezoid":
        w1, w2, p = w(), w(), dx * rng.randint(0, max(1, r // 2))
        return [a, a + w1, a + w1 + p, a + w1 + p + w2]
    if cls == "Rectangle":
        return [a, a + dx * rng.randint(1, max(1, r // 2))]
    if cls in ("Ramp", "SShape", "ZShape"):
        ww = w()
        return [a, a + ww] if (cls != "Ramp" or rng.random() < 0.5) else [a + ww, a]
    if cls == "PiShape":
        w1, w2, p = w(), w(), dx * rng.randint(0, max(1, r // 2))
        return [a, a + w1, a + w1 + p, a + w1 + p + w2]
    if cls == "Binary":
        return [a, rng.choice(["inf", "-inf"])]
    raise ValueError(cls)


DY_CLASSES = ["Triangle", "Trapezoid", "Rectangle", "Ramp", "SShape", "ZShape", "PiShape", "Binary"]
DY_DEG = [0.0, 1.0, 0.5, 0.25, 0.75, 0.125, 0.5, 1.0]
DY_H = [1.0, 1.0, 1.0, 0.5, 0.75, 0.25]


def resolutions(ctx):
    """{1,2,3,5,10,100} and random ones; resolutions above 100 (exact arithmetic on up to 1000 samples is the
    expensive part) only in the thorough tier, for about 2 % of the cases"""
    big = ctx.thorough and ctx.rng.random() < 0.16
    return [1, 2, 3, 5, 10, 100, ctx.rng.randint(4, 100), ctx.rng.randint(101, 1000) if big else ctx.rng.randint(11, 100)]


def degree(rng, pool, batch):
    if batch:
        return [rng.choice(pool) for _ in range(batch)]
    return rng.choice(pool)


def gen_dyadic(ctx, n):
    rng = ctx.rng
    pairs = [(t, s) for t in TN for s in SN]
    rng.shuffle(pairs)
    for k in range(n):
        r = rng.choice(resolutions(ctx))
        dx = rng.choice([0.5, 1.0, 2.0, 0.25, 1.0])
        lo = rng.choice([0.0, -r * dx / 2, 100.0, -64.0, 4096.0, 0.0])
        impl, agg = pairs[k % len(pairs)]
        nt = rng.choice([0, 1, 1, 2, 2, 3, 3, 4, 5])
        batch = rng.choice([0, 0, 0, 1, 2, 3, 4])
        if r > 200:
            nt, batch = min(nt, 3), min(batch, 2)
        acts = []
        style = rng.choice(["free", "free", "plateau", "equalmax", "symmetric", "gap"])
        for _ in range(nt):
            cls = rng.choice(DY_CLASSES)
            acts.append({"cls": cls, "params": dyadic_term(rng, cls, lo, dx, r), "h": rng.choice(DY_H),
                         "impl": impl if rng.random() < 0.8 else rng.choice(TN),
                         "deg": degree(rng, DY_DEG, batch)})
        if style == "plateau" and acts:
            acts[0].update(cls="Triangle", impl="Minimum", h=1.0, deg=degree(rng, [0.5, 0.25, 0.75], batch),
                           params=dyadic_term(rng, "Triangle", lo, dx, r))
        if style == "equalmax" and acts:
            a0 = dict(acts[0])
            off = dx * rng.randint(1, max(1, r // 2))
            if a0["cls"] != "Binary":
                acts.append({**a0, "params": [p + off for p in a0["params"]]})
        if style == "symmetric" and acts:
            mir = []
            c2 = 2 * lo + r * dx  # lo + hi
            for a in acts:
                if a["cls"] in ("Triangle", "Trapezoid", "Rectangle", "PiShape"):
                    mir.append({**a, "params": [c2 - p for p in reversed(a["params"])]})
            acts += mir[: max(0, 5 - len(acts))]
        if style == "gap":
            w = dx * max(1, r // 5)
            d = degree(rng, [1.0, 0.5], batch)
            acts = [{"cls": "Rectangle", "params": [lo, lo + w], "h": 1.0, "impl": impl, "deg": d},
                    {"cls": "Rectangle", "params": [lo + r * dx - w, lo + r * dx], "h": 1.0, "impl": impl, "deg": d}]
        acts = acts[:5]
        case = {"fam": "dyadic", "style": style, "lo": lo, "hi": lo + r * dx, "r": r, "agg": agg, "acts": acts}
        if acts and all(a["cls"] != "Binary" for a in acts) and rng.random() < 0.5:
            case["shift"] = rng.choice([3.0, -7.5, 1024.0, 0.25])
        yield case


def general_term(rng, cls, lo, hi):
    L = hi - lo
    u = lambda a=-0.2, b=1.2: lo + L * rng.uniform(a, b)  # noqa: E731
    nice = lambda: lo + L * rng.choice([0.0, 0.1, 0.2, 0.25, 0.3, 0.4, 0.5, 0.6, 0.7, 0.75, 0.8, 0.9, 1.0])  # noqa: E731
    pick = u if rng.random() < 0.6 else nice
    if cls == "Triangle":
        a, b, c = sorted([pick(), pick(), pick()])
        if not a < b < c:
            a, b, c = sorted([u(), u(), u()])
        return [a, b, c]
    if cls in ("Trapezoid", "PiShape"):
        p = sorted([pick(), pick(), pick(), pick()])
        if not p[0] < p[1] <= p[2] < p[3]:
            p = sorted([u(), u(), u(), u()])
        return p
    if cls == "Rectangle":
        a, b = sorted([u(), u()])
        return [a, b]
    if cls in ("Ramp", "SShape", "ZShape", "Concave"):
        a, b = pick(), pick()
        if a == b:
            a, b = u(), u()
        if cls in ("SShape", "ZShape") and a > b:
            a, b = b, a
        return [a, b]
    if cls == "Binary":
        return [u(), rng.choice(["inf", "-inf"])]
    if cls == "Gaussian":
        return [pick(), L * rng.uniform(0.05, 0.4)]
    if cls == "Bell":
        return [pick(), L * rng.uniform(0.05, 0.4), rng.choice([1.0, 2.0, 3.0, 1.5])]
    if cls == "Sigmoid":
        return [pick(), rng.choice([-1, 1]) * rng.uniform(2, 20) / L]
    if cls in ("Cosine", "Spike"):
        return [pick(), L * rng.uniform(0.1, 0.8)]
    if cls == "GaussianProduct":
        return [pick(), L * rng.uniform(0.05, 0.3), pick(), L * rng.uniform(0.05, 0.3)]
    if cls in ("SigmoidDifference", "SigmoidProduct"):
        a, b = sorted([u(0, 1), u(0, 1)])
        return [a, rng.uniform(3, 20) / L, rng.uniform(3, 20) / L if cls == "SigmoidDifference" else -rng.uniform(3, 20) / L, b]
    raise ValueError(cls)


RANGES = [(0.0, 1.0), (-5.0, 5.0), (0.0, 10.0), (100.0, 110.0), (1e6, 1e6 + 3.0), (0.0, 1e-3), (-1e6, 1e6), (2.5, 7.25),
          (-0.001, 0.003)]
GEN_DEG = [0.0, 1.0, 0.5, 0.25, 0.3, 0.7, 0.9, "nan", "inf", "-inf"]


def gen_general(ctx, n):
    rng = ctx.rng
    for _ in range(n):
        lo, hi = rng.choice(RANGES) if rng.random() < 0.8 else sorted([rng.uniform(-50, 50), rng.uniform(60, 200)])
        trans = rng.random() < 0.25
        r = rng.choice(resolutions(ctx))
        if trans:
            r = min(r, ctx.scale(50, 200))
        nt = rng.choice([0, 1, 1, 2, 2, 3, 3, 4, 5])
        batch = rng.choice([0, 0, 0, 2, 3])
        if r > 200 or trans:
            nt, batch = min(nt, 3), min(batch, 2)
        acts = []
        for _ in range(nt):
            cls = rng.choice(TRANS) if trans and rng.random() < 0.6 else rng.choice(POLY)
            pool = GEN_DEG if rng.random() < 0.15 else [rng.random(), rng.random(), 0.0, 1.0, 0.5]
            acts.append({"cls": cls, "params": general_term(rng, cls, lo, hi), "h": rng.choice([1.0, 1.0, 0.5, 0.3, 0.8]),
                         "impl": rng.choice(TN_CONT), "deg": degree(rng, pool, batch)})
        case = {"fam": "general", "lo": lo, "hi": hi, "r": r, "agg": rng.choice(SN_CONT), "acts": acts}
        if acts and all(a["cls"] not in ("Rectangle", "Binary") for a in acts) and rng.random() < 0.3:
            case["shift"] = rng.choice([3.0, -7.5, 1024.0])
        yield case


DECLARED = ["nan", "equal", "wider", "narrower", "shifted", "disjoint-above", "disjoint-below", "half-nan", "infinite",
            "reversed", "point"]


def declared_range(rng, rel, lo, hi):
    """(minimum, maximum) written into the Aggregated object, in the given relation to the range [lo, hi] of defuzzify"""
    L = hi - lo
    f = rng.choice([0.25, 0.5, 1.0, 2.0])
    if rel == "nan": return ["nan", "nan"]
    if rel == "equal": return [lo, hi]
    if rel == "wider": return [lo - f * L, hi + rng.choice([0.25, 1.0, 3.0]) * L]
    if rel == "narrower": return [lo + L * rng.choice([0.125, 0.25, 0.375]), hi - L * rng.choice([0.125, 0.25, 0.375])]
    if rel == "shifted":
        c = rng.choice([-1, 1]) * f * L / 2
        return [lo + c, hi + c]
    if rel == "disjoint-above": return [hi + f * L, hi + (f + 1) * L]
    if rel == "disjoint-below": return [lo - (f + 1) * L, lo - f * L]
    if rel == "half-nan": return rng.choice([[lo, "nan"], ["nan", hi], [lo + L / 4, "nan"]])
    if rel == "infinite": return rng.choice([["-inf", "inf"], [lo + L / 2, "inf"], ["-inf", lo + L / 2]])
    if rel == "reversed": return [hi, lo]
    if rel == "point": return [lo + L / 2, lo + L / 2]
    raise ValueError(rel)


def gen_declared(ctx, n):
    """the sets of both families again, held in Aggregated objects whose own (minimum, maximum) is NaN (the default of the
    constructor), equal to, wider / narrower than, shifted against or disjoint from the range handed to defuzzify - a user may
    build the set once and defuzzify it over several ranges; the property speaks of the range of the call only"""
    rng = ctx.rng
    base = list(gen_dyadic(ctx, n // 2)) + list(gen_general(ctx, n - n // 2))
    for i, case in enumerate(base):
        if int(case["r"]) > 100:
            case["r"] = 100
            if case["fam"] == "dyadic":
                continue                      # the dyadic grid depends on r
        rel = DECLARED[i % len(DECLARED)]
        case["rel"] = rel
        case["declared"] = declared_range(rng, rel, float(case["lo"]), float(case["hi"]))
        yield case


def gen_shared_term(ctx, n):
    """the aggregated set of the property is made of ACTIVATIONS (term, degree, implication), and nothing says that their terms
    are different objects: two or more rules with the same consequent activate the same term of the output variable, each
    with its own degree.  The set is still (+)_i (d_i (x) mu_i(x)), activation by activation - which is NOT ((+)_i d_i) (x) mu
    unless the operators happen to distribute.  Sets of both families in which 1-3 further activations share the term object
    of an earlier one, with their own degrees (scalar and batch; equal, different, 0, 1) and mostly the implication of the
    first (one rule block) - the dyadic ones under EVERY implication x EVERY aggregation (each pair in turn)"""
    rng = ctx.rng
    pairs = [(t, s) for t in TN for s in SN]
    rng.shuffle(pairs)
    n_dy = max(len(pairs), (2 * n) // 3)
    for k in range(n):
        dyadic = k < n_dy
        case = next(gen_dyadic(ctx, 1)) if dyadic else next(gen_general(ctx, 1))
        if int(case["r"]) > 100:
            continue                              # (the grid of a dyadic case depends on r)
        lo, hi, r = float(case["lo"]), float(case["hi"]), int(case["r"])
        acts = [a for a in case["acts"]][:3]
        if not acts:
            cls = rng.choice(DY_CLASSES[:7] if dyadic else POLY[:7])
            acts = [{"cls": cls, "params": dyadic_term(rng, cls, lo, (hi - lo) / r, r) if dyadic else general_term(rng, cls, lo, hi),
                     "h": rng.choice(DY_H), "impl": "Minimum", "deg": 0.5}]
        batch = batch_size(case) if is_batch(case) else 0
        if dyadic:
            impl, agg = pairs[k % len(pairs)]
            case["agg"] = agg
            for a in acts:
                if rng.random() < 0.85:
                    a["impl"] = impl
        pool = DY_DEG if dyadic else [rng.random(), rng.random(), 0.0, 1.0, 0.5, 0.25]
        for a in acts:
            if batch and not isinstance(a["deg"], list):
                a["deg"] = degree(rng, pool, batch)
        for _ in range(rng.choice([1, 1, 2, 3])):
            if len(acts) >= 5:
                break
            j = rng.randrange(len(acts))
            src = j if acts[j].get("same") is None else acts[j]["same"]
            twin = {**acts[src], "same": src, "deg": degree(rng, pool, batch)}
            if rng.random() < 0.15:
                twin["impl"] = rng.choice(TN if dyadic else TN_CONT)
            u = rng.random()
            if u < 0.15:
                twin["deg"] = acts[src]["deg"]                      # two rules firing equally
            acts.append(twin)
        case["acts"] = acts
        case["fam2"] = "shared term"
        yield case


def gen_errors(ctx):
    t = {"cls": "Triangle", "params": [0.0, 1.0, 2.0], "h": 1.0, "impl": "Minimum", "deg": 0.5}
    yield {"fam": "error", "lo": 0.0, "hi": 2.0, "r": 4, "agg": None, "acts": [t]}
    yield {"fam": "error", "lo": 0.0, "hi": 2.0, "r": 4, "agg": "Maximum", "acts": [{**t, "impl": None}]}
    yield {"fam": "error", "lo": 0.0, "hi": 2.0, "r": 4, "agg": None, "acts": []}
    yield {"fam": "error", "lo": 0.0, "hi": 2.0, "r": 4, "agg": "Maximum", "acts": [t, {**t, "impl": None, "deg": [0.5, 1.0]}]}


def corpus():
    out = []
    for p in sorted(glob.glob(os.path.join(C.VERIF, "corpus", PID, "*.json"))):
        d = json.load(open(p))
        if not d.get("case", d).get("stream"):
            out.append(d.get("case", d))
    return out


# ------------------------------------------------------------------------------------------ fragility guard

def short_dyadic(v):
    n, d = float(v).as_integer_ratio()
    return d <= 2 ** 24


def fragile(case, x):
    """a nilpotent norm whose float operands are within 1e-9 of the threshold a+b = 1 without being exact"""
    nil_impl = [a for a in case["acts"] if a["impl"] in ("NilpotentMinimum",)]
    nil_agg = case["agg"] == "NilpotentMaximum"
    ham_agg = case["agg"] == "HamacherSum"   # (a+b-2ab)/(1-ab) cancels catastrophically next to ab = 1
    if not nil_impl and not nil_agg and not ham_agg:
        return False
    fm = fl.settings.factory_manager
    with np.errstate(all="ignore"):
        for b in range(batch_size(case)):
            A = build(case, b if is_batch(case) else None)
            acc = np.zeros_like(x)
            for act, a in zip(A.terms, case["acts"]):
                mu = np.asarray(act.term.membership(x), dtype=float)
                d = float(act.degree)
                if a["impl"] == "NilpotentMinimum":
                    for v in mu:
                        if abs(d + v - 1.0) < 1e-9 and not (short_dyadic(d) and short_dyadic(v)):
                            return True
                if act.implication is None:
                    return False
                yv = np.asarray(act.implication.compute(d, mu), dtype=float)
                if nil_agg:
                    for u, v in zip(acc, yv):
                        if abs(u + v - 1.0) < 1e-9 and not (short_dyadic(u) and short_dyadic(v)):
                            return True
                if ham_agg and np.any((acc * yv != 1.0) & (np.abs(1.0 - acc * yv) < 1e-6)):
                    return True
                acc = np.asarray(fm.snorm.construct(case["agg"]).compute(acc, yv), dtype=float) if case["agg"] else acc
    return False


# ------------------------------------------------------------------------------------------ correspondence

def line(case, x):
    acts = []
    for a in case["acts"]:
        ps = [fl_num(p) for p in a["params"]]
        ds = a["deg"] if isinstance(a["deg"], list) else [a["deg"]]
        acts.append([[a["cls"], ps, float(a["h"])], a["impl"] or "none", [fl_num(d) for d in ds]])
    return C.sx(["idefuzzx", [float(v) for v in x], case["agg"] or "none", EPS, acts])


def compare(case, x, out, st=None):
    """-> (list of problems, implementation results)"""
    probs = []
    cnt = (lambda k: st.count(k)) if st is not None else (lambda k: None)
    impl = {n: run(case, n) for n in DEFUZZ}
    if out == "value-error":
        for n in DEFUZZ:
            if impl[n] != "value-error":
                probs.append(f"{n}: model raises ValueError, implementation gives {impl[n]!r}")
        return probs, impl
    rows = C.parse_sx(out)
    B = len(rows)
    X = frs(x)
    for n, col in zip(DEFUZZ, range(5)):
        v = impl[n]
        if isinstance(v, str):
            probs.append(f"{n}: implementation raises {v}, model gives values")
            continue
        if len(v) != B:
            probs.append(f"{n}: implementation returns {len(v)} value(s) {v!r} for a batch of {B} set(s)")
            continue
        for b in range(B):
            vals, bis_classes, t0, te = rows[b]
            m = C.parse_x(vals[col])
            if C.close(v[b], m):
                continue
            if n == "Centroid":
                probs.append(f"Centroid set {b}: implementation {v[b]!r}, model {vals[col][:40]}")
            elif n == "Bisector":
                classes = [[int(i) for i in c] for c in bis_classes]
                ok, how = bisector_ok(v[b], m, X, classes)
                cnt("tie:bisector-" + how)
                if not ok:
                    probs.append(f"Bisector set {b}: implementation {v[b]!r}, model {vals[col][:40]} (tie classes {classes[:4]})")
            else:
                y = memberships(case, b if is_batch(case) else None, x)
                T0, Te = {int(i) for i in t0}, {int(i) for i in te}
                ok = False
                if not isinstance(y, str) and y.size and np.max(y) > 0:
                    S = {i for i, u in enumerate(y) if u == np.max(y)}
                    if S != T0 and S <= Te:
                        pts = [X[i] for i in S]
                        want = {"SmallestOfMaximum": min(pts), "LargestOfMaximum": max(pts),
                                "MeanOfMaximum": sum(pts) / len(pts)}[n]
                        ok = C.close(v[b], want)
                        cnt("tie:float-plateau")
                if not ok:
                    probs.append(f"{n} set {b}: implementation {v[b]!r}, model {vals[col][:40]}")
    return probs, impl


def cases(ctx):
    yield from corpus()
    yield from gen_errors(ctx)
    yield from gen_dyadic(ctx, ctx.scale(1800, 8000))
    yield from gen_general(ctx, ctx.scale(1000, 5000))


def correspond(ctx):
    st = ctx.stats
    mism = []
    todo = []
    with np.errstate(all="ignore"):
        for case in cases(ctx):
            x = sample_points(case)
            if fragile(case, x):
                st.skipped_fragile += 1
                continue
            todo.append((case, x))
    outs = ctx.driver.eval([line(c, x) for c, x in todo])
    # resolution 0 is outside the domain of the model (`Op.Integral.midpoints lo hi 0 = []`): C09.code_midpoints and the
    # five defuzzifier ties say the code raises ZeroDivisionError there (external `Py.Np.divInt`: Python float / int 0)
    for what, f in [("Op.midpoints", lambda: fl.Op.midpoints(0.0, 2.0, 0))] + [
            (n, (lambda n=n: setattr(d0 := getattr(fl, n)(5), "resolution", 0) or d0.defuzzify(fl.Constant("c", 1.0), 0.0, 2.0)))
            for n in DEFUZZ]:
        try:
            got = repr(f())[:60]
        except ZeroDivisionError:
            got = None
        except Exception as ex:  # noqa: BLE001
            got = f"{type(ex).__name__}"
        st.count("resolution0")
        if got is not None:
            mism.append({"case": {"r": 0, "lo": 0.0, "hi": 2.0, "what": what}, "impl": got, "model": "ZeroDivisionError",
                         "what": f"{what} with resolution 0: expected ZeroDivisionError (code_midpoints), got {got}"})
    # Op.midpoints against the exact midpoints of the model
    mp = [(c, x) for c, x in todo[:: max(1, len(todo) // 150)]]
    mouts = ctx.driver.eval([C.sx(["midpoints", float(c["lo"]), float(c["hi"]), int(c["r"])]) for c, _ in mp])
    for (c, x), o in zip(mp, mouts):
        ex = C.parse_sx(o)
        st.count("midpoints")
        L = abs(float(c["hi"]) - float(c["lo"]))
        bad = len(ex) != len(x) or any(abs(Fr(float(a)) - Fr(b)) > Fr(1e-9) * Fr(L) + Fr(1e-12) * Fr(abs(float(a)) + 1)
                                       for a, b in zip(x, ex))
        if bad:
            mism.append({"case": c, "impl": [float(v) for v in x[:5]], "model": o[:200],
                         "what": "Op.midpoints differs from the midpoints of the model"})
    judge(ctx, todo, outs, mism, every=2)
    # Op.midpoints for r = 1..5 and unusual ranges (start > end, infinite / NaN bounds) against Op.Integral.midpoints
    mism += S_MID.run(ctx)
    # drawn after every earlier stream: sets whose Aggregated object declares a range of its own
    more = []
    with np.errstate(all="ignore"):
        for case in gen_declared(ctx, ctx.scale(220, 1100)):
            x = sample_points(case)
            if fragile(case, x):
                st.skipped_fragile += 1
                continue
            more.append((case, x))
    judge(ctx, more, ctx.driver.eval([line(c, x) for c, x in more]), mism, every=1)
    # drawn after every earlier stream: several activations of the SAME term object (rules sharing a consequent)
    more = []
    with np.errstate(all="ignore"):
        for case in gen_shared_term(ctx, ctx.scale(190, 950)):
            x = sample_points(case)
            if fragile(case, x):
                st.skipped_fragile += 1
                continue
            more.append((case, x))
    judge(ctx, more, ctx.driver.eval([line(c, x) for c, x in more]), mism, every=1)
    return mism


SHARED_PAIRS = set()   # (implication, aggregation) pairs met with two activations of one term object in this run


def judge(ctx, todo, outs, mism, every):
    """model against implementation on every case, the property oracle on every `every`-th one"""
    st = ctx.stats
    n_or = 0
    for i, ((case, x), o) in enumerate(zip(todo, outs)):
        st.count(case.get("fam", "corpus"))
        if "declared" in case:
            st.count("declared range: " + case["rel"])
        if case.get("fam2"):
            st.count(case["fam2"])
            twins = [a for a in case["acts"] if a.get("same") is not None and a["impl"] == case["acts"][a["same"]]["impl"]]
            seen = SHARED_PAIRS
            seen.update((a["impl"], case["agg"]) for a in twins)
            ctx.notes["shared_term_implication_x_aggregation_pairs"] = len(seen)
        st.count(f"r<={10 if case['r'] <= 10 else 100 if case['r'] <= 100 else 1000}")
        st.count(f"terms={len(case['acts'])}")
        if is_batch(case):
            st.count("batch")
        if o in ("bad-op", "bad-parse"):
            mism.append({"case": case, "model": o, "what": "case unknown to the model"})
            continue
        probs, impl = compare(case, x, o, st)
        nt = any(not isinstance(v, str) and any(not math.isnan(t) for t in v) for v in impl.values())
        st.case(json.dumps(case, sort_keys=True), nt,
                sample={"case": key(case), "impl": {k: (v if isinstance(v, str) else v[:3]) for k, v in impl.items()},
                        "model": o[:120]} if i % 97 == 0 else None)
        st.validated += 1
        if probs:
            mism.append({"case": case, "impl": impl, "model": o[:400], "what": probs[0]})
            if len(mism) > 12:
                break
        # the property oracle on a sub-stream (every case of the corpus / error stream, every 2nd generated case)
        if i % every == 0 or case.get("fam") in ("error", None):
            ok, detail = oracle(case)
            n_or += 1
            if not ok:
                mism.append({"case": case, "violation": True, "detail": detail, "what": detail})
                if len(mism) > 12:
                    break
    st.count("oracle", n_or)


def search(ctx):
    for case in itertools.chain(cases(ctx), gen_declared(ctx, ctx.scale(220, 1100)), gen_shared_term(ctx, ctx.scale(190, 950))):
        ok, d = oracle(case)
        if not ok:
            return [(case, d)]
    return []
