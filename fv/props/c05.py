"""C05 — Hedges compute their formulas and keep degrees in [0,1] (DESIGN.md section 8, C05)."""
from __future__ import annotations

import math
from fractions import Fraction as Fr

import numpy as np

import common as C
import layouts as L
import fuzzylite as fl

PID = "C05"
MODULES = ["FlVerif.Props.C05"]
NAMESPACE = "C05"
TIE_A = ["Hedge."]
RULE = ("every registered hedge x (exhaustive dyadic grid {k/1024} | the branch point 1/2 and its float neighbours | random "
        "doubles in [0,1] | NaN, +-inf, out-of-range | arrays); non-trivial: the model value differs from 0, 1 and x; "
        "distinct = distinct (hedge, x)")
ASSUMPTIONS = ["float evaluation compared with the exact value (sqrt through the 2^-128 fixed-point oracle) within 1e-9"]
LEVEL_TEXT = ("Lean theorems: the formula traced from each hedge() equals the documented one (6 gen_* theorems re-proved on the "
              "regenerated definitions every run); very/not/extremely/any over every ordered field and somewhat/seldom over R: "
              "range [0,1], fixed points 0 and 1 (not swaps them, any is constant 1), monotone (not antitone), very x <= x <= "
              "somewhat x, very/somewhat and extremely/seldom mutually inverse on [0,1] (both branches and the branch point), "
              "not an involution - for ALL x, no grid. Correspondence: implementation vs regenerated model at exact rationals.")
LEVEL_NOTE = ("Trusted: Lean kernel, standard axioms, Mathlib (Real.sqrt), tracer, tolerance 1e-9, Fn.rat sqrt oracle. Not "
              "proved: float rounding of sqrt and x**2, NumPy broadcasting (sampled).")
TECHNIQUE = "Lean 4 proof (ordered fields, Real.sqrt) over definitions regenerated from hedge.py by symbolic tracing + differential run against the Lean driver"

DOC = {"any": lambda x: 1.0,
       "very": lambda x: float(Fr(x) ** 2),
       "not": lambda x: float(1 - Fr(x)),
       "extremely": lambda x: float(2 * Fr(x) ** 2 if Fr(x) <= Fr(1, 2) else 1 - 2 * (1 - Fr(x)) ** 2),
       "somewhat": lambda x: math.sqrt(x),
       "seldom": lambda x: math.sqrt(x / 2) if x <= 0.5 else 1 - math.sqrt((1 - x) / 2)}

_H = None


def hedges():
    global _H
    if _H is None:
        fm = fl.settings.factory_manager
        _H = {k: fm.hedge.construct(k) for k in sorted(fm.hedge.constructors) if k}
    return _H


def impl(name, x):
    with np.errstate(all="ignore"):
        return float(hedges()[name].hedge(x))


def key(case):
    return str(case.get("hedge"))


def oracle(case):
    try:
        return oracle_(case)
    except Exception as ex:  # noqa: BLE001
        return False, f"{case.get('hedge')}({case.get('x')}): evaluating the hedge (scalar or array) raised {type(ex).__name__}: {ex}"


def oracle_layouts(case):
    """the hedge on the same degrees held in arrays of every layout / size / container (fv/layouts.py)"""
    name = case["hedge"]
    h = hedges()[name]
    return L.check_elementwise(lambda a: h.hedge(a), case["xs"], f"hedge {name}", scalar=lambda x: impl(name, x),
                               long=bool(case.get("long")))


def oracle_(case):
    if case["hedge"] not in hedges():
        return False, f"hedge {case['hedge']} is not registered"
    if "xs" in case:
        return oracle_layouts(case)
    if "pair" in case:
        x, y = case["pair"]
        fx, fy = impl(case["hedge"], x), impl(case["hedge"], y)
        bad = fy > fx if case["hedge"] == "not" else fy < fx
        if x <= y and bad:
            return False, (f"{case['hedge']} is not monotone between neighbouring degrees: {case['hedge']}({x!r}) = {fx!r}, "
                           f"{case['hedge']}({y!r}) = {fy!r}")
        return True, "ok"
    name, x = case["hedge"], float(case["x"])
    v = impl(name, x)
    if name in DOC and 0 <= x <= 1:
        d = DOC[name](x)
        # the documented formula, also in relative terms: a small degree keeps its order of magnitude (very(1e-9) is 1e-18,
        # not 0) - every formula is a product / square root / complement that floats evaluate to a few ulps
        if not (abs(v - d) <= 1e-9) or not (abs(v - d) <= 1e-9 * abs(d)):
            return False, f"{name}({x}) = {v!r}, documented formula gives {d!r}"
        if not (-1e-12 <= v <= 1 + 1e-12):
            return False, f"{name}({x}) = {v!r} outside [0,1]"
        # relations between hedges, evaluated on the implementation
        if not (impl("very", x) <= x + 1e-12 and x <= impl("somewhat", x) + 1e-12):
            return False, f"very(x) <= x <= somewhat(x) fails at {x}"
        for f, g in (("very", "somewhat"), ("somewhat", "very"), ("extremely", "seldom"), ("seldom", "extremely")):
            if abs(impl(f, impl(g, x)) - x) > 1e-7:
                return False, f"{f}({g}({x})) = {impl(f, impl(g, x))!r} != x"
        if abs(impl("not", impl("not", x)) - x) > 1e-12:
            return False, f"not(not({x})) != x"
    elif x != x and name != "any" and v == v:
        return False, f"{name}(nan) = {v!r}"
    with np.errstate(all="ignore"):
        arr = np.asarray(hedges()[name].hedge(np.array([x, 0.25, x])), dtype=float)
        arr2 = np.asarray(hedges()[name].hedge(np.array([[x, 0.25], [0.75, x]])), dtype=float)
    exp = [impl(name, x), impl(name, 0.25), impl(name, x)]
    exp2 = [[impl(name, x), impl(name, 0.25)], [impl(name, 0.75), impl(name, x)]]
    if arr.shape != (3,) or not np.array_equal(arr, np.array(exp), equal_nan=True):
        return False, f"{name} on a 1-D array {arr!r} differs from element-by-element {exp!r}"
    if arr2.shape != (2, 2) or not np.array_equal(arr2, np.array(exp2), equal_nan=True):
        return False, f"{name} on a 2-D array {arr2!r} differs from element-by-element {exp2!r}"
    # the same degrees held in a float32 / float16 array (exactly representable there): same degrees, same result
    if 0 <= x <= 1:
        for dt in (np.float32, np.float16):
            if float(dt(x)) != x:
                continue
            with np.errstate(all="ignore"):
                low = np.asarray(hedges()[name].hedge(np.array([x, 0.25, x], dtype=dt)), dtype=float)
            if low.shape != (3,) or not all((a != a and b != b) or abs(a - b) <= 1e-9 * (1 + abs(b)) for a, b in zip(low, exp)):
                return False, f"{name} on a {dt.__name__} array of the degree {x} gives {low!r}, on the same degree as float64 {exp!r}"
    # the same array OBJECT hedged again after its contents were replaced in place: the result follows the contents
    buf = np.array([x, 0.25, x], dtype=float)
    with np.errstate(all="ignore"):
        hedges()[name].hedge(buf)
        buf[:] = [0.75, x, 0.125]
        again = np.asarray(hedges()[name].hedge(buf), dtype=float)
    exp3 = [impl(name, 0.75), impl(name, x), impl(name, 0.125)]
    if again.shape != (3,) or not np.array_equal(again, np.array(exp3), equal_nan=True):
        return False, (f"{name} applied to the same array object after its contents were replaced in place gives {again!r}, "
                       f"element-by-element {exp3!r}")
    return True, "ok"


def points(ctx):
    n = ctx.scale(1024, 8192)
    for k in range(n + 1):
        yield k / n, "grid"
    h = 0.5
    for v in (np.nextafter(h, 0), h, np.nextafter(h, 1), np.nextafter(0, 1), np.nextafter(1, 0)):
        yield float(v), "branch"
    for _ in range(ctx.scale(2000, 100000)):
        yield ctx.rng.random(), "random"
    for v in (math.nan, math.inf, -math.inf, -0.5, 1.5, 2.0):
        yield v, "special"
    # small and nearly-one degrees (tails of Gaussian terms, saturated sigmoids)
    for e in (3, 5, 9, 12, 30, 100, 200, 300):
        yield 10.0 ** -e, "small"
        yield 1.234 * 10.0 ** -e, "small"
        if e <= 12:
            yield 1.0 - 10.0 ** -e, "small"


def correspond(ctx):
    st = ctx.stats
    mism = []
    cs = [(name, x, kind) for name in sorted(hedges()) for x, kind in points(ctx)]
    outs = ctx.driver.eval([C.sx(["hedge", name, x]) for name, x, _ in cs])
    for (name, x, kind), o in zip(cs, outs):
        st.count(kind)
        if o in ("bad-op", "bad-parse"):
            mism.append({"case": {"hedge": name, "x": x}, "model": o, "what": f"hedge {name} unknown to the regenerated model"})
            continue
        m = C.parse_x(o)
        v = impl(name, x)
        nt = isinstance(m, Fr) and x == x and abs(x) != math.inf and m not in (0, 1, Fr(x))
        st.case((name, x), nt, sample={"hedge": name, "x": x, "impl": v, "model": str(o)[:60]} if kind == "random" else None)
        st.validated += 1
        if not C.close(v, m):
            mism.append({"case": {"hedge": name, "x": x}, "impl": v, "model": o,
                         "what": f"{name}({x}): implementation {v!r}, regenerated model {o[:40]}"})
            if len(mism) > 20:
                break
    step = max(1, len(cs) // ctx.scale(4000, 40000))
    for name, x, kind in cs[::step] + [c for c in cs if c[2] in ("branch", "special", "small")]:
        ok, detail = oracle({"hedge": name, "x": x})
        st.count("oracle")
        if not ok:
            mism.append({"case": {"hedge": name, "x": x}, "violation": True, "detail": detail, "what": detail})
            if len(mism) > 20:
                break
    for case in layout_cases(ctx):
        ok, detail = oracle(case)
        st.count("layouts")
        if not ok:
            mism.append({"case": case, "violation": True, "detail": detail, "what": detail})
            break
    # monotone between neighbouring doubles (each formula is a composition of correctly rounded monotone operations, so the
    # float function itself is monotone, not only up to a tolerance)
    xs = np.array([ctx.rng.random() for _ in range(ctx.scale(4000, 40000))] + [10.0 ** -k for k in range(1, 17)])
    xs = xs[(xs > 0) & (xs < 1)]
    for k in (1, 2, 5):
        ys = xs.copy()
        for _ in range(k):
            ys = np.nextafter(ys, 1.0)
        for name, h in hedges().items():
            with np.errstate(all="ignore"):
                a, b = np.asarray(h.hedge(xs), dtype=float), np.asarray(h.hedge(ys), dtype=float)
            bad = np.argwhere(b > a) if name == "not" else np.argwhere(b < a)
            st.count("mono-neighbours", len(xs))
            if len(bad):
                i = int(bad[0][0])
                case = {"hedge": name, "pair": [float(xs[i]), float(ys[i])]}
                ok, detail = oracle(case)
                mism.append({"case": case, "violation": True, "detail": detail, "what": detail})
    # monotonicity on the implementation over the grid
    g = np.linspace(0, 1, 4097)
    for name, h in hedges().items():
        y = np.asarray(h.hedge(g), dtype=float)
        d = np.diff(y)
        bad = np.argwhere(d > 1e-12) if name == "not" else np.argwhere(d < -1e-12)
        st.count("mono-grid", len(g))
        if len(bad):
            i = int(bad[0][0])
            mism.append({"case": {"hedge": name, "x": float(g[i])}, "violation": True,
                         "detail": f"{name} not monotone between {g[i]} and {g[i + 1]}", "what": f"{name} not monotone"})
    return mism


def layout_cases(ctx):
    """degrees on both sides of the branch point, the end points, NaN: in every layout; one long array per hedge"""
    rng = ctx.rng
    for name in sorted(hedges()):
        yield {"hedge": name, "xs": [0.0, 0.25, 0.5, 0.75, 1.0, 0.125, 0.625, 0.875], "long": True}
        yield {"hedge": name, "xs": [math.nan, 0.25, 1.0, 0.0, 0.5, math.nan]}
        for _ in range(ctx.scale(3, 40)):
            yield {"hedge": name, "xs": [rng.random() for _ in range(rng.choice([6, 8, 12]))]}


def search(ctx):
    for name in sorted(hedges()):
        for case in layout_cases(ctx):
            if case["hedge"] == name:
                ok, d = oracle(case)
                if not ok:
                    return [(case, d)]
        for x, _ in points(ctx):
            ok, d = oracle({"hedge": name, "x": x})
            if not ok:
                return [({"hedge": name, "x": x}, d)]
    return []
