"""C14 — FuzzyLite Language export/import round-trips engines (DESIGN.md section 8, C14)."""
from __future__ import annotations

import copy
import glob
import json
import math
import os
import re

import numpy as np

import common as C
import fuzzylite as fl
import gen_engines as G
from streams import wave5x as S_W5

PID = "C14"
MODULES = ["FlVerif.Props.C14"]
NAMESPACE = "C14"
TIE_A = ["Tables.export", "code:fuzzylite.rule.Rule.parse",
         # the exporter (theorems `code_*` in the block "Tie A: exporter" of Props/C14.lean)
         "code:fuzzylite.term.Term._parameters", "code:fuzzylite.term.Triangle.parameters", "code:fuzzylite.term.Constant.parameters",
         "code:fuzzylite.term.Linear.parameters", "code:fuzzylite.rule.Rule.text.fget",
         "code:fuzzylite.exporter.FllExporter.format", "code:fuzzylite.exporter.FllExporter.term", "code:fuzzylite.exporter.FllExporter.norm",
         "code:fuzzylite.exporter.FllExporter.activation", "code:fuzzylite.exporter.FllExporter.defuzzifier",
         "code:fuzzylite.exporter.FllExporter.rule", "code:fuzzylite.exporter.FllExporter.variable",
         "code:fuzzylite.exporter.FllExporter.input_variable", "code:fuzzylite.exporter.FllExporter.output_variable",
         "code:fuzzylite.exporter.FllExporter.rule_block", "code:fuzzylite.exporter.FllExporter.engine",
         # the import side of term parameters (theorems `code_*` in the block "Tie A: term parameters" of Props/C14.lean)
         "code:fuzzylite.library.to_float", "code:fuzzylite.term.Term._parse", "code:fuzzylite.term.Triangle.configure", "code:fuzzylite.term.Trapezoid.configure",
         "code:fuzzylite.term.Constant.configure", "code:fuzzylite.term.Linear.configure", "code:fuzzylite.term.Discrete.configure",
         "code:fuzzylite.term.Function.configure", "code:fuzzylite.operation.Operation.as_identifier",
         "code:fuzzylite.operation.Operation.strip_comments", "code:fuzzylite.operation.Operation.scale",
         "code:fuzzylite.operation.Operation.bound"]
TIE_A += [f"code:fuzzylite.importer.FllImporter.{m}" for m in (
    "extract_key_value", "extract_value", "boolean", "range", "tnorm", "snorm", "activation", "defuzzifier", "term", "rule",
    "input_variable", "output_variable", "rule_block", "_process", "engine")]
# `Op.str` and the dispatch of `FllExporter.to_string` (theorems `code_opStr`, `code_fllToString`)
TIE_A += ["code:fuzzylite.operation.Operation.str", "code:fuzzylite.exporter.FllExporter.to_string"]
# fifth wave: `Engine.configure` (theorem `code_engineConfigure` + laws) and the class dispatch `FllImporter.component`
TIE_A += ["code:fuzzylite.engine.Engine.configure", "code:fuzzylite.importer.FllImporter.component"]
# the importer's factory look-ups (theorems `code_importTnorm` / `code_importSnorm`; the callee is tied in C17)
TIE_A += ["code:fuzzylite.importer.FllImporter.tnorm", "code:fuzzylite.importer.FllImporter.snorm",
          "code:fuzzylite.factory.ConstructionFactory.construct"]

# fifth wave: constructors, `parameters`, `configure` of the shape classes of term.py and of the activation methods (theorems
# `code_<class>Init / Parameters / Configure`, `configure_parameters_<class>` of Props/C14.lean)
TIE_A += [
    "code:fuzzylite.term.Arc.__init__", "code:fuzzylite.term.Arc.parameters", "code:fuzzylite.term.Arc.configure",
    "code:fuzzylite.term.Bell.__init__", "code:fuzzylite.term.Bell.parameters", "code:fuzzylite.term.Bell.configure",
    "code:fuzzylite.term.Binary.__init__", "code:fuzzylite.term.Binary.parameters", "code:fuzzylite.term.Binary.configure",
    "code:fuzzylite.term.Concave.__init__", "code:fuzzylite.term.Concave.parameters", "code:fuzzylite.term.Concave.configure",
    "code:fuzzylite.term.Cosine.__init__", "code:fuzzylite.term.Cosine.parameters", "code:fuzzylite.term.Cosine.configure",
    "code:fuzzylite.term.Gaussian.__init__", "code:fuzzylite.term.Gaussian.parameters", "code:fuzzylite.term.Gaussian.configure",
    "code:fuzzylite.term.GaussianProduct.__init__", "code:fuzzylite.term.GaussianProduct.parameters",
    "code:fuzzylite.term.GaussianProduct.configure", "code:fuzzylite.term.PiShape.__init__",
    "code:fuzzylite.term.PiShape.parameters", "code:fuzzylite.term.PiShape.configure", "code:fuzzylite.term.Ramp.__init__",
    "code:fuzzylite.term.Ramp.parameters", "code:fuzzylite.term.Ramp.configure", "code:fuzzylite.term.Rectangle.__init__",
    "code:fuzzylite.term.Rectangle.parameters", "code:fuzzylite.term.Rectangle.configure",
    "code:fuzzylite.term.SemiEllipse.__init__", "code:fuzzylite.term.SemiEllipse.parameters",
    "code:fuzzylite.term.SemiEllipse.configure", "code:fuzzylite.term.Sigmoid.__init__",
    "code:fuzzylite.term.Sigmoid.parameters", "code:fuzzylite.term.Sigmoid.configure",
    "code:fuzzylite.term.SigmoidDifference.__init__", "code:fuzzylite.term.SigmoidDifference.parameters",
    "code:fuzzylite.term.SigmoidDifference.configure", "code:fuzzylite.term.SigmoidProduct.__init__",
    "code:fuzzylite.term.SigmoidProduct.parameters", "code:fuzzylite.term.SigmoidProduct.configure",
    "code:fuzzylite.term.Spike.__init__", "code:fuzzylite.term.Spike.parameters", "code:fuzzylite.term.Spike.configure",
    "code:fuzzylite.term.SShape.__init__", "code:fuzzylite.term.SShape.parameters", "code:fuzzylite.term.SShape.configure",
    "code:fuzzylite.term.Trapezoid.__init__", "code:fuzzylite.term.Trapezoid.parameters",
    "code:fuzzylite.term.Triangle.__init__", "code:fuzzylite.term.ZShape.__init__", "code:fuzzylite.term.ZShape.parameters",
    "code:fuzzylite.term.ZShape.configure", "code:fuzzylite.activation.First.__init__",
    "code:fuzzylite.activation.First.parameters", "code:fuzzylite.activation.First.configure",
    "code:fuzzylite.activation.Last.__init__", "code:fuzzylite.activation.Last.parameters",
    "code:fuzzylite.activation.Last.configure", "code:fuzzylite.activation.Highest.__init__",
    "code:fuzzylite.activation.Highest.parameters", "code:fuzzylite.activation.Highest.configure",
    "code:fuzzylite.activation.Lowest.__init__", "code:fuzzylite.activation.Lowest.parameters",
    "code:fuzzylite.activation.Lowest.configure", "code:fuzzylite.activation.Threshold.__init__",
    "code:fuzzylite.activation.Threshold.parameters", "code:fuzzylite.activation.Threshold.configure",
]
RULE = ("generated engines over every registered term class (incl. Discrete, Linear, Function, Constant), norm, defuzzifier "
        "(resolution / type), activation method (parameters), descriptions, disabled variables / blocks, heights and weights "
        "(1 | far from 1 | inside the tolerance | around the rounding boundary of the printed form), infinite / NaN ranges, NaN / "
        "inf defaults, lock flags x decimals 1..9 x input rows; mutated texts (number formats, comments, order, duplicates, "
        "omitted lines, malformed); every component printer / parser on its own.  non-trivial: the case exercises a height / "
        "weight decision, a non-default parameter, or a rejected text; distinct = distinct canonical case")
RULE += (" Engines whose descriptions hold runs of blanks, tabs, colons and punctuation and whose Function formulas are spaced out (drawn after the other families).")
RULE += (" Stream `configure` (fv/streams/wave5x.py): Engine.configure with None / registered names / unregistered names / objects for each of the six operators, against Op.Engine.configure; after a raise no operator of the engine may have changed.")
RULE += (" Histories of 2-6 imports with one FllImporter and one FllExporter object (texts cut at any character / inside the key of every line / between lines, lines without `key: value`, unknown keys, bad values, mutated texts, then a valid text): every import against a new importer.  Engines and single terms whose identifiers hold letters and digits outside ASCII (str.isalnum / str.isnumeric classes), referred to by rules and formulas.  Both drawn last, judged on the implementation.")
ASSUMPTIONS = ["CPython float(text) / format(x, '.df') and the nearest-double step are trusted (the model's numbers after an import are "
               "exact decimals); heights / weights whose printed form is at exact distance atol from 1 (0.999 at 3+ decimals) are "
               "compared on the implementation only (float64 and exact arithmetic disagree on is_close there)",
               "rules stay enabled (Rule.enabled has no FLL syntax); engines are built with Python float parameters",
               "the model reads str.isalnum / str.isnumeric as the ASCII classes (the code tie of Op.as_identifier holds for any "
               "classes): names with letters or digits outside ASCII are judged by the property oracle on the implementation only; "
               "a re-used importer / exporter object is compared with a new one on the implementation (the model has no object state)"]
LEVEL_TEXT = ("Lean theorems over a token-level model of FllExporter / FllImporter driven by the regenerated class tables: "
              "fmt_idempotent; round trip of every layer (term parameters+height for all classes, operators, defuzzifier, "
              "activation, rule+weight, input / output variable, rule block); import_export_structure (import(export e) = canon e); "
              "export_import_export for every printable engine; the pinned printer needs Stable and "
              "export_import_export_unstable exhibits F11; import_printable + import_normalises (any accepted token text is a "
              "fixed point after one cycle); representable_same_outputs (import(export e) = e on the decimals grid). "
              "Correspondence: model text = real text, model import = real import, on generated engines, mutated texts and "
              "single components; the property oracle (text equality, structure, bit-identical outputs, fixed point) on the "
              "real code.")
LEVEL_NOTE = ("Carried by the correspondence only: digit-level text of numbers / CPython float() and format, cutting text into lines "
              "and tokens, loading of rules and formulas against the engine, equality of the computed outputs. Trusted: Lean "
              "kernel, standard axioms, Mathlib, tracer tables, harness.")
TECHNIQUE = "Lean 4 proof over a token-level exporter/importer model tied to regenerated class tables + differential run against the Lean driver"

CORPUS = os.path.join(C.VERIF, "corpus", "C14")


# --------------------------------------------------------------------------------------------- observations

def kind_of(ex: BaseException) -> str:
    if isinstance(ex, SyntaxError):
        return "syntax"
    if isinstance(ex, KeyError):
        return "key"
    if isinstance(ex, ValueError):
        return "value"
    return "other:" + type(ex).__name__


def tol_token():
    return G.nstr(float(fl.settings.atol) + float(fl.settings.rtol))


def export(engine) -> str:
    return fl.FllExporter().to_string(engine)


def f11_zone(h: float, d: int) -> bool:
    """outside the tolerance, printed form inside (the family of defect F11)"""
    if h != h or abs(h) == math.inf:
        return False
    return (not bool(fl.Op.is_close(h, 1.0))) and bool(fl.Op.is_close(float(f"{h:.{d}f}"), 1.0))


def key(case) -> str:
    k = case.get("kind", "engine")
    d = case.get("decimals")
    if k == "edge-blank":
        # F16 is exactly: the second export is the first with the white space at the two ends of the text removed
        return "F16-edge-blank" if case.get("observed") == "ends-stripped" else f"edge-blank:{case.get('observed')}"
    if k == "engine":
        zs = sorted({cls for h, cls in G.heights_and_weights(case["spec"]) if f11_zone(h, d)})
        if zs:
            return f"f11:d={d}:" + ",".join(zs)
        return f"engine:d={d}"
    if k == "term":
        h = case["spec"].get("height")
        if h is not None and f11_zone(G.unhex(h), d):
            return f"f11:d={d}:{case['spec']['cls']}"
        return f"term:d={d}:{case['spec']['cls']}"
    if k == "rule":
        if f11_zone(G.unhex(case["spec"]["weight"]), d):
            return f"f11:d={d}:Rule"
        return f"rule:d={d}"
    if k == "reuse":
        return f"reuse:d={d}:" + ">".join(s_["label"].split(" of ")[0] for s_ in case["texts"])
    if k == "text":
        ws = [float(m) for m in re.findall(r"(?<![\w.])[-+]?\d+\.\d+(?![\w.])", case["text"])]
        if any(f11_zone(w, d) for w in ws):
            return f"f11:d={d}:text"
        return f"text:d={d}"
    return f"{k}:d={d}"


def structure_diff(e, e2, d: int, exact: bool):
    """the property's "same structure": components, classes, names (as identifiers), operators, flags, texts; numbers
    within half a unit of the last printed decimal (exactly equal when `exact`)"""
    half = 0.5 * 10.0 ** -d

    def num(a, b, what):
        a, b = float(a), float(b)
        if a != a or b != b:
            return None if (a != a and b != b) else f"{what}: {a!r} vs {b!r}"
        if abs(a) == math.inf or abs(b) == math.inf:
            return None if a == b else f"{what}: {a!r} vs {b!r}"
        if exact:
            return None if a == b else f"{what}: {a!r} vs {b!r} (representable engine)"
        return None if abs(a - b) <= half * (1 + 1e-9) + 1e-15 * abs(a) else f"{what}: {a!r} vs {b!r}"

    def height(a, b, what):
        a, b = float(a), float(b)
        if bool(fl.Op.is_close(a, 1.0)) or bool(fl.Op.is_close(float(f"{a:.{d}f}"), 1.0)):
            # a height within the tolerance of 1 (exactly or as printed) may come back as 1
            if b == 1.0 or num(a, b, what) is None:
                return None
            return f"{what}: {a!r} vs {b!r}"
        return num(a, b, what)

    def terms(v, v2, what):
        if len(v.terms) != len(v2.terms):
            return f"{what}: {len(v.terms)} vs {len(v2.terms)} terms"
        for t, t2 in zip(v.terms, v2.terms):
            w = f"{what}.{t.name}"
            if type(t) is not type(t2):
                return f"{w}: class {type(t).__name__} vs {type(t2).__name__}"
            if fl.Op.as_identifier(t.name) != t2.name:
                return f"{w}: name {t2.name!r}"
            if G.is_identifier(t.name) and t2.name != t.name:
                return f"{w}: the name is an identifier and comes back as {t2.name!r}"
            if isinstance(t, fl.Function):
                if t.formula != t2.formula:
                    return f"{w}: formula {t.formula!r} vs {t2.formula!r}"
                continue
            if isinstance(t, fl.Linear):
                a, b = list(t.coefficients), list(t2.coefficients)
            elif isinstance(t, fl.Discrete):
                a, b = t.to_list(), t2.to_list()
            else:
                ps = G.shape_params(type(t))
                a, b = [getattr(t, p) for p in ps], [getattr(t2, p) for p in ps]
            if len(a) != len(b):
                return f"{w}: {len(a)} vs {len(b)} parameters"
            for i, (x, y) in enumerate(zip(a, b)):
                r = num(x, y, f"{w}[{i}]")
                if r:
                    return r
            if G.has_height(type(t)):
                r = height(t.height, t2.height, f"{w}.height")
                if r:
                    return r
        return None

    def var(v, v2, what):
        if v.name != v2.name or v.description != v2.description or v.enabled != v2.enabled or v.lock_range != v2.lock_range:
            return f"{what}: name/description/enabled/lock-range differ"
        return num(v.minimum, v2.minimum, what + ".minimum") or num(v.maximum, v2.maximum, what + ".maximum") \
            or terms(v, v2, what)

    def cls(a, b, what):
        return None if type(a) is type(b) else f"{what}: {type(a).__name__} vs {type(b).__name__}"

    if e.name != e2.name or e.description != e2.description:
        return "engine name / description differ"
    for nm in ("input_variables", "output_variables", "rule_blocks"):
        if len(getattr(e, nm)) != len(getattr(e2, nm)):
            return f"number of {nm} differs"
    for v, v2 in zip(e.input_variables, e2.input_variables):
        r = var(v, v2, f"input {v.name}")
        if r:
            return r
    for v, v2 in zip(e.output_variables, e2.output_variables):
        w = f"output {v.name}"
        r = var(v, v2, w) or cls(v.aggregation, v2.aggregation, w + ".aggregation") \
            or cls(v.defuzzifier, v2.defuzzifier, w + ".defuzzifier") or num(v.default_value, v2.default_value, w + ".default")
        if r:
            return r
        if v.lock_previous != v2.lock_previous:
            return f"{w}: lock-previous differs"
        if G.m_defuzz(v.defuzzifier) != G.m_defuzz(v2.defuzzifier):
            return f"{w}: defuzzifier parameters {G.m_defuzz(v.defuzzifier)} vs {G.m_defuzz(v2.defuzzifier)}"
    for b, b2 in zip(e.rule_blocks, e2.rule_blocks):
        w = f"block {b.name!r}"
        if b.name != b2.name or b.description != b2.description or b.enabled != b2.enabled:
            return f"{w}: name/description/enabled differ"
        r = cls(b.conjunction, b2.conjunction, w + ".conjunction") or cls(b.disjunction, b2.disjunction, w + ".disjunction") \
            or cls(b.implication, b2.implication, w + ".implication") or cls(b.activation, b2.activation, w + ".activation")
        if r:
            return r
        a, a2 = b.activation, b2.activation
        if a is not None:
            if getattr(a, "rules", None) != getattr(a2, "rules", None) or getattr(a, "comparator", None) != getattr(a2, "comparator", None):
                return f"{w}: activation parameters differ"
            if hasattr(a, "threshold"):
                r = num(a.threshold, a2.threshold, w + ".activation.threshold")
                if r:
                    return r
        if len(b.rules) != len(b2.rules):
            return f"{w}: number of rules differs"
        for r1, r2 in zip(b.rules, b2.rules):
            if r1.antecedent.text != r2.antecedent.text or r1.consequent.text != r2.consequent.text:
                return f"{w}: rule text {r1.text!r} vs {r2.text!r}"
            if r1.enabled != r2.enabled:
                return f"{w}: rule enabled flag differs"
            if not r2.is_loaded():
                return f"{w}: imported rule is not loaded"
            r = height(r1.weight, r2.weight, f"{w}: weight of {r1.text!r}")
            if r:
                return r
    return None


# --------------------------------------------------------------------------------------------- oracle

def oracle(case):
    """the property on the real code; deterministic and replayable from the JSON case"""
    if case.get("stream") == S_W5.CONFIGURE:
        return S_W5.oracle(case)          # Engine.configure (stream `configure`)
    try:
        return oracle_(case)
    except Exception as ex:  # noqa: BLE001
        return False, f"the component's own exported text is not accepted back: {type(ex).__name__}: {ex}"


def oracle_(case):
    k = case.get("kind", "engine")
    d = int(case["decimals"])
    with fl.settings.context(decimals=d), np.errstate(all="ignore"):
        if k == "engine":
            return oracle_engine(case, d)
        if k == "edge-blank":
            return oracle_edge_blank(case, d)[:2]
        if k == "text":
            return oracle_text(case, d)
        if k == "term":
            return oracle_term(case, d)
        if k == "reuse":
            return oracle_reuse(case, d)
        if k == "defuzzifier":
            x = G.build_defuzz(case["spec"])
            p = fl.FllExporter().defuzzifier(x)
            y = fl.FllImporter().defuzzifier(p)
            q = fl.FllExporter().defuzzifier(y)
            return (p == q and G.m_defuzz(x) == G.m_defuzz(y)), f"defuzzifier {p!r} -> {q!r}"
        if k == "activation":
            x = G.build_activation(case["spec"])
            p = fl.FllExporter().activation(x)
            y = fl.FllImporter().activation(p)
            q = fl.FllExporter().activation(y)
            return p == q and type(x) is type(y), f"activation {p!r} -> {q!r}"
        if k == "rule":
            r = G.build_rule(case["spec"])
            p = r.text
            r2 = fl.Rule()
            r2.parse(p)
            q = r2.text
            return p == q, f"rule {p!r} -> {q!r}"
    return True, "unknown kind"


def oracle_engine(case, d):
    spec = case["spec"]
    e = G.build(spec)
    if case.get("touch"):
        # a history: the engine has been exported once, then rule weights are changed by attribute (values on the
        # decimals grid, clearly away from 1), then it is exported again: the text must describe the engine as it is now
        export(e)
        for bi, b in enumerate(e.rule_blocks):
            for ri, r in enumerate(b.rules):
                r.weight = [0.5, 0.3, 0.7][(bi + ri) % 3] if abs(float(r.weight) - 0.5) > 1e-9 else 0.3
    t1 = export(e)
    if case.get("touch"):
        for b in e.rule_blocks:
            for r in b.rules:
                want = f"with {fl.Op.str(float(r.weight))}"
                if not any(line.strip().endswith(want) for line in t1.split("\n") if line.strip().startswith("rule:")):
                    return False, (f"after changing a rule weight to {float(r.weight)} the exported text does not carry it "
                                   f"(expected a rule line ending in '{want}')")
    try:
        e2 = fl.FllImporter().from_string(t1)
    except Exception as ex:  # noqa: BLE001
        return False, f"exported text is rejected by the importer: {type(ex).__name__}: {ex}"
    t2 = export(e2)
    if t1 != t2:
        return False, "export -> import -> export differs: " + first_diff(t1, t2)
    rep = bool(case.get("representable"))
    sd = structure_diff(e, e2, d, exact=rep)
    if sd:
        return False, "imported engine differs in structure: " + sd
    if rep and case.get("rows"):
        # the same text is imported a second time before the first imported engine is used: imported engines are
        # independent of one another (nothing of one import may be shared with, or re-bound by, a later one)
        e2b = fl.FllImporter().from_string(t1)
        o1, o2 = G.run_rows(e, case["rows"]), G.run_rows(e2, case["rows"])
        o2b = G.run_rows(e2b, case["rows"])
        # a degenerate parameter (a width or slope of exactly 0) divides by zero in the documented formula itself: the Python
        # floats of a built engine raise ZeroDivisionError where the NumPy floats of an imported one yield inf / nan; such
        # parameterisations are outside 'valid parameters' (C03) and are not judged (the same rule as in C15)
        if any("ZeroDivisionError" in str(o) for o in o1 + o2 + o2b):
            o1 = o2 = o2b = []
        if o1 != o2:
            i = next(i for i, (a, b) in enumerate(zip(o1, o2)) if a != b)
            return False, (f"outputs differ on row {i}: original {o1[i]} imported {o2[i]} (the text was imported twice; this is "
                           f"the engine of the first import, evaluated after the second import)")
        if o1 != o2b:
            i = next(i for i, (a, b) in enumerate(zip(o1, o2b)) if a != b)
            return False, f"outputs of the second import of the same text differ on row {i}: original {o1[i]} imported {o2b[i]}"
    e3 = fl.FllImporter().from_string(t2)
    if export(e3) != t2:
        return False, "second cycle is not a fixed point"
    return True, "ok"


def oracle_edge_blank(case, d):
    """descriptions / formulas that begin or end with white space (single-line, without '#': inside the quantifier).
    Returns (ok, detail, observed) where `observed` classifies what happened to the text: 'same' (round trip holds),
    'ends-stripped' (the second export is the first with the ends of that text stripped: known finding F16), or 'other'"""
    e = G.build(case["spec"])
    t1 = export(e)
    try:
        t2 = export(fl.FllImporter().from_string(t1))
    except Exception as ex:  # noqa: BLE001
        return False, f"the exported text is not accepted back: {type(ex).__name__}: {ex}", "other"
    if t2 == t1:
        return True, "ok", "same"
    text = case["text"]
    expected = t1.replace(text, text.strip(), 1)
    if text.strip() != text and t1.count(text) >= 1 and t2 == expected:
        return False, (f"{case['where']} {text!r}: the second export holds {text.strip()!r} (the importer strips both ends of a value), "
                       f"so export(import(T)) != T"), "ends-stripped"
    return False, f"{case['where']} {text!r}: the second export differs from the first otherwise than by the stripped ends", "other"


def edge_blank_cases(ctx):
    """one text of a small engine (description of the engine / a variable / a rule block, formula of a Function term) with
    white space at its beginning and / or end"""
    rng = ctx.rng
    for i in range(ctx.scale(8, 40)):
        d = 1 + (i % 9)
        spec = G.gen_engine_spec(rng, d, mode="grid", representable=True, force_terms=["Function"], size="small")
        names = {v["name"] for v in spec["inputs"] + spec["outputs"]}
        for v in spec["inputs"] + spec["outputs"]:
            for t in v["terms"]:
                for k in [k for k in t.get("variables", {}) if k in names]:
                    del t["variables"][k]
        lead, trail = rng.choice([(" ", ""), ("", " "), ("\t", ""), ("", "\t"), ("  ", "  "), (" ", "\t")])
        holders = [("engine description", spec)] + [("variable description", v) for v in spec["inputs"] + spec["outputs"]] + \
                  [("rule block description", b) for b in spec["blocks"]]
        fts = [t for v in spec["inputs"] + spec["outputs"] for t in v["terms"] if t["cls"] == "Function"]
        if fts and i % 4 == 3:
            t = rng.choice(fts)
            text = lead + t["formula"] + trail
            t["formula"] = text
            where = "Function formula"
        else:
            where, h = rng.choice(holders)
            text = lead + "edge " + G.spaced_text(rng, quotes=False) + " text" + trail
            h["description"] = text
        yield {"kind": "edge-blank", "decimals": d, "spec": spec, "text": text, "where": where}


def oracle_text(case, d):
    try:
        e = fl.FllImporter().from_string(case["text"])
    except (SyntaxError, ValueError, KeyError):
        return True, "rejected"
    except Exception as ex:  # noqa: BLE001
        return True, f"rejected with {type(ex).__name__} (C16 judges error classes)"
    t1 = export(e)
    try:
        t2 = export(fl.FllImporter().from_string(t1))
    except Exception as ex:  # noqa: BLE001
        return False, f"text exported from an accepted text is rejected: {type(ex).__name__}: {ex}"
    if t1 != t2:
        return False, "accepted text is not normalised to a fixed point by one cycle: " + first_diff(t1, t2)
    return True, "ok"


def oracle_term(case, d):
    t = G.build_term(case["spec"])
    line = fl.FllExporter().term(t)
    try:
        t2 = fl.FllImporter().term(line)
    except Exception as ex:  # noqa: BLE001
        return False, f"{line!r} is rejected: {type(ex).__name__}: {ex}"
    line2 = fl.FllExporter().term(t2)
    if line != line2:
        return False, f"term {line!r} is re-exported as {line2!r}"
    if type(t) is not type(t2):
        return False, f"term class changed: {line!r}"
    if G.is_identifier(t.name) and t2.name != t.name:
        return False, f"the term's name {t.name!r} is an identifier and comes back as {t2.name!r} ({line!r})"
    return True, "ok"


# --------------------------------------------------------------------------------------------- one importer, many imports
# "For every engine, exporting ..., importing the text and exporting again reproduces the same text" and "any text the importer
# accepts is normalised ... to a fixed point": the property quantifies over engines and texts, not over what the importer and
# exporter OBJECTS were used for before.  A program that loads several files keeps one FllImporter / FllExporter; some of the
# files are broken (truncated, a line that is not `key: value`, an unknown key, a bad value).  Whatever happened in the earlier
# imports - accepted or rejected, and rejected at whatever place - every import must give what a new importer gives for the
# same text: the same acceptance, the same engine (structure and exported text).

def import_outcome(importer, exporter, text):
    try:
        e = importer.from_string(text)
    except Exception as ex:  # noqa: BLE001
        return ("rejected", type(ex).__name__, str(ex)[:160])
    return ("accepted", exporter.to_string(e), C.sx(G.m_engine(e)))


def oracle_reuse(case, d):
    importer, exporter = fl.FllImporter(), fl.FllExporter()
    for i, step in enumerate(case["texts"]):
        text = step["text"]
        fresh = import_outcome(fl.FllImporter(), fl.FllExporter(), text)
        got = import_outcome(importer, exporter, text)
        before = ", ".join(f"{s_['label']}" for s_ in case["texts"][:i]) or "nothing"
        where = f"import {i + 1} ({step['label']}) with an importer / exporter already used for: {before}"
        if got[0] != fresh[0]:
            return False, f"{where}: {got[0]} ({got[1][:120]!r}) whereas a new importer gives: {fresh[0]} ({fresh[1][:120]!r})"
        if got[0] == "accepted" and got[1] != fresh[1]:
            return False, f"{where}: the exported text differs from that of a new importer: " + first_diff(fresh[1], got[1])
        if got[0] == "accepted" and got[2] != fresh[2]:
            return False, f"{where}: the imported engine differs in structure from that of a new importer"
        if got[0] == "rejected" and got[1] != fresh[1]:
            return False, f"{where}: rejected with {got[1]} whereas a new importer rejects with {fresh[1]}"
    return True, "ok"


BREAKS = ["cut-char", "cut-before-colon", "cut-line", "colonless-line", "unknown-key", "bad-value", "mutated", "valid", "empty",
          "header-only"]


def break_text(rng, text, d, how):
    """a text derived from a valid one that fails (or not) at one kind of place; returns (label, text)"""
    lines = text.split("\n")
    body = [i for i, l in enumerate(lines) if l.startswith("  ")]
    if how == "cut-char":          # a file cut anywhere: inside a key, a value, a number, between lines
        return how, text[:rng.randrange(1, len(text))]
    if how == "cut-before-colon":  # a file cut inside the key of a line: the last line has no `key: value` form
        i = rng.randrange(len(lines))
        j = lines[i].find(":")
        return how, "\n".join(lines[:i] + [lines[i][:max(j, 1)]])
    if how == "cut-line":          # a file cut between two lines: a valid text of a smaller engine, or a block without its end
        return how, "\n".join(lines[:rng.randrange(1, len(lines) + 1)])
    if how == "colonless-line":
        i = rng.randrange(len(lines) + 1)
        return how, "\n".join(lines[:i] + [rng.choice(["  enabled true", "garbage", "InputVariable x", "  term t Triangle 0 1 2"])] + lines[i:])
    if how == "unknown-key" and body:
        i = rng.choice(body)
        return how, "\n".join(lines[:i] + ["  colour: red"] + lines[i:])
    if how == "bad-value" and body:
        i = rng.choice(body)
        k = lines[i].strip().split(":")[0]
        return how, "\n".join(lines[:i] + [f"  {k}: ?"] + lines[i + 1:])
    if how == "mutated":
        t, label = mutate_text(rng, text, d)
        return "mutated:" + label, t
    if how == "empty":
        return how, rng.choice(["", "\n", "# nothing\n"])
    if how == "header-only":
        return how, rng.choice(["Engine: x", "Engine: x\nInputVariable: a", "OutputVariable: o\n  enabled: true", "RuleBlock: r"])
    return "valid", text


def reuse_cases(ctx):
    """histories of 2-6 imports with ONE importer and ONE exporter: texts of one or two generated engines, each broken at a
    random kind of place (or left valid), and a valid text at the end.  The first engines of the stream are also cut inside
    the key of EVERY line in turn (a truncated file ends at any line), each followed by the valid text."""
    rng = ctx.rng
    for i in range(ctx.scale(70, 700)):
        d = 1 + (i % 9)
        with fl.settings.context(decimals=d), np.errstate(all="ignore"):
            valid = [export(G.build(G.gen_engine_spec(rng, d, mode="grid", representable=True, size="small")))
                     for _ in range(rng.choice([1, 2, 2]))]
        steps = []
        for _ in range(rng.randrange(1, 6)):
            label, text = break_text(rng, rng.choice(valid), d, rng.choice(BREAKS))
            steps.append({"label": label, "text": text})
        steps.append({"label": "valid", "text": rng.choice(valid)})
        yield {"kind": "reuse", "decimals": d, "texts": steps}
        if i < ctx.scale(2, 12):
            lines = valid[0].split("\n")
            for j, line in enumerate(lines):
                cut = "\n".join(lines[:j] + [line[:max(line.find(":"), 1)]])
                yield {"kind": "reuse", "decimals": d, "texts": [{"label": f"cut-before-colon of line {j + 1}", "text": cut},
                                                                 {"label": "valid", "text": valid[-1]}]}


def shrink_reuse(case):
    """fewest imports that still fail (the last one is kept), then the shortest failing prefix"""
    cur = case
    i = 0
    while len(cur["texts"]) > 1 and i < len(cur["texts"]) - 1:
        cand = dict(cur, texts=cur["texts"][:i] + cur["texts"][i + 1:])
        if not oracle(cand)[0]:
            cur = cand
        else:
            i += 1
    for n in range(1, len(cur["texts"])):
        cand = dict(cur, texts=cur["texts"][:n])
        if not oracle(cand)[0]:
            return cand
    return cur


# --------------------------------------------------------------------------------------------- identifiers of any alphabet
def wide_name_cases(ctx):
    """the quantifier's "identifier names": engines as in `engine_cases` whose variables and terms carry identifiers with
    letters and digits outside ASCII (`G.rename_identifiers`), referred to by the rules and the Function formulas; single
    terms with such names.  The same oracle as every engine / term case; the names must come back unchanged."""
    rng = ctx.rng
    classes = list(G.term_classes())
    for i in range(ctx.scale(45, 600)):
        d = 1 + (i % 9)
        rep = i % 3 == 0
        spec = G.gen_engine_spec(rng, d, mode="grid" if rep else "float", representable=rep,
                                 force_terms=[classes[i % len(classes)]] + (["Function"] if i % 2 else []), size="small")
        G.rename_identifiers(rng, spec)
        case = {"kind": "engine", "decimals": d, "spec": spec, "representable": rep}
        if rep:
            case["rows"] = G.input_rows(rng, spec, ctx.scale(3, 8))
        yield case
        first, rest = G.IDENT_FIRST_WIDE + G.IDENT_FIRST, G.IDENT_REST_WIDE + G.IDENT_REST
        yield {"kind": "term", "decimals": d,
               "spec": G.gen_term(rng, classes[i % len(classes)], G.ident(rng, set(), first=first, rest=rest), d, "grid", ["a", "b"], False)}


def later_families(ctx):
    """families added after the model batch (their random choices are drawn after every other stream of the check); judged by
    the property oracle on the implementation"""
    st = ctx.stats
    out = []
    for case in reuse_cases(ctx):
        with np.errstate(all="ignore"):
            ok, detail = oracle(case)
        st.count("reuse-" + "+".join(sorted({s_["label"].split(":")[0].split(" of ")[0] for s_ in case["texts"][:-1]}))[:60])
        st.count("oracle-reuse")
        st.case(("reuse", case["decimals"], json.dumps(case["texts"], sort_keys=True)), True)
        if not ok:
            small = shrink_reuse(case)
            out.append({"case": small, "violation": True, "detail": oracle(small)[1], "what": oracle(small)[1]})
            if len(out) > 10:
                return out
    for case in wide_name_cases(ctx):
        with np.errstate(all="ignore"):
            ok, detail = oracle(case)
        st.count("wide-names-" + case["kind"])
        st.case(("wide", case["kind"], case["decimals"], json.dumps(case["spec"], sort_keys=True)), True)
        if not ok:
            if case["kind"] == "engine":
                case = shrink_engine(case, lambda c: not oracle(c)[0])
                detail = oracle(case)[1]
            out.append({"case": case, "violation": True, "detail": detail, "what": detail})
            if len(out) > 10:
                return out
    return out


def first_diff(a: str, b: str) -> str:
    la, lb = a.split("\n"), b.split("\n")
    for i in range(max(len(la), len(lb))):
        x = la[i] if i < len(la) else "<missing>"
        y = lb[i] if i < len(lb) else "<missing>"
        if x != y:
            return f"line {i + 1}: {x.strip()!r} vs {y.strip()!r}"
    return "?"


# --------------------------------------------------------------------------------------------- shrinking

def referenced(spec):
    words = set()
    for b in spec["blocks"]:
        for r in b["rules"]:
            words |= set((r["antecedent"] + " " + r["consequent"]).split())
    for v in spec["inputs"] + spec["outputs"]:
        for t in v["terms"]:
            if t["cls"] == "Function":
                words |= set(re.findall(r"[^\W\d]\w*", t["formula"]))
    return words


def drop_var(case, grp, vi):
    case["spec"][grp].pop(vi)
    if grp == "inputs" and case.get("rows"):
        case["rows"] = [r[:vi] + r[vi + 1:] for r in case["rows"]]


def shrink_engine(case, fails):
    """greedy deletion of blocks, rules, terms, variables while the oracle keeps failing"""
    cur = copy.deepcopy(case)

    def attempt(mutate):
        nonlocal cur
        cand = copy.deepcopy(cur)
        try:
            if mutate(cand) is False:
                return False
            G.build(cand["spec"])
            if fails(cand):
                cur = cand
                return True
        except Exception:  # noqa: BLE001
            return False
        return False

    changed = True
    budget = 200
    while changed and budget > 0:
        changed = False
        sp = cur["spec"]
        for bi in range(len(sp["blocks"]) - 1, -1, -1):
            budget -= 1
            if attempt(lambda c, bi=bi: c["spec"]["blocks"].pop(bi)):
                changed = True
        sp = cur["spec"]
        for bi in range(len(sp["blocks"])):
            for ri in range(len(sp["blocks"][bi]["rules"]) - 1, -1, -1):
                budget -= 1
                if attempt(lambda c, bi=bi, ri=ri: c["spec"]["blocks"][bi]["rules"].pop(ri)):
                    changed = True
        for grp in ("outputs", "inputs"):
            for vi in range(len(cur["spec"][grp]) - 1, -1, -1):
                v = cur["spec"][grp][vi]
                refs = referenced(cur["spec"])
                n_lin = any(t["cls"] == "Linear" for o in cur["spec"]["outputs"] for t in o["terms"])
                if v["name"] not in refs and not (grp == "inputs" and n_lin):
                    budget -= 1
                    if attempt(lambda c, grp=grp, vi=vi: drop_var(c, grp, vi)):
                        changed = True
                        continue
                for ti in range(len(cur["spec"][grp][vi]["terms"]) - 1, -1, -1):
                    if cur["spec"][grp][vi]["terms"][ti]["name"] in referenced(cur["spec"]):
                        continue
                    budget -= 1
                    if attempt(lambda c, grp=grp, vi=vi, ti=ti: c["spec"][grp][vi]["terms"].pop(ti)):
                        changed = True
    return cur


# --------------------------------------------------------------------------------------------- text mutations

NUM_RE = re.compile(r"(?<![\w.+-])[-+]?\d+\.\d+(?![\w.])")


ANY_NUM_RE = re.compile(r"(?<![\w.])[-+]?(?:\d+\.?\d*|\.\d+)(?:[eE][-+]?\d+)?(?![\w.])")


def decimal_exact(text: str, d: int) -> bool:
    """every numeric literal prints the same at d decimals whether read exactly or through the nearest double"""
    from decimal import ROUND_HALF_EVEN, Decimal, InvalidOperation
    q = Decimal(1).scaleb(-d)
    for line in text.split("\n"):
        body = line.split("#")[0]
        if ":" not in body or body.strip().split(":")[0] in ("description", "Engine", "InputVariable", "OutputVariable", "RuleBlock"):
            continue
        for m in ANY_NUM_RE.findall(body.split(":", 1)[1]):
            try:
                exact = Decimal(m).quantize(q, rounding=ROUND_HALF_EVEN)
                via_double = Decimal(float(m)).quantize(q, rounding=ROUND_HALF_EVEN)
            except (InvalidOperation, ValueError):
                continue
            if exact != via_double:
                return False
    return True


def mutate_text(rng, text: str, d: int):
    """returns (mutated text, label); the labels starting with `bad-` are meant to be rejected"""
    lines = text.split("\n")
    body = [i for i, l in enumerate(lines) if l.startswith("  ")]
    pick = rng.random()

    def renumber(m):
        x = float(m.group(0))
        r = rng.random()
        if r < 0.25:
            return f"{x:.{d + rng.randrange(1, 4)}f}"
        if r < 0.45:
            return f"{x:e}"
        if r < 0.6:
            return repr(x)
        if r < 0.7:
            return "+" + m.group(0) if not m.group(0).startswith(("-", "+")) else m.group(0)
        if r < 0.85:
            return f"{x + rng.uniform(-1, 1) * 10.0 ** -(d + 1):.{d + 2}f}"
        return m.group(0)

    if pick < 0.22:
        out = []
        for l in lines:
            if l.lstrip().startswith(("description:", "Engine:", "RuleBlock:", "InputVariable:", "OutputVariable:")) or " Function " in l:
                out.append(l)
            else:
                out.append(NUM_RE.sub(renumber, l))
        return "\n".join(out), "numbers"
    if pick < 0.34:
        out = []
        for l in lines:
            if l and rng.random() < 0.3:
                l = l + rng.choice(["  # comment", "\t#x", " #", "   "])
            if rng.random() < 0.1:
                out.append(rng.choice(["", "   ", "# only a comment", "\t"]))
            out.append(("\t" + l.strip()) if (l.startswith("  ") and rng.random() < 0.2) else l)
        return "\n".join(out), "comments"
    if pick < 0.44 and body:
        # shuffle the property lines of one block (terms and rules keep their relative order)
        i = rng.choice(body)
        lo = i
        while lo - 1 >= 0 and lines[lo - 1].startswith("  "):
            lo -= 1
        hi = i
        while hi + 1 < len(lines) and lines[hi + 1].startswith("  "):
            hi += 1
        blk = lines[lo:hi + 1]
        props = [l for l in blk if not l.lstrip().startswith(("term:", "rule:"))]
        rest = [l for l in blk if l.lstrip().startswith(("term:", "rule:"))]
        rng.shuffle(props)
        merged = props + rest if rng.random() < 0.5 else rest + props
        return "\n".join(lines[:lo] + merged + lines[hi + 1:]), "order"
    if pick < 0.54 and body:
        i = rng.choice(body)
        k = lines[i].strip().split(":")[0]
        alt = {"enabled": "  enabled: " + rng.choice(["true", "false"]), "lock-range": "  lock-range: " + rng.choice(["true", "false"]),
               "lock-previous": "  lock-previous: " + rng.choice(["true", "false"]), "range": "  range: -1.5 2.25",
               "default": "  default: " + rng.choice(["nan", "0.5", "-inf", "1e-3"]), "description": "  description: another text",
               "defuzzifier": "  defuzzifier: " + rng.choice(["Centroid 20", "none", "WeightedSum", "Bisector", "MeanOfMaximum 1000"]),
               "aggregation": "  aggregation: " + rng.choice(["Maximum", "none", "EinsteinSum"]),
               "conjunction": "  conjunction: " + rng.choice(["Minimum", "none"]),
               "activation": "  activation: " + rng.choice(["General", "none", "First 2 0.125", "Highest 3", "Threshold >= 0.5",
                                                            "General ignored words", "Proportional", "Lowest", "Last"])}
        if k in alt:
            j = i + 1 if rng.random() < 0.5 else i
            return "\n".join(lines[:j] + [alt[k]] + lines[j:]), "duplicate"
    if pick < 0.64 and body:
        cands = [i for i in body if lines[i].strip().split(":")[0] in
                 ("enabled", "range", "lock-range", "lock-previous", "default", "aggregation", "defuzzifier", "conjunction",
                  "disjunction", "implication", "activation", "description")]
        if cands:
            i = rng.choice(cands)
            return "\n".join(lines[:i] + lines[i + 1:]), "omitted"
    if pick < 0.74:
        cands = [i for i in body if lines[i].lstrip().startswith("term:") and " Function " not in lines[i]]
        if cands:
            i = rng.choice(cands)
            parts = lines[i].split()
            r = rng.random()
            if r < 0.3:
                new = "  " + " ".join(parts[:3])          # no parameters at all
                lab = "term-bare"
            elif r < 0.75 and parts[2] not in ("Discrete", "Linear", "Constant"):
                h = rng.choice([1.0, 0.5, 1.0004, 0.9996, 1 - 0.6 * 10.0 ** -d, 1 + 0.6 * 10.0 ** -d, 0.9986, 1.0035, 0.96, 1.04])
                if G.fragile_height(h, d):
                    h = 0.5
                n = {c: len(G.shape_params(k)) for c, k in G.term_classes().items()}.get(parts[2], None)
                if n is None or len(parts) - 3 not in (n, n + 1):
                    return text, "same"
                new = "  " + " ".join(parts[:3 + n] + [repr(h)])
                lab = "term-height"
            else:
                new = lines[i] + " 0.5 0.25 0.125 3 4 5 6"       # too many parameters (Discrete / Linear accept them)
                lab = "bad-arity" if parts[2] not in ("Discrete", "Linear") else "term-more"
            return "\n".join(lines[:i] + [new] + lines[i + 1:]), lab
    # malformed
    if body:
        i = rng.choice(body)
        l = lines[i]
        r = rng.random()
        k = l.strip().split(":")[0]
        if r < 0.2:
            new, lab = l.replace(":", " ", 1), "bad-colon"
        elif r < 0.4 and k in ("enabled", "lock-range", "lock-previous"):
            new, lab = f"  {k}: " + rng.choice(["True", "yes", "1", "true false", ""]), "bad-boolean"
        elif r < 0.55:
            new, lab = "  colour: red", "bad-key"
        elif r < 0.7 and k == "term":
            p = l.split()
            p[2] = "Triangel"
            new, lab = "  " + " ".join(p), "bad-class"
        elif r < 0.8 and k == "range":
            new, lab = rng.choice(["  range: 0.0", "  range: 0 1 2", "  range: a b", "  range:"]), "bad-range"
        elif r < 0.9 and k in ("defuzzifier", "activation", "aggregation", "conjunction", "disjunction", "implication"):
            new, lab = f"  {k}: " + rng.choice(["Nothing", "Centroid x", "Centroid 1.5", "WeightedAverage Sugeno", "First 1", "First a b",
                                                  "Highest 1.0", "Threshold => 1", "Threshold > x", "Minimum 3", "none 1"]), "bad-component"
        elif k == "rule":
            new, lab = rng.choice(["  rule: when a is b then c is d", "  rule: if a is b", l + " with", l.split(" with ")[0] + " with x",
                                   l.split(" with ")[0] + " with 0.5 extra", "  rule: if then", "  rule:"]), "bad-rule"
        else:
            new, lab = l, "same"
        return "\n".join(lines[:i] + [new] + lines[i + 1:]), lab
    return text, "same"


# --------------------------------------------------------------------------------------------- correspondence

def engine_cases(ctx):
    rng = ctx.rng
    n = ctx.scale(330, 3000)
    classes = list(G.term_classes())
    for i in range(n):
        d = 1 + (i % 9)
        mode = "grid" if i % 3 == 0 else "float"
        rep = i % 3 == 0
        force = [classes[(2 * i) % len(classes)], classes[(2 * i + 1) % len(classes)]]
        spec = G.gen_engine_spec(rng, d, mode=mode, representable=rep, force_terms=force,
                                 size="small" if i % 7 else "large")
        case = {"kind": "engine", "decimals": d, "spec": spec, "representable": rep}
        if i % 5 == 2:
            case["touch"] = True
        if rep:
            case["rows"] = G.input_rows(rng, spec, ctx.scale(5, 12))
        yield case
        if i % 4 == 1:   # the same engine at another number of decimals
            d2 = rng.randrange(1, 10)
            yield {"kind": "engine", "decimals": d2, "spec": spec, "representable": False}


def spacing_cases(ctx):
    """the quantifier's "single-line descriptions without '#'" and the parameter text of Function terms taken as free text:
    engines as above whose descriptions (engine, variables, rule blocks) hold runs of blanks, tabs, colons and every
    printable punctuation character, and whose formulas are spaced out (`G.respace`); the same oracle as every engine case
    (text, structure incl. description and formula, outputs when representable, fixed point)"""
    rng = ctx.rng
    for i in range(ctx.scale(36, 400)):
        d = 1 + (i % 9)
        rep = i % 3 == 0
        spec = G.gen_engine_spec(rng, d, mode="grid" if rep else "float", representable=rep,
                                 force_terms=["Function"] if i % 2 else ["Discrete"], size="small")
        # two accidents of the random names and numbers, kept out of this family (no draw is involved): an inert
        # substitution variable of a Function term that carries the name of a variable of the engine (a name clash that
        # membership() must reject - C17 - and that the FuzzyLite Language, which does not carry substitution variables,
        # cannot reproduce), and a shape parameter that is exactly 0 (a width or slope of 0 divides by zero: ZeroDivisionError
        # with the Python floats of a built engine, inf / nan with the NumPy floats of an imported one)
        names = {v["name"] for v in spec["inputs"] + spec["outputs"]}
        for v in spec["inputs"] + spec["outputs"]:
            for t in v["terms"]:
                for k in [k for k in t.get("variables", {}) if k in names]:
                    del t["variables"][k]
                if "params" in t:
                    t["params"] = [G.fhex(10.0 ** -d) if G.unhex(x) == 0 else x for x in t["params"]]
        G.respace(rng, spec)
        if i % 2 == 0:
            # pairs of Discrete terms in any order (descending, shuffled, repeated abscissa), terms built through every
            # construction path: the text lists the pairs as stored and the import must store them as listed
            G.discrete_layouts(rng, spec, d, "grid" if rep else "float")
        case = {"kind": "engine", "decimals": d, "spec": spec, "representable": rep}
        if rep:
            case["rows"] = G.input_rows(rng, spec, ctx.scale(3, 8))
        yield case


def component_cases(ctx):
    rng = ctx.rng
    classes = list(G.term_classes())
    for rnd in range(ctx.scale(6, 40)):
        for d in range(1, 10):
            for cn in classes:
                mode = rng.choice(["grid", "float"])
                yield {"kind": "term", "decimals": d,
                       "spec": G.gen_term(rng, cn, rng.choice(["t", "a_1", "9x", "p q", "x-y"]), d, mode, ["a", "b"], False)}
            for _ in range(3):
                s = G.gen_defuzz(rng, rng.random() < 0.4)
                if s is not None:
                    yield {"kind": "defuzzifier", "decimals": d, "spec": s}
                s = G.gen_activation(rng, d, rng.choice(["grid", "float"]))
                if s is not None:
                    yield {"kind": "activation", "decimals": d, "spec": s}
                yield {"kind": "rule", "decimals": d,
                       "spec": G.gen_rule(rng, {"a": ["lo", "hi"], "b": ["m"]}, {"o": ["x", "y"]}, d, False)}


BAD_PARAMS = ["", "1", "1 2", "1 2 3 4 5 6 7", "x", "1 x", "nan inf -inf", "0.5"]


def correspond(ctx):
    st = ctx.stats
    mism = []
    tol = tol_token()
    lines, jobs = [], []   # jobs: (kind of comparison, payload) aligned with lines

    def ask(line, job):
        lines.append(C.sx(line))
        jobs.append(job)

    def violation(case, detail, what=None):
        mism.append({"case": case, "violation": True, "detail": detail, "what": what or detail})

    # ---- corpus first
    for path in sorted(glob.glob(os.path.join(CORPUS, "*.json"))):
        case = json.load(open(path)).get("case")
        if not case:
            continue
        ok, detail = oracle(case)
        st.count("corpus")
        if not ok:
            violation(case, detail, f"corpus case {os.path.basename(path)}: {detail}")
        elif case.get("kind") == "text" and case.get("model"):
            # a text on which the model once disagreed with the implementation: compared with the model again
            with fl.settings.context(decimals=int(case["decimals"])), np.errstate(all="ignore"):
                try:
                    real = ("ok", export(fl.FllImporter().from_string(case["text"])))
                except Exception as ex:  # noqa: BLE001
                    real = ("err", kind_of(ex))
            ask(["fll-cycle", int(case["decimals"]), tol, C.hexs(case["text"])], ("cycle", dict(case, label=case.get("label", "corpus")), real))
    # ---- engines
    texts = []
    seen_classes = set()

    def engine_case(case, pool=True):
        nonlocal seen_classes
        d, spec = case["decimals"], case["spec"]
        fragile = G.spec_is_fragile(spec, d)
        with fl.settings.context(decimals=d), np.errstate(all="ignore"):
            e = G.build(spec)
            t1 = export(e)
            ok, detail = oracle(case)
            st.count("oracle-engine")
            if not ok:
                small = shrink_engine(case, lambda c: not oracle(c)[0])
                violation(small, oracle(small)[1])
                return
            e2 = fl.FllImporter().from_string(t1)
            real_import = C.parse_sx(C.sx(G.m_engine(e2)))
        for v in spec["inputs"] + spec["outputs"]:
            seen_classes |= {"term:" + t["cls"] for t in v["terms"]}
            if "defuzzifier" in v and v["defuzzifier"]:
                seen_classes.add("defuzzifier:" + v["defuzzifier"]["cls"])
            if v.get("aggregation"):
                seen_classes.add("snorm:" + v["aggregation"])
        for b in spec["blocks"]:
            for nm, kd in (("conjunction", "tnorm"), ("disjunction", "snorm"), ("implication", "tnorm")):
                if b[nm]:
                    seen_classes.add(f"{kd}:{b[nm]}")
            if b["activation"]:
                seen_classes.add("activation:" + b["activation"]["cls"])
        nontrivial = any(abs(h - 1) > 0 for h, _ in G.heights_and_weights(spec))
        st.case(("engine", d, json.dumps(spec, sort_keys=True)), nontrivial,
                sample={"decimals": d, "text_head": t1[:160]})
        st.count(f"engine-d{d}")
        if fragile:
            st.skipped_fragile += 1
            st.count("engine-fragile(model comparison skipped)")
            return
        me = G.m_engine(e)
        ask(["fll-export", d, tol, me], ("export", case, t1))
        ask(["fll-import", C.hexs(t1)], ("import", case, real_import))
        ask(["fll-canon", d, tol, me], ("canon", case, real_import))
        if pool and len(texts) < ctx.scale(250, 1500):
            texts.append((d, t1))

    for case in engine_cases(ctx):
        engine_case(case)
    # ---- texts with white space at their ends (known finding F16: classified by what exactly happens to the text)
    for case in edge_blank_cases(ctx):
        with fl.settings.context(decimals=case["decimals"]), np.errstate(all="ignore"):
            ok, detail, observed = oracle_edge_blank(case, case["decimals"])
        st.count("edge-blank")
        if not ok:
            violation(dict(case, observed=observed), detail)
    ctx.notes["classes_covered"] = len(seen_classes)
    fm = fl.settings.factory_manager
    expected = {f"term:{k}" for k in G.term_classes()} | {f"tnorm:{k}" for k in G.keys(fm.tnorm)} | \
        {f"snorm:{k}" for k in G.keys(fm.snorm)} | {f"defuzzifier:{k}" for k in G.keys(fm.defuzzifier)} | \
        {f"activation:{k}" for k in G.keys(fm.activation)}
    ctx.notes["classes_not_generated"] = sorted(expected - seen_classes)
    # ---- mutated texts
    for d, t1 in texts:
        for _ in range(ctx.scale(4, 6)):
            text, label = mutate_text(ctx.rng, t1, d)
            if label == "same":
                continue
            case = {"kind": "text", "decimals": d, "text": text, "label": label}
            with fl.settings.context(decimals=d), np.errstate(all="ignore"):
                try:
                    t_out = export(fl.FllImporter().from_string(text))
                    real = ("ok", t_out)
                except (SyntaxError, ValueError, KeyError) as ex:
                    real = ("err", kind_of(ex))
                except Exception as ex:  # noqa: BLE001
                    real = ("err", kind_of(ex))
                ok, detail = oracle(case)
            st.count("text-" + label)
            st.count("oracle-text")
            if not ok:
                violation(case, detail)
                continue
            st.case(("text", d, text), True, sample=None)
            if real[0] == "ok" and any(G.fragile_height(float(m), d) for m in NUM_RE.findall(text)):
                st.skipped_fragile += 1
                continue
            if real[0] == "ok" and not decimal_exact(text, d):
                # a literal whose nearest double prints differently from the exact decimal (CPython's float() is trusted,
                # the model's numbers are exact decimals): compared on the implementation only
                st.skipped_fragile += 1
                st.count("text-double-rounding(model comparison skipped)")
                continue
            ask(["fll-cycle", d, tol, C.hexs(text)], ("cycle", case, real))
    # ---- the text cases of the corpus (inputs found by the code ties of the importer): model import = real import
    for fn in sorted(glob.glob(os.path.join(CORPUS, "*.json"))):
        case = json.load(open(fn))["case"]
        if case.get("kind") != "text":
            continue
        d, text = int(case["decimals"]), case["text"]
        with fl.settings.context(decimals=d), np.errstate(all="ignore"):
            try:
                real = ("ok", export(fl.FllImporter().from_string(text)))
            except Exception as ex:  # noqa: BLE001
                real = ("err", kind_of(ex))
        st.count("text-corpus")
        ask(["fll-cycle", d, tol, C.hexs(text)], ("cycle", case, real))
    # ---- single components
    for case in component_cases(ctx):
        d, k, spec = case["decimals"], case["kind"], case["spec"]
        with fl.settings.context(decimals=d), np.errstate(all="ignore"):
            ok, detail = oracle(case)
            st.count("oracle-" + k)
            if not ok:
                violation(case, detail)
                continue
            if k == "term":
                t = G.build_term(spec)
                line = fl.FllExporter().term(t)
                t2 = fl.FllImporter().term(line)
                frag = "height" in spec and G.fragile_height(G.unhex(spec["height"]), d)
                st.case(("term", d, json.dumps(spec, sort_keys=True)), "height" in spec and G.unhex(spec["height"]) != 1.0)
                if frag:
                    st.skipped_fragile += 1
                    continue
                ask(["fll-term-line", d, tol, G.m_term(t)], ("text", case, "  " + line))
                ask(["fll-term-import", C.hexs(line)], ("sexp", case, C.parse_sx(C.sx(G.m_term(t2)))))
                if ctx.rng.random() < 0.25:      # configure() on parameter texts of the wrong shape
                    bad = f"term: t {spec['cls']} {ctx.rng.choice(BAD_PARAMS)}".rstrip()
                    try:
                        tb = fl.FllImporter().term(bad)
                        realb = ("ok", C.parse_sx(C.sx(G.m_term(tb))))
                    except Exception as ex:  # noqa: BLE001
                        realb = ("err", kind_of(ex))
                    if not (spec["cls"] == "Function" and realb[0] == "err"):
                        ask(["fll-term-import", C.hexs(bad)], ("sexp-or-err", {"kind": "text", "decimals": d, "text": bad}, realb))
            elif k == "defuzzifier":
                x = G.build_defuzz(spec)
                p = fl.FllExporter().defuzzifier(x)
                st.case(("defuzzifier", json.dumps(spec, sort_keys=True)), True)
                ask(["fll-defuzz", d, tol, G.m_defuzz(x)], ("text", case, p))
                ask(["fll-defuzz-import", C.hexs(p)], ("sexp", case, C.parse_sx(C.sx(G.m_defuzz(fl.FllImporter().defuzzifier(p))))))
            elif k == "activation":
                x = G.build_activation(spec)
                p = fl.FllExporter().activation(x)
                st.case(("activation", d, json.dumps(spec, sort_keys=True)), True)
                ask(["fll-activ", d, tol, G.m_activ(x)], ("text", case, p))
                ask(["fll-activ-import", C.hexs(p)], ("sexp", case, C.parse_sx(C.sx(G.m_activ(fl.FllImporter().activation(p))))))
            elif k == "rule":
                r = G.build_rule(spec)
                if G.fragile_height(r.weight, d):
                    st.skipped_fragile += 1
                    continue
                p = r.text
                r2 = fl.Rule()
                r2.parse(p)
                st.case(("rule", d, json.dumps(spec, sort_keys=True)), r.weight != 1.0)
                ask(["fll-rule", d, tol, G.m_rule(r)], ("text", case, p))
                ask(["fll-rule-import", C.hexs(p)], ("sexp", case, C.parse_sx(C.sx(G.m_rule(r2)))))
    # ---- engines whose descriptions and formulas are typed with runs of blanks, tabs and punctuation (drawn last)
    for case in spacing_cases(ctx):
        st.count("engine-spacing")
        engine_case(case, pool=False)
    # ---- the model, one batch
    outs = ctx.driver.eval(lines)
    for (what, case, real), o in zip(jobs, outs):
        st.validated += 1
        if o in ("bad-op", "bad-parse"):
            mism.append({"case": case, "model": o, "what": f"driver could not evaluate the {what} query"})
            continue
        if what in ("export", "text"):
            mt = G.untext(o)
            if mt != real:
                mism.append({"case": case, "impl": first_diff(real, mt), "model": mt[:400],
                             "what": f"{what}: implementation text differs from the model's: {first_diff(real, mt)}"})
        elif what in ("import", "canon", "sexp"):
            p = C.parse_sx(o)
            got = p[1] if (isinstance(p, list) and p and p[0] == "ok") else (p if what == "canon" else None)
            if got is None:
                mism.append({"case": case, "impl": "accepted", "model": o[:200], "what": f"{what}: the model rejects what the implementation accepts"})
                continue
            r = G.same_model(real, got)
            if r:
                mism.append({"case": case, "impl": r, "model": o[:300], "what": f"{what}: imported structure differs from the model's: {r}"})
        elif what == "sexp-or-err":
            p = C.parse_sx(o)
            if real[0] == "err":
                if not (isinstance(p, list) and p[0] == "err" and p[1] == real[1]):
                    mism.append({"case": case, "impl": real, "model": o[:200], "what": f"term parameters: implementation raises {real[1]}, model says {o[:60]}"})
            else:
                if not (isinstance(p, list) and p[0] == "ok") or G.same_model(real[1], p[1]):
                    mism.append({"case": case, "impl": "accepted", "model": o[:200], "what": "term parameters: acceptance / result differs from the model"})
        elif what == "cycle":
            p = C.parse_sx(o)
            if real[0] == "err":
                if not (isinstance(p, list) and p[0] == "err" and p[1] == real[1]):
                    mism.append({"case": case, "impl": real, "model": o[:200],
                                 "what": f"text ({case['label']}): implementation rejects with {real[1]}, model says {o[:60]}"})
            else:
                if not (isinstance(p, list) and p[0] == "ok"):
                    mism.append({"case": case, "impl": "accepted", "model": o[:200],
                                 "what": f"text ({case['label']}): implementation accepts, model says {o[:60]}"})
                elif G.untext(p[1]) != real[1]:
                    mism.append({"case": case, "impl": first_diff(real[1], G.untext(p[1])), "model": "text",
                                 "what": f"text ({case['label']}): normalised text differs from the model's: {first_diff(real[1], G.untext(p[1]))}"})
        if len(mism) > 25:
            break
    probes(ctx)
    # Engine.configure against Op.Engine.configure (model of the code tie `code_engineConfigure`)
    mism += S_W5.run_configure(ctx)
    # one importer used for several imports; identifiers of any alphabet (both drawn after everything above)
    mism += later_families(ctx)
    return mism


def probes(ctx):
    """informational observations recorded for triage (DESIGN section 7 readings); never a verdict"""
    notes = {}
    with fl.settings.context(decimals=3):
        e = fl.Engine("e", input_variables=[fl.InputVariable("a", minimum=0, maximum=1, terms=[fl.Triangle("t", 0, 1, 2)])])
        t1 = export(e)
        t2 = export(fl.FllImporter().from_string(t1))
        notes["int_parameters_fixed_point_after_first_cycle"] = (t1 != t2) and export(fl.FllImporter().from_string(t2)) == t2
        notes["int_parameters_first_text"] = [l.strip() for l in t1.split("\n") if "range" in l or "term" in l]
        e = fl.Engine("e", input_variables=[fl.InputVariable("a", terms=[fl.Triangle("t", 0.0, 1.0, 2.0)])],
                      output_variables=[fl.OutputVariable("o", terms=[fl.Triangle("u", 0.0, 1.0, 2.0)])],
                      rule_blocks=[fl.RuleBlock("r", rules=[fl.Rule.create("if a is t then o is u")])])
        e.rule_blocks[0].rules[0].enabled = False
        e2 = fl.FllImporter().from_string(export(e))
        notes["rule_enabled_flag_is_not_carried"] = e2.rule_blocks[0].rules[0].enabled is True
        c = fl.Constant("c", 0.5)
        c.height = 0.5
        try:
            fl.FllImporter().term(fl.FllExporter().term(c))
            notes["constant_with_height_attribute"] = "accepted"
        except Exception as ex:  # noqa: BLE001
            notes["constant_with_height_attribute"] = f"export {fl.FllExporter().term(c)!r} is rejected: {type(ex).__name__}"
    ctx.notes["probes"] = notes


def search(ctx):
    for gen in (engine_cases, component_cases, spacing_cases):
        for case in gen(ctx):
            ok, d = oracle(case)
            if not ok:
                if case["kind"] == "engine":
                    case = shrink_engine(case, lambda c: not oracle(c)[0])
                    d = oracle(case)[1]
                return [(case, d)]
    for m in later_families(ctx):
        return [(m["case"], m["detail"])]
    return []
