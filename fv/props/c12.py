"""C12 — Output values follow the lock-previous / default / lock-range cascade (DESIGN.md section 8, C12)."""
from __future__ import annotations

import functools
import itertools
import math

import numpy as np

import common as C
import fuzzylite as fl

PID = "C12"
MODULES = ["FlVerif.Props.C12"]
NAMESPACE = "C12"
TIE_A = ["Setter.value", "code:fuzzylite.variable.OutputVariable.defuzzify", "code:fuzzylite.variable.Variable.value.fset",
         "code:fuzzylite.variable.Variable.drange.fget", "code:fuzzylite.variable.Variable.range.fget",
         "code:fuzzylite.variable.Variable.range.fset"]
RULE = ("operation sequences {defuzzify(batch of injected defuzzified values through a stub defuzzifier returning a 1-D "
        "array / 0-d array / numpy scalar / Python float), defuzzify(raises), clear, enable/disable} x 16 settings "
        "(lock-previous x default in {NaN, in range, out of range} x lock-range); exhaustive: every value sequence of "
        "length <= 4 over {NaN, in range, below, above, second in-range value} under EVERY split into successive calls; "
        "plus a random stream with +-inf values, failures and clear(). non-trivial: at least one NaN row is filled "
        "(lock-previous or default) or one row is clipped; distinct = distinct (setting, operation sequence)")
RULE += (" Families `faults` / `random-faults`: the failure is raised with EVERY exception class (all built-in subclasses of Exception that take a message, two user-defined ones) through the stub, and by the library's own defuzzifiers (WeightedAverage, WeightedSum, the five integral ones) on a set activated with degree 0 .. 1 under np.errstate(all='raise') (0/0 is a FloatingPointError there); from four states, for all 16 settings, and at random positions of random histories; the class that reaches the caller is compared as well.")
RULE += (" Family `kept tables`: the defuzzified values come from a defuzzifier that hands out float64 arrays (1-D / 0-d) it KEEPS - the same object on every call, one defuzzifier object also shared by two output variables with different settings; the same table twice, with clear() / other tables / plain calls between, both variables in turn, the owner re-recording a table in place; 16 settings x 8 tables x 6 histories and random histories; observed: value / previous value of both variables (model: each variable's own view of the history) and the tables, which must hold what their owner recorded.")
ASSUMPTIONS = ["values are compared exactly (no arithmetic happens in the cascade)",
               "a scalar value is a batch of one row (shape is canonicalised with numpy.atleast_1d)"]
LEVEL_TEXT = ("Lean theorems about Op.commit, a statement-by-statement model of OutputVariable.defuzzify, for batches and "
              "histories of ANY length and all settings at once: row_spec/single_row (each committed row is the documented "
              "cascade: defuzzified value, else most recent value under lock-previous, else default, then clipped), "
              "closed_form_lock/nolock (row i = post-processing of the last non-NaN defuzzified value among rows <= i, else of "
              "the value held before the call), split_invariant (one call on xs++ys commits the same rows as a call on xs "
              "followed by a call on ys, hence under every split into calls/batches), batch_eq_rows, "
              "previous_is_last_before_call, disabled_untouched, raise_unchanged, clear_resets, clip_idempotent, "
              "locked_in_range. Correspondence: the implementation is driven through the same operation sequences as the "
              "Lean model (exhaustive up to length 4 for all 16 settings (lock-previous x lock-range x default in {NaN, 0.75, 3.0 (out of range), 0.0}) and all splits) and compared exactly.")
LEVEL_NOTE = ("Trusted: Lean kernel, standard axioms, the hand-written Op.Cascade model (tied to variable.py only by the "
              "correspondence run), numpy.nditer/clip semantics. The stub defuzzifier stands for any defuzzifier; what the "
              "real defuzzifiers return is covered by C09/C10/C02.")
TECHNIQUE = "Lean 4 proof (list induction) about a code-shaped model of OutputVariable.defuzzify + exhaustive/random differential run against the implementation"

NAN = math.nan
POOL = [NAN, 0.5, -1.0, 2.0, 0.25]
DEFAULTS = [NAN, 0.75, 3.0, 0.0]      # 0.0: a legal default that is falsy in Python


class Boom(RuntimeError):
    pass


class Custom(Exception):
    """a failure class of the application's own (a user-defined defuzzifier or Function term may raise anything)"""


def exception_classes():
    """'if defuzzification raises': the property does not say *what* is raised, so every class is a case - all built-in
    subclasses of Exception that can be made from a message (arithmetic ones such as FloatingPointError / ZeroDivisionError /
    OverflowError, look-up, type, value, runtime, OS, warning categories used as errors, ...) and two user-defined ones"""
    import builtins
    out = {"Boom": Boom, "Custom": Custom}
    for name in sorted(dir(builtins)):
        obj = getattr(builtins, name)
        if isinstance(obj, type) and issubclass(obj, Exception) and obj.__name__ == name:
            try:
                obj("injected defuzzifier failure")
            except Exception:  # noqa: BLE001  (needs more arguments, e.g. UnicodeDecodeError)
                continue
            out[name] = obj
    return out


EXC = exception_classes()
REAL = ["WeightedAverage", "WeightedSum", "Centroid", "Bisector", "MeanOfMaximum", "SmallestOfMaximum", "LargestOfMaximum"]


class Inject:
    def __init__(self, name):
        self.cls = EXC[name]


class Stub(fl.Defuzzifier):
    def __init__(self, tables=None):
        self.queue = []
        # recorded / looked-up results that the defuzzifier KEEPS: ("replay", k) hands out the same float64 array object on
        # every call (a list is a 1-D array, a bare number a 0-d array)
        self.tables = [np.array([float(x) for x in t] if isinstance(t, list) else float(t), dtype=float) for t in (tables or [])]

    def defuzzify(self, term, minimum, maximum):
        v = self.queue.pop(0)
        if v is None:
            raise Boom("injected defuzzifier failure")
        if isinstance(v, Inject):
            raise v.cls("injected defuzzifier failure")
        return v


def raise_class(op):
    """("raise",) is the original injected failure; ("raise", name) names the class"""
    return op[1] if len(op) > 1 else "Boom"


def real_set(ov, degree):
    return [fl.Activated(ov.terms[0], float(degree), fl.Minimum())]


@functools.lru_cache(maxsize=None)
def real_outcome(kind, degree, lo, hi):
    """what a defuzzifier of the library does ON ITS OWN with the fuzzy set {degree / Triangle(0, 0.5, 1)} while NumPy is
    told to raise on floating-point errors (np.errstate(all="raise"), a legitimate setting of an application): ("raise",
    class name) - e.g. 0/0 when nothing is activated - or ("value", v).  The defuzzifier is not what C12 is about (C09 / C10
    are); what the output variable does with this outcome is."""
    t = fl.Triangle("t", 0, 0.5, 1)
    agg = fl.Aggregated("o", lo, hi, fl.Maximum(), [fl.Activated(t, float(degree), fl.Minimum())])
    try:
        with np.errstate(all="raise"):
            v = getattr(fl, kind)().defuzzify(agg, lo, hi)
        return ("value", canon(v))
    except Exception as ex:  # noqa: BLE001
        return ("raise", type(ex).__name__)


def mk_value(vals, rtype):
    if len(vals) > 1 or rtype == "arr1":
        return np.array(vals, dtype=float)
    if rtype == "arr0":
        return np.array(vals[0], dtype=float)
    if rtype == "np64":
        return np.float64(vals[0])
    return float(vals[0])


def canon(v):
    return [float(x) for x in np.atleast_1d(np.asarray(v, dtype=float)).ravel()]


def bounds(setting):
    """the range of the output variable: [0, 1] unless the setting carries its own (4th, 5th component)"""
    return (float(setting[3]), float(setting[4])) if len(setting) > 3 else (0.0, 1.0)


def op_var(op):
    """the output variable an operation acts on: 0 unless the operation names another one (last component)"""
    n = {"replay": 3, "clear": 2, "enable": 3}.get(op[0])
    return int(op[n - 1]) if n and len(op) >= n else 0


def run_impl(setting, ops, tables=None, setting2=None):
    """returns list of observations (value list, previous, raised-class-or-None, fuzzy unchanged[, kept]) after each op;
    `kept` (histories with tables): what the second variable holds and what the tables of the defuzzifier hold"""
    lp, lr, dv = setting[:3]
    lo, hi = bounds(setting)
    st = Stub(tables)
    ov = fl.OutputVariable("o", minimum=lo, maximum=hi, lock_range=lr, lock_previous=lp, default_value=dv,
                           defuzzifier=st, aggregation=fl.Maximum(), terms=[fl.Triangle("t", 0, 0.5, 1)])
    ov.fuzzy.terms.append(fl.Activated(ov.terms[0], 0.5, fl.Minimum()))
    ovs = [ov]
    if setting2 is not None:
        # a second output variable of the engine with settings of its own and the SAME defuzzifier object
        lo2, hi2 = bounds(setting2)
        ov2 = fl.OutputVariable("p", minimum=lo2, maximum=hi2, lock_range=setting2[1], lock_previous=setting2[0],
                                default_value=setting2[2], defuzzifier=st, aggregation=fl.Maximum(),
                                terms=[fl.Triangle("t", 0, 0.5, 1)])
        ov2.fuzzy.terms.append(fl.Activated(ov2.terms[0], 0.5, fl.Minimum()))
        ovs.append(ov2)
    obs = []
    for op in ops:
        raised = None
        fuzzy_before = list(ov.fuzzy.terms)
        try:
            if op[0] == "replay":
                st.queue = [st.tables[int(op[1])]]
                ovs[op_var(op)].defuzzify()
            elif op[0] == "refill":
                # the owner of the table records new results into it (in place, same length)
                st.tables[int(op[1])][...] = np.array(op[2], dtype=float).reshape(st.tables[int(op[1])].shape)
            elif op[0] in ("clear", "enable") and op_var(op) == 1:
                if op[0] == "clear":
                    ovs[1].clear()
                    ovs[1].fuzzy.terms.append(fl.Activated(ovs[1].terms[0], 0.5, fl.Minimum()))
                else:
                    ovs[1].enabled = bool(op[1])
            elif op[0] == "defuzz":
                st.queue = [mk_value(op[1], op[2])]
                ov.defuzzify()
            elif op[0] == "raise":
                st.queue = [None if len(op) == 1 else Inject(op[1])]
                ov.defuzzify()
            elif op[0] == "real":
                # a defuzzifier of the library on a set activated with the given degree, NumPy raising on 0/0
                ov.fuzzy.terms[:] = real_set(ov, op[2])
                fuzzy_before = list(ov.fuzzy.terms)
                ov.defuzzifier = getattr(fl, op[1])()
                try:
                    with np.errstate(all="raise"):
                        ov.defuzzify()
                finally:
                    ov.defuzzifier = st
            elif op[0] == "clear":
                ov.clear()
                ov.fuzzy.terms.append(fl.Activated(ov.terms[0], 0.5, fl.Minimum()))
                fuzzy_before = list(ov.fuzzy.terms)
            elif op[0] == "enable":
                ov.enabled = bool(op[1])
        except Exception as ex:  # noqa: BLE001
            raised = type(ex).__name__
        fuzzy_same = len(fuzzy_before) == len(ov.fuzzy.terms) and all(a is b for a, b in zip(fuzzy_before, ov.fuzzy.terms))
        if tables is None:
            obs.append((canon(ov.value), float(ov.previous_value), raised, fuzzy_same))
        else:
            kept = {"tables": [canon(t) for t in st.tables]}
            if len(ovs) > 1:
                kept["value2"], kept["previous2"] = canon(ovs[1].value), float(ovs[1].previous_value)
            obs.append((canon(ov.value), float(ov.previous_value), raised, fuzzy_same, kept))
    return obs


def spec(setting, ops, tables=None, setting2=None):
    """the documented cascade, row by row (independent Python oracle)"""
    if tables is not None:
        return spec_kept(setting, ops, tables, setting2)
    lp, lr, dv = setting[:3]
    lo, hi = bounds(setting)
    value, prev, enabled = [NAN], NAN, True
    out = []

    def clip(v):
        return v if v != v else min(max(v, lo), hi)

    for op in ops:
        raised = None
        if op[0] == "enable":
            enabled = bool(op[1])
        elif op[0] == "clear":
            value, prev = [NAN], NAN
        elif op[0] == "raise":
            if enabled:
                raised = raise_class(op)
        elif op[0] == "real" and enabled and real_outcome(op[1], op[2], lo, hi)[0] == "raise":
            raised = real_outcome(op[1], op[2], lo, hi)[1]
        elif enabled:
            recent = value[-1]
            prev = recent
            rows = []
            for raw in (op[1] if op[0] == "defuzz" else real_outcome(op[1], op[2], lo, hi)[1]):
                v = raw
                if v != v and lp:
                    v = recent
                if v != v and dv == dv:
                    v = dv
                if lr:
                    v = clip(v)
                rows.append(v)
                recent = v
            value = rows
        out.append((list(value), prev, raised))
    return out


def project(ops, tables, var):
    """the history as ONE variable lives it, in the plain vocabulary (defuzz / raise / clear / enable): a defuzzifier that
    hands out an array it keeps is, for the variable, a defuzzifier that returned those numbers - the recorded ones, as the
    owner last wrote them; what happens to the other variable, and the owner rewriting a table, is nothing at all (written
    as re-stating the enabled flag, so that every operation keeps its place in the sequence)"""
    tabs = [list(t) if isinstance(t, list) else [t] for t in tables]
    enabled, out = True, []
    for op in ops:
        op = tuple(op)
        mine = op_var(op) == var
        if op[0] == "refill":
            tabs[int(op[1])] = [float(x) for x in op[2]]
            out.append(("enable", enabled))
        elif not mine:
            out.append(("enable", enabled))
        elif op[0] == "replay":
            out.append(("defuzz", list(tabs[int(op[1])]), "arr1"))
        elif op[0] == "clear":
            out.append(("clear",))
        elif op[0] == "enable":
            enabled = bool(op[1])
            out.append(("enable", enabled))
        else:
            out.append(op)
    return out


def spec_kept(setting, ops, tables, setting2):
    """histories with a defuzzifier that keeps what it hands out: every variable follows the documented cascade on the
    RECORDED values (`project`), and the tables hold what their owner wrote - defuzzifying reads them"""
    one = spec(setting, project(ops, tables, 0))
    two = spec(setting2, project(ops, tables, 1)) if setting2 is not None else None
    tabs = [list(t) if isinstance(t, list) else [t] for t in tables]
    out = []
    for i, op in enumerate(ops):
        if op[0] == "refill":
            tabs[int(op[1])] = [float(x) for x in op[2]]
        kept = {"tables": [list(t) for t in tabs]}
        raised = one[i][2]
        if two is not None:
            kept["value2"], kept["previous2"] = two[i][0], two[i][1]
            raised = raised if op_var(op) == 0 else two[i][2]
        out.append((one[i][0], one[i][1], raised, kept))
    return out


def same(a, b):
    return (a != a and b != b) or a == b


def to_line(setting, ops):
    lp, lr, dv = setting[:3]
    lo, hi = bounds(setting)
    sops = []
    for op in ops:
        if op[0] == "defuzz":
            sops.append(["defuzz"] + list(op[1]))
        elif op[0] == "raise":
            sops.append(["raise"])
        elif op[0] == "real":
            kind, out = real_outcome(op[1], op[2], lo, hi)
            sops.append(["raise"] if kind == "raise" else ["defuzz"] + list(out))
        elif op[0] == "clear":
            sops.append(["clear"])
        else:
            sops.append(["enable", 1 if op[1] else 0])
    return C.sx(["cascade", [lp, lr, dv, lo, hi], sops])


def compositions(n):
    for bits in itertools.product([0, 1], repeat=n - 1):
        parts, cur = [], 1
        for b in bits:
            if b:
                parts.append(cur)
                cur = 1
            else:
                cur += 1
        parts.append(cur)
        yield parts


def settings():
    for lp in (False, True):
        for lr in (False, True):
            for dv in DEFAULTS:
                yield (lp, lr, dv)


def key(case):
    if case.get("engine"):
        return "engine-process"
    rt = sorted({op[2] for op in case["ops"] if op[0] == "defuzz"})
    k = "rtypes=" + ",".join(rt)
    faults = sorted({op[1] for op in case["ops"] if (op[0] == "raise" and len(op) > 1) or op[0] == "real"})
    k += ";faults=" + ",".join(faults) if faults else ""
    if case.get("tables") is not None:
        k += ";kept tables" + (" shared by two variables" if case.get("setting2") is not None else "")
    return k


def _tiny_engine(setting):
    lp, lr, dv = setting[:3]
    lo, hi = bounds(setting)
    return fl.Engine("e", input_variables=[fl.InputVariable("a", minimum=0.0, maximum=1.0, terms=[fl.Triangle("lo", 0.0, 0.25, 0.5),
                                                                                                   fl.Triangle("hi", 0.5, 0.75, 1.0)])],
                     output_variables=[fl.OutputVariable("o", minimum=lo, maximum=hi, lock_range=lr, lock_previous=lp, default_value=dv,
                                                         defuzzifier=fl.Centroid(20), aggregation=fl.Maximum(),
                                                         terms=[fl.Triangle("s", -0.5, 0.0, 0.5), fl.Triangle("t", 0.5, 1.0, 1.5)])],
                     rule_blocks=[fl.RuleBlock("b", conjunction=fl.Minimum(), disjunction=fl.Maximum(), implication=fl.Minimum(),
                                               activation=fl.General(),
                                               rules=[fl.Rule.create("if a is lo then o is s"), fl.Rule.create("if a is hi then o is t")])])


def oracle_engine(case):
    """the cascade through `Engine.process()`: in a step in which nothing is activated for the output variable (its rule block is
    switched off) the defuzzified value is NaN like any other undefined result - previous value, lock-previous, default and range
    apply to it.  The raw value of a step comes from a fresh engine without lock-previous / default / range lock."""
    setting = tuple(case["setting"])
    e = _tiny_engine(setting)
    ops = []
    for i, (on, x) in enumerate(case["steps"]):
        raw = NAN
        if on:
            f = _tiny_engine((False, False, NAN) + tuple(setting[3:]))
            f.input_variables[0].value = x
            with np.errstate(all="ignore"):
                f.process()
            raw = float(np.asarray(f.output_variables[0].value).reshape(-1)[-1])
        ops.append(("defuzz", [raw], "float"))
        e.rule_blocks[0].enabled = bool(on)
        e.input_variables[0].value = x
        with np.errstate(all="ignore"):
            e.process()
        want = spec(setting, ops)[-1]
        got_v, got_p = canon(e.output_variables[0].value), float(e.output_variables[0].previous_value)
        if len(got_v) != len(want[0]) or not all(same(a, b) for a, b in zip(got_v, want[0])) or not same(got_p, want[1]):
            return False, (f"Engine.process() step {i} (rule block {'on' if on else 'off'}, a = {x}): value {got_v}, previous value {got_p}; "
                           f"the defuzzified value of this step is {raw}, the documented cascade gives {want[0]}, previous {want[1]}")
    return True, "ok"


def gen_engine_cases(ctx):
    rng = ctx.rng
    for setting in settings():
        for _ in range(ctx.scale(2, 12)):
            steps = [[rng.random() < 0.6, rng.choice([0.1, 0.25, 0.4, 0.6, 0.75, 0.9, 0.5, 2.0])] for _ in range(rng.choice([2, 3, 4, 5]))]
            yield {"engine": True, "setting": list(setting), "steps": steps}


def oracle(case):
    if case.get("engine"):
        return oracle_engine(case)
    setting = tuple(case["setting"])
    ops = [tuple(o) for o in case["ops"]]
    tables = case.get("tables")
    setting2 = tuple(case["setting2"]) if case.get("setting2") is not None else None
    obs = run_impl(setting, ops, tables, setting2)
    exp = spec(setting, ops, tables, setting2)
    for i, (o, e) in enumerate(zip(obs, exp)):
        if o[2] != e[2]:
            return False, f"step {i} {ops[i]}: raised {o[2]}, documented behaviour raises {e[2]}"
        if len(o[0]) != len(e[0]) or not all(same(a, b) for a, b in zip(o[0], e[0])):
            return False, f"step {i} {ops[i]}: value {o[0]}, documented cascade gives {e[0]}"
        if not same(o[1], e[1]):
            return False, f"step {i} {ops[i]}: previous_value {o[1]}, expected {e[1]}"
        if (ops[i][0] == "raise" or e[2] is not None) and not o[3]:
            return False, f"step {i}: fuzzy output changed although defuzzification raised"
        if tables is not None:
            ok, d = kept_ok(i, ops[i], o[4], e[3])
            if not ok:
                return False, d
    return True, "ok"


def kept_ok(i, op, got, want):
    """the second variable, and the arrays the defuzzifier keeps: "the defuzzified value" is an input of the cascade, the
    variable's value its output - filling and substituting happen in the variable, the defuzzifier's record stays as it is"""
    if "value2" in want:
        if len(got["value2"]) != len(want["value2"]) or not all(same(a, b) for a, b in zip(got["value2"], want["value2"])):
            return False, f"step {i} {op}: value of the second variable {got['value2']}, documented cascade gives {want['value2']}"
        if not same(got["previous2"], want["previous2"]):
            return False, f"step {i} {op}: previous_value of the second variable {got['previous2']}, expected {want['previous2']}"
    for k, (g, w) in enumerate(zip(got["tables"], want["tables"])):
        if len(g) != len(w) or not all(same(a, b) for a, b in zip(g, w)):
            return False, (f"step {i} {op}: the array the defuzzifier keeps (table {k}) holds {g} afterwards, its owner "
                           f"recorded {w} (defuzzify reads the defuzzified values, it does not own them)")
    return True, ""


def gen_cases(ctx):
    rng = ctx.rng
    maxlen = ctx.scale(4, 5)
    rts = ["arr1", "arr0", "np64", "float"]
    n = 0
    for setting in settings():
        for L in range(1, maxlen + 1):
            for seq in itertools.product(POOL, repeat=L):
                for parts in compositions(L):
                    ops, i = [], 0
                    for p in parts:
                        ops.append(("defuzz", list(seq[i:i + p]), rts[(n + i) % 4]))
                        i += p
                    n += 1
                    yield setting, ops, "exhaustive"
    pool2 = POOL + [math.inf, -math.inf, 1.0, 0.0]
    for _ in range(ctx.scale(3000, 30000)):
        setting = (rng.random() < 0.5, rng.random() < 0.5, rng.choice(DEFAULTS))
        if rng.random() < 0.25:
            # another range: half-bounded, unbounded, narrow (the values of the pool fall on both sides of the finite bounds)
            setting = setting + rng.choice([(0.0, math.inf), (-math.inf, 1.0), (-math.inf, math.inf), (0.25, 0.75), (-2.0, 0.5)])
        ops = []
        for _ in range(rng.randint(1, 6)):
            r = rng.random()
            if r < 0.6:
                k = rng.randint(1, 5)
                ops.append(("defuzz", [rng.choice(pool2) for _ in range(k)], rng.choice(rts)))
            elif r < 0.75:
                ops.append(("raise",))
            elif r < 0.85:
                ops.append(("clear",))
            else:
                ops.append(("enable", rng.random() < 0.5))
        yield setting, ops, "random"
    # "if defuzzification raises, value, previous value and fuzzy output are unchanged" - whatever is raised.  Every setting x
    # every exception class (injected through the stub) x every defuzzifier of the library run on a set activated with degree
    # 0 (0/0) or more while NumPy raises on floating-point errors, from four states (nothing held yet, a value, a clipped
    # value then NaN, NaN then a value); the NaN row afterwards shows what the variable believes it held before the failure
    hists = [[], [0.5], [2.0, NAN], [NAN, 0.25]]
    for setting in settings():
        for h in hists:
            head = [("defuzz", list(h), rts[n % 4])] if h else []
            for name in EXC:
                n += 1
                yield setting, head + [("raise", name), ("defuzz", [NAN], rts[n % 4])], "faults"
            for kind in REAL:
                for deg in (0.0, 0.25, 0.5, 1.0):
                    n += 1
                    yield setting, head + [("real", kind, deg), ("defuzz", [NAN, 0.5], rts[n % 4])], "faults"
    names = sorted(EXC)
    for _ in range(ctx.scale(1500, 15000)):
        setting = (rng.random() < 0.5, rng.random() < 0.5, rng.choice(DEFAULTS))
        if rng.random() < 0.25:
            setting = setting + rng.choice([(0.0, math.inf), (-math.inf, 1.0), (-math.inf, math.inf), (0.25, 0.75), (-2.0, 0.5)])
        ops = []
        for _ in range(rng.randint(2, 6)):
            r = rng.random()
            if r < 0.45:
                ops.append(("defuzz", [rng.choice(pool2) for _ in range(rng.randint(1, 4))], rng.choice(rts)))
            elif r < 0.7:
                ops.append(("raise", rng.choice(names)))
            elif r < 0.85:
                ops.append(("real", rng.choice(REAL), rng.choice([0.0, 0.0, 0.25, 0.5, 1.0])))
            elif r < 0.92:
                ops.append(("clear",))
            else:
                ops.append(("enable", rng.random() < 0.5))
        yield setting, ops, "random-faults"


KEPT_TABLES = [[NAN, 0.5, NAN], [NAN], NAN, [2.0, NAN, -1.0, NAN], [0.5, 0.25], [NAN, NAN, 0.25], 2.0, [NAN, 2.0]]


def gen_kept_cases(ctx):
    """"all sequences of defuzzified values ... under every split into successive calls": where the sequence comes from is
    the defuzzifier's business.  The stub of the families above builds a fresh object for every call; a defuzzifier may as
    well hand out an array it KEEPS - a replay of recorded results, a look-up table, a cache - the same float64 ndarray (1-D
    or 0-d) on every call, and one defuzzifier object may serve two output variables with different settings.  Histories:
    the same table twice, with clear() / another table / a plain call in between, the two variables in turn on one table,
    the owner re-recording a table in place between calls; all 16 settings, then random histories.  Observed after every
    operation: value and previous value of BOTH variables against the documented cascade on the recorded values, and the
    tables themselves, which must hold what their owner wrote (NaN where NaN was)"""
    rng = ctx.rng
    sets = list(settings())
    for si, setting in enumerate(sets):
        for ti, tab in enumerate(KEPT_TABLES):
            other = KEPT_TABLES[(ti + 3) % len(KEPT_TABLES)]
            tables = [tab, other]
            s2 = sets[(si * 7 + ti * 3 + 5) % len(sets)]
            fresh = [0.25 if x != x else NAN for x in (tab if isinstance(tab, list) else [tab])]
            hists = [
                (None, [("replay", 0, 0), ("replay", 0, 0)]),
                (None, [("replay", 0, 0), ("clear",), ("replay", 0, 0)]),
                (None, [("defuzz", [0.25], "arr1"), ("replay", 0, 0), ("replay", 1, 0), ("replay", 0, 0)]),
                (s2, [("replay", 0, 0), ("replay", 0, 1), ("replay", 0, 0)]),
                (s2, [("defuzz", [2.0], "float"), ("replay", 0, 1), ("replay", 1, 0), ("replay", 0, 0), ("replay", 1, 1)]),
                (None, [("replay", 0, 0), ("refill", 0, fresh), ("replay", 0, 0)]),
            ]
            for setting2, ops in hists:
                yield {"setting": list(setting), "tables": tables, "ops": [list(o) for o in ops],
                       **({"setting2": list(setting2)} if setting2 is not None else {})}
    pool2 = POOL + [math.inf, -math.inf, 1.0, 0.0]
    for _ in range(ctx.scale(1200, 12000)):
        setting = (rng.random() < 0.5, rng.random() < 0.5, rng.choice(DEFAULTS))
        if rng.random() < 0.2:
            setting = setting + rng.choice([(0.0, math.inf), (-math.inf, math.inf), (0.25, 0.75), (-2.0, 0.5)])
        two = rng.random() < 0.5
        setting2 = (rng.random() < 0.5, rng.random() < 0.5, rng.choice(DEFAULTS)) if two else None
        tables = []
        for _ in range(rng.randint(1, 3)):
            k = rng.randint(0, 4)
            row = [rng.choice(pool2 + [NAN, NAN]) for _ in range(max(1, k))]
            tables.append(row[0] if k == 0 else row)
        ops = []
        for _ in range(rng.randint(2, 7)):
            r = rng.random()
            v = rng.randint(0, 1) if two else 0
            if r < 0.6:
                ops.append(["replay", rng.randrange(len(tables)), v])
            elif r < 0.7:
                t = rng.randrange(len(tables))
                size = len(tables[t]) if isinstance(tables[t], list) else 1
                ops.append(["refill", t, [rng.choice(pool2 + [NAN]) for _ in range(size)]])
            elif r < 0.8:
                ops.append(["defuzz", [rng.choice(pool2) for _ in range(rng.randint(1, 3))], rng.choice(["arr1", "arr0", "np64", "float"])])
            elif r < 0.85:
                ops.append(["raise"])
            elif r < 0.93:
                ops.append(["clear", v] if v else ["clear"])
            else:
                ops.append(["enable", rng.random() < 0.5, v] if v else ["enable", rng.random() < 0.5])
        yield {"setting": list(setting), "tables": tables, "ops": ops, **({"setting2": list(setting2)} if two else {})}


def kept_against_model(ctx, mism, viol_keys):
    """the histories of `gen_kept_cases`: each variable's own view of the history (`project`) through the Lean model, the
    implementation driven through the whole history, plus the property oracle on every case"""
    st = ctx.stats
    cases = list(gen_kept_cases(ctx))
    lines, owner = [], []
    for ci, case in enumerate(cases):
        for var, setting in enumerate([case["setting"], case.get("setting2")]):
            if setting is not None:
                lines.append(to_line(tuple(setting), project(case["ops"], case["tables"], var)))
                owner.append((ci, var))
    outs = ctx.driver.eval(lines)
    bad = {}
    observed = {}
    for (ci, var), line in zip(owner, outs):
        case = cases[ci]
        if ci not in observed:
            observed[ci] = run_impl(tuple(case["setting"]), [tuple(o) for o in case["ops"]], case["tables"],
                                    tuple(case["setting2"]) if case.get("setting2") is not None else None)
        if line in ("bad-op", "bad-parse"):
            bad.setdefault(ci, f"model rejected the operation sequence of variable {var}")
            continue
        for i, (o, m) in enumerate(zip(observed[ci], C.parse_sx(line))):
            mv, mp = [C.parse_x(x) for x in m[0]], C.parse_x(m[1])
            gv, gp = (o[0], o[1]) if var == 0 else (o[4]["value2"], o[4]["previous2"])
            if len(gv) != len(mv) or not all(C.close(a, b, atol=0, rtol=0) for a, b in zip(gv, mv)) \
                    or not C.close(gp, mp, atol=0, rtol=0):
                bad.setdefault(ci, f"step {i} {case['ops'][i]}: variable {var} holds {gv} (previous {gp}), model {m}")
                break
    for ci, case in enumerate(cases):
        st.count("kept tables" + (", two variables" if case.get("setting2") is not None else ""))
        obs = observed[ci]
        filled = any(op[0] == "replay" and any(x != x for x in o[4]["tables"][int(op[1])]) and
                     not all(x != x for x in (o[0] if op_var(op) == 0 else o[4]["value2"]))
                     for op, o in zip(case["ops"], obs))
        st.case((json_key(case)), filled, sample=None)
        st.validated += 1
        ok, detail = oracle(case)
        st.count("oracle")
        k = "k:" + key(case)
        if ci in bad and k not in viol_keys:
            viol_keys.add(k)
            mism.append({"case": case, "impl": [list(o[:3]) for o in obs], "what": bad[ci]})
        elif not ok and k not in viol_keys:
            viol_keys.add(k)
            mism.append({"case": case, "violation": True, "detail": detail, "what": detail})


def json_key(case):
    return repr((case["setting"], case.get("setting2"), case["tables"], case["ops"]))


def correspond(ctx):
    st = ctx.stats
    mism = []
    cases = list(gen_cases(ctx))
    outs = ctx.driver.eval([to_line(s, o) for s, o, _ in cases])
    viol_keys = set()
    for (setting, ops, kind), line in zip(cases, outs):
        st.count(kind)
        case = {"setting": list(setting), "ops": [list(o) for o in ops]}
        if line in ("bad-op", "bad-parse"):
            mism.append({"case": case, "model": line, "what": "model rejected the operation sequence"})
            continue
        model = C.parse_sx(line)
        obs = run_impl(setting, ops)
        nontrivial = False
        bad = None
        enabled = True
        for i, (o, m) in enumerate(zip(obs, model)):
            mv = [C.parse_x(x) for x in m[0]]
            mp = C.parse_x(m[1])
            # the exception that must reach the caller: the injected one, or the one the real defuzzifier raises on its own
            if ops[i][0] == "enable":
                enabled = bool(ops[i][1])
            want = None
            if enabled and ops[i][0] == "raise":
                want = raise_class(ops[i])
            elif enabled and ops[i][0] == "real":
                ro = real_outcome(ops[i][1], ops[i][2], *bounds(setting))
                want = ro[1] if ro[0] == "raise" else None
            if len(o[0]) != len(mv) or not all(C.close(a, b, atol=0, rtol=0) for a, b in zip(o[0], mv)) \
                    or not C.close(o[1], mp, atol=0, rtol=0) or o[2] != want:
                bad = (i, o, m)
                break
            if ops[i][0] == "defuzz" and any(r != r and not (v != v) for r, v in zip(ops[i][1], o[0])):
                nontrivial = True
            if ops[i][0] == "defuzz" and any(r == r and r != v for r, v in zip(ops[i][1], o[0])):
                nontrivial = True
        st.case((setting, tuple(map(str, ops))), nontrivial,
                sample={"setting": list(setting), "ops": [list(o) for o in ops], "impl": [list(o[:3]) for o in obs]} if kind == "random" else None)
        st.validated += 1
        if bad is not None:
            k = key(case)
            if k in viol_keys:
                continue
            viol_keys.add(k)
            mism.append({"case": case, "impl": list(bad[1]), "model": bad[2],
                         "what": f"step {bad[0]} {ops[bad[0]]}: implementation {bad[1][:3]}, model {bad[2]}"})
            if len(mism) > 12:
                break
    # property oracle (documented row-by-row cascade) on a sub-stream
    step = max(1, len(cases) // ctx.scale(8000, 60000))
    for setting, ops, kind in cases[::step]:
        case = {"setting": list(setting), "ops": [list(o) for o in ops]}
        ok, detail = oracle(case)
        st.count("oracle")
        if not ok:
            k = "o:" + key(case)
            if k in viol_keys:
                continue
            viol_keys.add(k)
            mism.append({"case": case, "violation": True, "detail": detail, "what": detail})
    # drawn after every earlier stream: defuzzifiers that keep the arrays they hand out, alone or shared by two variables
    kept_against_model(ctx, mism, viol_keys)
    # the cascade reached through Engine.process(), with steps in which nothing is activated (drawn last)
    for case in gen_engine_cases(ctx):
        ok, detail = oracle(case)
        st.count("engine-process")
        if not ok:
            mism.append({"case": case, "violation": True, "detail": detail, "what": detail})
            break
    ctx.notes["exhaustive"] = True
    ctx.notes["exhaustive_space"] = f"all value sequences of length <= {ctx.scale(4, 5)} over {len(POOL)} values x all splits x 16 settings"
    return mism


def search(ctx):
    for setting, ops, _ in gen_cases(ctx):
        case = {"setting": list(setting), "ops": [list(o) for o in ops]}
        ok, d = oracle(case)
        if not ok:
            return [(case, d)]
    for case in gen_kept_cases(ctx):
        ok, d = oracle(case)
        if not ok:
            return [(case, d)]
    for case in gen_engine_cases(ctx):
        ok, d = oracle(case)
        if not ok:
            return [(case, d)]
    return []
