"""C02 — Batch (vectorised) processing equals row-by-row float processing (DESIGN.md section 8, C02)."""
from __future__ import annotations

import math

import numpy as np

import common as C
import fuzzylite as fl
import gen_engine as G
from props import c01
from streams import batch_layouts as S_BL
from streams import engine_io as S_IO

PID = "C02"
MODULES = ["FlVerif.Props.C02"]
NAMESPACE = "C02"
TIE_A = ["Norm.", "Hedge.", "Term.", "code:fuzzylite.engine.Engine.input_values.fset",
         "code:fuzzylite.engine.Engine.input_values.fget", "code:fuzzylite.engine.Engine.output_values.fget",
         "code:fuzzylite.engine.Engine.values.fget", "code:fuzzylite.engine.Engine.variables.fget",
         "code:fuzzylite.engine.Engine.variable", "code:fuzzylite.engine.Engine.input_variable",
         "code:fuzzylite.engine.Engine.output_variable", "code:fuzzylite.engine.Engine.rule_block",
         "code:fuzzylite.engine.Engine.__getitem__", "code:fuzzylite.variable.Variable.term"]
RULE = ("engines with the General activation method (Mamdani, Larsen, Takagi-Sugeno, Tsukamoto, hybrid; every lock-previous / "
        "default / lock-range setting) x batches of 1..8 rows including NaN and +-inf rows, run three ways: (i) one batch "
        "through per-variable arrays, (ii) one batch through `engine.input_values = matrix`, (iii) row by row with Python "
        "floats; (i)-(iii) are compared with each other (values, fuzzy outputs, exceptions) and (i) with the Lean model. "
        "non-trivial: batch of >= 2 rows with at least one finite output and (a NaN raw value filled by lock-previous / "
        "default, or two different output values); distinct = distinct (engine, batch)")
RULE += (" Stream `engine-io` (fv/streams/engine_io.py): look-ups by name / index (positive, negative, bool, missing), input_values / output_values / values on float, 0-d and 1-D values, the input_values setter with 0-d / 1-D / 2-D / higher-dimensional arrays, against Op/EngineIO.lean and Op/InputValues.lean.")
RULE += (" Families `special-value history` and `memory layouts` (fv/streams/batch_layouts.py): weighted engines whose constants may be +-inf x batches dense in NaN / +-inf cells and all-NaN rows (every order of finite / +inf / -inf / NaN defuzzified values from one row to the next, also across two calls); engines with 2-3 inputs x the same batch held as columns of a C / Fortran matrix, interleaved, reversed and read-only views, ONE array object for variables that read the same signal, lagged windows of one recording, and input matrices whose columns alias each other: compared with the row-by-row run, and every buffer of the caller (of the plain batches too) must hold afterwards what it held before.")
RULE += (" Family `no value per row` (fv/streams/batch_layouts.py): engines of the ordinary generator with every output variable disabled, every rule block disabled, both, an enabled output variable that no rule concludes (alone or next to others), every rule disabled, or every input variable disabled x batches of 1..8 rows, also after an earlier call: in EVERY batch case `Engine.output_values` must have one row per row of the inputs and `Engine.values` must not raise and must show, row for row, what the row-by-row run shows.")
RULE += (" Family `reused buffers` (fv/streams/batch_layouts.py): histories of two or three batches on one engine through array objects the caller allocated ONCE and refills in place before each call - per-variable arrays or the engine-level input matrix, handed over again before every call or before the first call only: every call is compared row for row with the rows the input variables hold at that moment, run one after another with floats on an engine that lives through the same history.")
ASSUMPTIONS = ["batch and row results are produced by the same float operations, so they are compared within 1e-12; the "
               "model comparison uses 1e-7 and the fragile-point filter of C01"]
LEVEL_TEXT = ("Lean theorems: batch_eq_rows (the single fill-forward / default / clip pass of OutputVariable.defuzzify over a "
              "batch of ANY length commits exactly the values that one call per row commits, for every lock-previous / "
              "default / lock-range setting - from C12.split_invariant), batch_split, batch_row_independent (in the model of "
              "the vectorised code row i of every intermediate array is the scalar computation on row i), batch_length, "
              "batch_singleton. Elementwise evaluation by NumPy itself is carried by the correspondence: every generated "
              "engine/batch is run as per-variable arrays, as an input matrix and row by row with floats, each compared with "
              "the others (values, fuzzy outputs, raised exceptions) and with the model.")
LEVEL_NOTE = ("Trusted: Lean kernel, standard axioms, Op.Engine / Op.Cascade models tied to the code by the correspondence, "
              "NumPy broadcasting (sampled: 1-row, n-row, matrix setter). 'Neither mode raises' is an observation of the run, "
              "not a theorem.")
TECHNIQUE = "Lean 4 proof (list induction: one cascade pass over a batch = per-row passes) + three-way differential run batch / matrix / row-by-row against each other and the Lean engine model"


def obs_fuzzy(e, n):
    """per row, per output: list of (term, degree, implication)"""
    out = []
    for i in range(n):
        row = []
        for ov in e.output_variables:
            acts = []
            for a in ov.fuzzy.terms:
                d = np.atleast_1d(np.asarray(a.degree, dtype=float))
                acts.append((a.term.name, float(d[i] if d.size > 1 else d[0]), type(a.implication).__name__ if a.implication else "none"))
            row.append(acts)
        out.append(row)
    return out


def obs_all(e):
    """`Engine.values` (input values and output values side by side): its rows, or the exception it raises"""
    try:
        with np.errstate(all="ignore"):
            got = np.asarray(e.values, dtype=float)
        return {"shape": list(got.shape), "rows": [[float(x) for x in r] for r in got] if got.ndim == 2 else None}
    except Exception as ex:  # noqa: BLE001
        return {"error": type(ex).__name__, "msg": str(ex)[:200]}


def run_batch(desc, rows, how, first=None, layout=None):
    """one batch; `layout` (streams/batch_layouts.py) says how the caller holds the numbers in memory.  The result carries
    `touched` when a buffer of the caller no longer holds what it held before the assignment"""
    e = G.build(desc)
    n = len(rows)
    snap = []
    try:
        with np.errstate(all="ignore"):
            if first:
                # an earlier call on the same engine (no restart in between): its last values are the starting state
                for j, iv in enumerate(e.input_variables):
                    iv.value = np.array([r[j] for r in first], dtype=float)
                e.process()
            if how == "arrays":
                arrs, owned = S_BL.arrays_for(rows, layout)
                snap = S_BL.snapshot(owned)
                for iv, arr in zip(e.input_variables, arrs):
                    iv.value = arr
            else:
                matrix, owned = S_BL.matrix_for(rows, layout)
                snap = S_BL.snapshot(owned)
                e.input_values = matrix
            e.process()
            got = e.output_values
            vals = np.atleast_2d(got)
            if vals.shape[0] != n:
                vals = np.broadcast_to(vals, (n, vals.shape[1]))
            return {"values": [[float(x) for x in r] for r in vals], "fuzzy": obs_fuzzy(e, n), "touched": S_BL.touched(snap),
                    "out_shape": list(np.shape(got)), "all": obs_all(e)}
    except Exception as ex:  # noqa: BLE001
        return {"error": type(ex).__name__, "msg": str(ex)[:200], "touched": S_BL.touched(snap)}


def run_rows(desc, rows, first=None):
    e = G.build(desc)
    values, fuzzy, out_shapes, alls = [], [], [], []
    for r in (first or []):
        with np.errstate(all="ignore"):
            for iv, v in zip(e.input_variables, r):
                iv.value = float(v)
            e.process()
    for r in rows:
        try:
            with np.errstate(all="ignore"):
                for iv, v in zip(e.input_variables, r):
                    iv.value = float(v)
                e.process()
            values.append([float(np.take(ov.value, -1)) for ov in e.output_variables])
            fuzzy.append(obs_fuzzy(e, 1)[0])
            out_shapes.append(list(np.shape(e.output_values)))
            alls.append(obs_all(e))
        except Exception as ex:  # noqa: BLE001
            return {"error": type(ex).__name__, "msg": str(ex)[:200], "at_row": len(values)}
    return {"values": values, "fuzzy": fuzzy, "out_shapes": out_shapes, "all": alls}


def rows_on(e, rows):
    """the rows one after another with plain Python floats on an engine that is in whatever state it is in"""
    values, fuzzy = [], []
    for r in rows:
        try:
            with np.errstate(all="ignore"):
                for iv, v in zip(e.input_variables, r):
                    iv.value = float(v)
                e.process()
            values.append([float(np.take(ov.value, -1)) for ov in e.output_variables])
            fuzzy.append(obs_fuzzy(e, 1)[0])
        except Exception as ex:  # noqa: BLE001
            return {"error": type(ex).__name__, "msg": str(ex)[:200], "at_row": len(values)}
    return {"values": values, "fuzzy": fuzzy}


def run_reused(desc, calls, reuse):
    """several batches on one engine through arrays the caller allocated ONCE (streams/batch_layouts.py, `reused buffers`):
    before every call the caller writes the rows of that call into them in place; `...-reassigned` hands them over again
    before every call, `...-refilled` handed them over before the first call only.  Per call: what the input variables hold
    when `process()` starts (`held`: the batch of that call as the engine sees it), the outputs, and whether a buffer of the
    caller was changed by the call"""
    e = G.build(desc)
    n, k = len(calls[0]), len(calls[0][0])
    per_var = reuse.startswith("arrays")
    bufs = [np.empty(n, dtype=float) for _ in range(k)] if per_var else [np.empty((n, k), dtype=float)]
    owned = [(f"the array of variable {j} (allocated once, refilled before each call)", b) for j, b in enumerate(bufs)] \
        if per_var else [("the input matrix (allocated once, refilled before each call)", bufs[0])]
    out = []
    for c, rows in enumerate(calls):
        res = {"held": [[float(x) for x in r] for r in rows]}
        snap = []
        try:
            with np.errstate(all="ignore"):
                if per_var:
                    for j, b in enumerate(bufs):
                        b[:] = [float(r[j]) for r in rows]
                else:
                    bufs[0][:] = np.array(rows, dtype=float)
                if c == 0 or reuse.endswith("reassigned"):
                    if per_var:
                        for iv, b in zip(e.input_variables, bufs):
                            iv.value = b
                    else:
                        e.input_values = bufs[0]
                cols = [np.broadcast_to(np.asarray(iv.value, dtype=float), (n,)) for iv in e.input_variables]
                res["held"] = [[float(col[i]) for col in cols] for i in range(n)]
                snap = S_BL.snapshot(owned)
                e.process()
                vals = np.atleast_2d(e.output_values)
                if vals.shape[0] != n:
                    vals = np.broadcast_to(vals, (n, vals.shape[1]))
                res.update(values=[[float(x) for x in r] for r in vals], fuzzy=obs_fuzzy(e, n), touched=S_BL.touched(snap))
        except Exception as ex:  # noqa: BLE001
            res.update(error=type(ex).__name__, msg=str(ex)[:200], touched=S_BL.touched(snap))
        out.append(res)
        if "error" in res:
            break
    return out


def reused_ok(case):
    """"Giving the input variables arrays of N values and processing once" - every time: the batch of a call is what the
    arrays hold when `process()` is called, not what the same array objects held at an earlier call.  Each call of the
    history is compared, row for row, with the rows the input variables hold at that moment run one after another with
    floats, from the same starting state (one row-by-row engine lives through the whole history)"""
    desc, calls, reuse = case["engine"], case["calls"], case["reuse"]
    got = run_reused(desc, calls, reuse)
    ref = G.build(desc)
    for c, b in enumerate(got):
        r = rows_on(ref, b["held"])
        what = f"call {c + 1} of {len(calls)} through {reuse} buffers"
        ok, d = same_obs(b, r)
        if not ok:
            return False, (f"{what}: the variables hold {b['held']}; batch vs row by row: {d} "
                           f"(batch: {b.get('error')} {b.get('msg', '')}, rows: {r.get('error')} {r.get('msg', '')})")
        if b.get("touched"):
            return False, f"{what}: {b['touched']} (the batch belongs to the caller; a row-by-row run leaves it alone)"
        if "error" in b or "error" in r:
            break
    return True, "ok"


def same_tables(b, r, n):
    """`Engine.output_values` and `Engine.values` after a batch of `n` rows against the row-by-row run.  "Row for row" is
    meant literally: the batch has ONE ROW PER ROW of the inputs - `n` rows of output values, `n` rows of input and output
    values side by side - whatever the engine is made of (also when no output variable received a value per row: every
    output variable or every rule block disabled, no rule concluding an output), each row equal to what the row-by-row run
    shows after that row; and `values` must not raise in one mode when it does not in the other."""
    if "error" in b or "error" in r:
        return True, ""                         # judged by `same_obs`
    n_out = len(r["values"][0]) if r["values"] else None
    if n_out is not None and b["out_shape"] != [n, n_out]:
        return False, (f"Engine.output_values has shape {tuple(b['out_shape'])} after a batch of {n} rows "
                       f"(row by row: {n} times {tuple(r['out_shapes'][0])})")
    ba = b["all"]
    for i, ra in enumerate(r["all"]):
        if ("error" in ba) != ("error" in ra):
            who = "the batch" if "error" in ba else f"row {i} of the row-by-row run"
            err = ba if "error" in ba else ra
            return False, f"Engine.values raises {err['error']} ({err['msg'][:120]}) in {who} only"
        if "error" in ba:
            continue
        if ra["shape"][0] != 1 or ba["shape"] != [n, ra["shape"][1]]:
            return False, f"Engine.values has shape {tuple(ba['shape'])} after a batch of {n} rows, row by row {tuple(ra['shape'])} per row"
        for j, (x, y) in enumerate(zip(ba["rows"][i], ra["rows"][0])):
            if not c01.feq(x, y, 1e-12):
                return False, f"Engine.values row {i} column {j}: batch {x!r}, row by row {y!r}"
    return True, ""


def same_obs(a, b, tol=1e-12):
    if "error" in a or "error" in b:
        return ("error" in a) == ("error" in b), "exception in one mode only" if ("error" in a) != ("error" in b) else ""
    for i, (ra, rb) in enumerate(zip(a["values"], b["values"])):
        for j, (x, y) in enumerate(zip(ra, rb)):
            if not c01.feq(x, y, tol):
                return False, f"row {i} output {j}: {x!r} vs {y!r}"
    for i, (ra, rb) in enumerate(zip(a["fuzzy"], b["fuzzy"])):
        for j, (fa, fb) in enumerate(zip(ra, rb)):
            if len(fa) != len(fb) or any(x[0] != y[0] or x[2] != y[2] or not c01.feq(x[1], y[1], tol) for x, y in zip(fa, fb)):
                return False, f"row {i} output {j}: fuzzy {fa} vs {fb}"
    return True, ""


def key(case):
    return case.get("stream") or "batch"


def oracle(case):
    if case.get("stream"):
        return S_IO.oracle(case)       # accessors of Engine (look-ups, input_values / output_values / values)
    desc, rows = case["engine"], case["rows"]
    if case.get("calls"):
        # a history of batches through arrays that are allocated once and refilled in place (then the ordinary comparison
        # on the last batch, from a fresh engine)
        ok, d = reused_ok(case)
        if not ok:
            return False, d
    if case.get("first"):
        # two successive calls: the second batch continues from the state the first one left
        try:
            a2 = run_batch(desc, rows, "arrays", first=case["first"])
            m2 = run_batch(desc, rows, "matrix", first=case["first"])
            r2 = run_rows(desc, rows, first=case["first"])
        except Exception as ex:  # noqa: BLE001
            return True, f"first call raised {type(ex).__name__} (not judged)"
        for nm, b in (("per-variable arrays", a2), ("input matrix", m2)):
            ok, d = same_obs(b, r2)
            if not ok:
                return False, f"second call after a first batch of {len(case['first'])} rows, {nm} vs row by row: {d}"
            ok, d = same_tables(b, r2, len(rows))
            if not ok:
                return False, f"second call after a first batch of {len(case['first'])} rows, {nm}: {d}"
    a = run_batch(desc, rows, "arrays")
    m = run_batch(desc, rows, "matrix")
    r = run_rows(desc, rows)
    ok, d = same_obs(a, r)
    if not ok:
        return False, f"per-variable arrays vs row by row: {d} (batch: {a.get('error')}, rows: {r.get('error')} {r.get('msg', '')})"
    ok, d = same_obs(m, r)
    if not ok:
        return False, f"input matrix vs row by row: {d} (matrix: {m.get('error')} {m.get('msg', '')}, rows: {r.get('error')})"
    for nm, b in (("per-variable arrays", a), ("input matrix", m)):
        if b.get("touched"):
            return False, f"{nm}: {b['touched']} (the batch belongs to the caller; a row-by-row run leaves it alone)"
    for nm, b in (("per-variable arrays", a), ("input matrix", m)):
        ok, d = same_tables(b, r, len(rows))
        if not ok:
            return False, f"{nm}: {d}"
    if case.get("layout"):
        # the same numbers held the way the layout says (views of one buffer, one object for two variables, ...)
        lay = case["layout"]
        for nm, how in ((f"per-variable arrays ({lay})", "arrays"), (f"input matrix ({lay})", "matrix")):
            b = run_batch(desc, rows, how, layout=lay)
            ok, d = same_obs(b, r)
            if not ok:
                return False, f"{nm} vs row by row: {d} (batch: {b.get('error')} {b.get('msg', '')}, rows: {r.get('error')})"
            if b.get("touched"):
                return False, f"{nm}: {b['touched']} (the batch belongs to the caller; a row-by-row run leaves it alone)"
            ok, d = same_tables(b, r, len(rows))
            if not ok:
                return False, f"{nm}: {d}"
    return True, "ok"


def gen_cases(ctx):
    rng = ctx.rng
    for _ in range(ctx.scale(220, 2200)):
        desc = G.gen_engine(rng, activation="general")
        n = rng.choice([1, 1, 2, 3, 4, 5, 8])
        case = {"engine": desc, "rows": G.gen_rows(rng, desc, n)}
        if rng.random() < 0.4:
            # an earlier call with finite inputs, then a batch that starts with NaN rows (lock-previous / default carry over)
            case["first"] = G.gen_rows(rng, desc, rng.choice([1, 2, 3]), special=False)
            k = rng.randint(1, max(1, n - 1))
            case["rows"] = [[math.nan] * len(desc["inputs"]) for _ in range(k)] + case["rows"][k:]
            for o in desc["outputs"]:
                if rng.random() < 0.7:
                    o["lock_previous"] = True
        yield case


def per_row_outputs(desc):
    """does some enabled output variable have an enabled rule, in an enabled block, that concludes it?"""
    hit = {c["var"] for b in desc["blocks"] if b["enabled"] for r in b["rules"] if r["enabled"] for c in r["concls"]}
    return any(o["enabled"] and o["name"] in hit for o in desc["outputs"])


def compare(ctx, cases, outs, mism, family="batch"):
    """every case: three-way comparison on the implementation (the property oracle), then the batch against the model"""
    st = ctx.stats
    for case, line in zip(cases, outs):
        desc, rows = case["engine"], case["rows"]
        st.count(f"rows={len(rows)}")
        if family != "batch":
            st.count("layout=" + case["layout"] if case.get("layout") else case.get("family") or "special-value history")
        if not per_row_outputs(desc):
            st.count("no output variable receives a value per row")
        ok, detail = oracle(case)
        a = run_batch(desc, rows, "arrays")
        nt = "error" not in a and len(rows) >= 2 and any(math.isfinite(v) for r in a["values"] for v in r) and \
            len({tuple(r) for r in a["values"]}) > 1
        st.case((repr(desc), repr(rows)), nt,
                sample={"rules": [G.rule_text(r) for b in desc["blocks"] for r in b["rules"]], "rows": rows,
                        "batch_values": a.get("values", a)} if nt and len(st.samples) < 4 else None)
        st.validated += 1
        if not ok:
            mism.append({"case": case, "violation": True, "detail": detail, "what": detail})
            if len(mism) > 8:
                break
            continue
        # model: batch values (one commit over the column) against the implementation's batch
        if line in ("bad-op", "bad-parse"):
            mism.append({"case": case, "model": line, "what": "model rejected the engine"})
            continue
        m = C.parse_sx(line)
        if "error" in a or m[1] == "error":
            if ("error" in a) != (m[1] == "error"):
                # fragile rows (F-filter of C01) can make the model fail where the code does not; judge row by row
                r = c01.run_impl(desc, rows)
                if not any(c01.is_fragile(desc, row, o) for row, o in zip(rows, r)):
                    mism.append({"case": case, "impl": a, "model": str(m[1])[:200],
                                 "what": f"batch: implementation {'raised ' + a.get('error', '') if 'error' in a else 'ok'}, model {'error' if m[1] == 'error' else 'ok'}"})
            continue
        bad = None
        for oi, (ov, col) in enumerate(zip(desc["outputs"], m[1])):
            if col == "disabled":
                continue
            col = [] if col == "()" else col
            for ri, mv in enumerate(col):
                if not C.close(a["values"][ri][oi], C.parse_x(mv), **c01.TOL):
                    bad = f"row {ri} output {oi}: batch value {a['values'][ri][oi]!r}, model {mv[:40]}"
                    break
            if bad:
                break
        if bad:
            r = c01.run_impl(desc, rows)
            if any(c01.model_tiny(mr) for mr in m[0] if mr != "error") or any(c01.is_fragile(desc, row, o) for row, o in zip(rows, r)):
                st.skipped_fragile += 1
            else:
                mism.append({"case": case, "impl": a["values"], "model": str(m[1])[:300], "what": bad})


def histories(ctx, cases, mism):
    """the `reused buffers` family: the property oracle on every case"""
    st = ctx.stats
    for case in cases:
        st.count(case["family"])
        st.count(f"calls={len(case['calls'])}")
        ok, detail = oracle(case)
        got = run_reused(case["engine"], case["calls"], case["reuse"])
        # non-trivial: a later call in which the variables hold other rows than in the first one and some output is finite
        nt = any("error" not in b and b["held"] != got[0]["held"] and any(math.isfinite(v) for r in b["values"] for v in r)
                 for b in got[1:])
        st.case((repr(case["engine"]), repr(case["calls"]), case["reuse"]), nt)
        st.validated += 1
        if not ok:
            mism.append({"case": case, "violation": True, "detail": detail, "what": detail})
            if len(mism) > 8:
                break


def model_lines(cases):
    return [C.sx(["process", G.engine_sx(c["engine"]), c["rows"]]) for c in cases]


def correspond(ctx):
    mism = []
    cases = list(gen_cases(ctx))
    compare(ctx, cases, ctx.driver.eval(model_lines(cases)), mism)
    later = []

    def more(ctx):
        # drawn after every earlier stream (their inputs stay what they were for a seed): batches dense in NaN / +-inf raw
        # output values, and batches held in memory in every way a caller may hold them (streams/batch_layouts.py)
        cs = list(S_BL.gen_special_history_cases(ctx)) + list(S_BL.gen_layout_cases(ctx))
        # engines in which (some or all) output variables receive no value per row (drawn after the families above)
        cs += list(S_BL.gen_no_value_per_row_cases(ctx))
        # histories of two / three batches through the SAME array objects, refilled in place (drawn after the families above).
        # The model knows rows, not array objects: these cases are judged on the implementation (`reused_ok` + the ordinary
        # three-way comparison of the last batch)
        reused = list(S_BL.gen_reused_buffer_cases(ctx))
        # output terms taller than 1 under a clipping implication (drawn last)
        cs += list(S_BL.gen_tall_term_cases(ctx))

        def judge(outs):
            compare(ctx, cs, outs, later, family="more")
            histories(ctx, reused, later)

        return model_lines(cs), judge

    # the accessors of Engine against Op/EngineIO.lean, Op/InputValues.lean (models of the code ties C02.code_*)
    mism += S_IO.run(ctx, more)
    return mism + later


def search(ctx):
    import itertools
    for case in itertools.chain(gen_cases(ctx), S_BL.gen_special_history_cases(ctx), S_BL.gen_layout_cases(ctx),
                                S_BL.gen_no_value_per_row_cases(ctx), S_BL.gen_reused_buffer_cases(ctx),
                                S_BL.gen_tall_term_cases(ctx)):
        ok, d = oracle(case)
        if not ok:
            return [(case, d)]
    return []
