"""C08 — Activation methods trigger exactly the rules their definition selects (DESIGN.md section 8, C08)."""
from __future__ import annotations

import glob
import itertools
import json
import math
import os

import numpy as np

import common as C
import fuzzylite as fl

PID = "C08"
MODULES = ["FlVerif.Props.C08"]
NAMESPACE = "C08"
TIE_A = [f"code:fuzzylite.activation.{c}.activate"
         for c in ("General", "First", "Last", "Highest", "Lowest", "Proportional", "Threshold")]
TIE_A += ["code:fuzzylite.rule.Rule.deactivate", "code:fuzzylite.rule.Rule.activate_with", "code:fuzzylite.rule.Rule.trigger",
         "code:fuzzylite.rule.Rule.is_loaded"]
TIE_A += ["code:fuzzylite.rule.RuleBlock.activate", "code:fuzzylite.activation.Activation.assert_is_not_vector",
          "code:fuzzylite.activation.Threshold.Comparator.operator.fget"]
RULE = ("rule blocks of 1-8 rules `if in_i is x then ...` over Ramp(0,1) inputs (degree = weight x input value, exact), run through "
        "RuleBlock.activate of real engines; 7 methods x n in -1..rules+1 x thresholds on/off the degrees x 6 comparators; degree "
        "vectors over {0, 1/4, 1/2, 3/4} exhaustively for <= 4 rules (quick) / <= 6 (thorough: pool of 3) plus random blocks of "
        "5-8 rules with ties, zeros, NaN; random enabled flags, four loaded states (loaded, antecedent / consequent / both "
        "unloaded), arbitrary stale rule state before the call, and two-pass runs (activate, unload / disable rules, new inputs, activate "
        "again on the same engine); vector inputs for the rejection clause.  Observed: triggered and "
        "activation_degree of every rule, (term, degree) list of every output.  non-trivial: at least one rule triggered and at "
        "least one eligible rule not triggered, or an error; distinct = distinct (method, flags, degrees)")
ASSUMPTIONS = ["degrees are exact floats (weights are powers of two), so the model sees the same numbers as the implementation",
               "heapq pops tuples in increasing order (trusted contract)"]
LEVEL_TEXT = ("Lean theorems for rule lists of ANY length, degrees in the IEEE special-value algebra: op_eq_spec_<method> x 7 (each "
              "loop of activation.py, as a code-shaped model, computes the specified selection: General all loaded, First/Last the "
              "first n eligible in (reverse) insertion order, Highest/Lowest take n of the stable sort by (degree, index), Threshold "
              "the comparator filter, Proportional positive degrees divided by their sum), laws of the selection (first_selected_iff, "
              "nbest_*: sorted, nothing lost, the taken beat the rest, count; proportional_sum_one), contributions_subset, "
              "triggered_pos, state_independent (stale rule state is irrelevant), corner lemmas n = 0 / n >= length, vector_rejected, "
              "comparator_table (regenerated table).  Correspondence: the same executable model against RuleBlock.activate.")
LEVEL_NOTE = ("Trusted: Lean kernel, standard axioms, heapq's contract (the heap is modelled as an ordered insertion list).  Readings: "
              "First/Last/Highest/Lowest/Proportional count a disabled rule with positive degree towards n / the sum; General adds a "
              "zero-degree activation for rules that do not fire.  Carried by the correspondence only: exception class of the vector "
              "rejection, float division of Proportional, General on batches (row-wise comparison).")
TECHNIQUE = "Lean 4 proof (list induction; ordered insertion for the heap) + differential run of RuleBlock.activate against the Lean driver"

WEIGHTS = [1.0, 1.0, 0.5, 1.0, 2.0, 1.0, 1.0, 0.5]
COMPARATORS = ["<", "<=", "==", "!=", ">=", ">"]
LOADED = ["full", "no-antecedent", "no-consequent", "none"]
_ENG = {}


def conclusions(i):
    cs = [(f"o{1 + i % 2}", f"t{1 + i % 3}")]
    if i % 4 == 3:
        cs.append((f"o{1 + (i + 1) % 2}", f"t{1 + (i + 1) % 3}"))
    return cs


def build(n):
    ins = [fl.InputVariable(f"in{i}", minimum=0.0, maximum=1.0, terms=[fl.Ramp("x", 0.0, 1.0)]) for i in range(n)]
    outs = [fl.OutputVariable(o, minimum=0.0, maximum=1.0, aggregation=fl.Maximum(), defuzzifier=fl.Centroid(10),
                              terms=[fl.Triangle("t1", 0.0, 0.2, 0.4), fl.Triangle("t2", 0.3, 0.5, 0.7), fl.Triangle("t3", 0.6, 0.8, 1.0)])
            for o in ("o1", "o2")]
    e = fl.Engine("e", input_variables=ins, output_variables=outs)
    rb = fl.RuleBlock("rb", conjunction=fl.Minimum(), disjunction=fl.Maximum(), implication=fl.Minimum(), activation=fl.General())
    for i in range(n):
        text = f"if in{i} is x then " + " and ".join(f"{o} is {t}" for o, t in conclusions(i)) + f" with {WEIGHTS[i]!r}"
        rb.rules.append(fl.Rule.create(text, e))
    e.rule_blocks.append(rb)
    return e


def method_obj(m):
    k = m[0]
    if k == "General":
        return fl.General()
    if k == "First":
        return fl.First(m[1], m[2])
    if k == "Last":
        return fl.Last(m[1], m[2])
    if k == "Highest":
        return fl.Highest(m[1])
    if k == "Lowest":
        return fl.Lowest(m[1])
    if k == "Proportional":
        return fl.Proportional()
    return fl.Threshold(m[1], m[2])


def reconfigure(act, m):
    """the parameters of an activation object that was used before are re-assigned by attribute (public fields)"""
    if m[0] in ("First", "Last"):
        act.rules, act.threshold = m[1], m[2]
    elif m[0] in ("Highest", "Lowest"):
        act.rules = m[1]
    elif m[0] == "Threshold":
        act.comparator, act.threshold = fl.Threshold.Comparator(m[1]), m[2]


def apply_case(e, case, keep_state=False):
    rb = e.rule_blocks[0]
    if keep_state and case.get("reuse_activation") and type(rb.activation).__name__ == case["method"][0]:
        reconfigure(rb.activation, case["method"])
    else:
        rb.activation = method_obj(case["method"])
    for o in e.output_variables:
        o.fuzzy.clear()
    for i, (rule, rc) in enumerate(zip(rb.rules, case["rules"])):
        rule.enabled = rc["enabled"]
        want_a = rc["loaded"] in ("full", "no-consequent")
        want_c = rc["loaded"] in ("full", "no-antecedent")
        if want_a and not rule.antecedent.is_loaded():
            rule.antecedent.load(e)
        if not want_a and rule.antecedent.is_loaded():
            rule.antecedent.unload()
        if want_c and not rule.consequent.is_loaded():
            rule.consequent.load(e)
        if not want_c and rule.consequent.is_loaded():
            rule.consequent.unload()
        if not keep_state:
            rule.activation_degree = fl.scalar(rc["prior_degree"])
            rule.triggered = fl.array(rc["prior_triggered"])
        v = case["values"][i]
        e.input_variables[i].value = np.array(v, dtype=float) if isinstance(v, list) else float(v)


def observe(case, e=None):
    if case.get("before"):
        # second pass: a fresh engine runs the first activation, then flags / loaded states / inputs change and the rules keep
        # whatever state the first pass left in them
        e = build(len(case["rules"]))
        apply_case(e, case["before"])
        with np.errstate(all="ignore"):
            try:
                e.rule_blocks[0].activate()
            except Exception:  # noqa: BLE001
                pass
        apply_case(e, case, keep_state=True)
    else:
        if e is None:
            e = build(len(case["rules"]))
        apply_case(e, case)
    rb = e.rule_blocks[0]
    with np.errstate(all="ignore"):
        try:
            rb.activate()
        except Exception as ex:  # noqa: BLE001
            return {"raised": type(ex).__name__, "message": str(ex)[:120]}
    vec = any(isinstance(v, list) for v in case["values"])
    if vec:
        return {"rules": [([bool(x) for x in np.atleast_1d(r.triggered)], [float(x) for x in np.atleast_1d(r.activation_degree)])
                          for r in rb.rules],
                "outputs": {o.name: [(t.term.name, [float(x) for x in np.atleast_1d(t.degree)]) for t in o.fuzzy.terms]
                            for o in e.output_variables}}
    return {"rules": [(bool(r.triggered), float(r.activation_degree)) for r in rb.rules],
            "outputs": {o.name: [(t.term.name, float(t.degree)) for t in o.fuzzy.terms] for o in e.output_variables}}


def degree_of(case, i, row=None):
    v = case["values"][i]
    if isinstance(v, list):
        v = v[row if row is not None else 0]
    return WEIGHTS[i] * float(v)      # Ramp(0,1)(v) = v on [0,1]; NaN stays NaN


def is_loaded(rc):
    return rc["loaded"] == "full"


# ------------------------------------------------------------------------------------------ the property, in Python

def spec(case, row=None):
    """selection per the definitions of the property -> expected rule states and per-output contributions"""
    n = len(case["rules"])
    m = case["method"]
    d = [degree_of(case, i, row) for i in range(n)]
    L = [i for i in range(n) if is_loaded(case["rules"][i])]
    pos = [i for i in L if d[i] > 0.0]
    stored = {i: d[i] for i in L}
    k = m[0]
    if k == "General":
        sel = L
    elif k in ("First", "Last"):
        el = [i for i in pos if d[i] >= m[2]]
        if k == "Last":
            el = el[::-1]
        sel = el[: max(m[1], 0)]
    elif k in ("Highest", "Lowest"):
        order = sorted(pos, key=(lambda i: (-d[i], i)) if k == "Highest" else (lambda i: (d[i], i)))
        sel = order[: max(m[1], 0)]
    elif k == "Proportional":
        sel = pos
        s = 0.0
        for i in pos:
            s += d[i]
        for i in pos:
            stored[i] = d[i] / s
    else:
        op = {"<": lambda a, b: a < b, "<=": lambda a, b: a <= b, "==": lambda a, b: a == b, "!=": lambda a, b: a != b,
              ">=": lambda a, b: a >= b, ">": lambda a, b: a > b}[m[1]]
        sel = [i for i in L if op(d[i], m[2])]
    rules = []
    for i in range(n):
        if i in stored:
            rules.append((bool(i in sel and case["rules"][i]["enabled"] and stored[i] > 0.0), stored[i]))
        else:
            rules.append((False, 0.0))
    outs = {"o1": [], "o2": []}
    for i in sel:
        if case["rules"][i]["enabled"]:
            for o, t in conclusions(i):
                outs[o].append((t, float(np.nan_to_num(stored[i], nan=0.0, neginf=0.0, posinf=1.0))))
    return {"rules": rules, "outputs": outs}


def feq(a, b):
    return (a != a and b != b) or abs(a - b) <= 1e-9 * (1 + abs(b))


def same_obs(ob, sp):
    if len(ob["rules"]) != len(sp["rules"]):
        return "number of rules"
    for i, ((t1, d1), (t2, d2)) in enumerate(zip(ob["rules"], sp["rules"])):
        if t1 != t2:
            return f"rule {i}: triggered is {t1}, the definition gives {t2}"
        if not feq(d1, d2):
            return f"rule {i}: activation_degree is {d1}, the definition gives {d2}"
    for o in sp["outputs"]:
        a, b = ob["outputs"][o], sp["outputs"][o]
        if [t for t, _ in a] != [t for t, _ in b] or not all(feq(x, y) for (_, x), (_, y) in zip(a, b)):
            return f"fuzzy output {o}: activations are {a}, the definition gives {b}"
    return None


def has_vector(case):
    return any(isinstance(v, list) and len(v) > 1 and is_loaded(rc) for v, rc in zip(case["values"], case["rules"]))


def any_list(case):
    return any(isinstance(v, list) for v in case["values"])


def row_of(ob, r):
    return {"rules": [(bcast(t, r), bcast(dg, r)) for t, dg in ob["rules"]],
            "outputs": {o: [(t, bcast(dg, r)) for t, dg in ts] for o, ts in ob["outputs"].items()}}


def n_rows(case):
    return max(len(v) for v in case["values"] if isinstance(v, list))


def oracle(case):
    ob = observe(case)
    if any_list(case):
        if has_vector(case) and case["method"][0] != "General":
            if ob.get("raised") != "ValueError":
                return False, (f"{case['method'][0]} was activated with a batch of inputs (a vector degree) and did not reject it "
                               f"with ValueError: {ob if 'raised' in ob else 'no exception'}")
            return True, "ok"
        if "raised" in ob:
            return False, f"{case['method'][0]} on a batch (vector degrees only on unloaded rules, or General) raised {ob['raised']}: {ob.get('message')}"
        for r in range(n_rows(case)):
            bad = same_obs(row_of(ob, r), spec(case, r))
            if bad:
                return False, f"{method_text(case['method'])} on a batch, row {r}: {bad}"
        return True, "ok"
    if "raised" in ob:
        return False, f"activation raised {ob['raised']}: {ob.get('message')}"
    bad = same_obs(ob, spec(case))
    if bad:
        return False, f"{method_text(case['method'])} on degrees {[degree_of(case, i) for i in range(len(case['rules']))]}: {bad}"
    return True, "ok"


def bcast(v, r):
    return v[r] if len(v) > 1 else v[0]


def method_text(m):
    return f"{m[0]}({', '.join(str(x) for x in m[1:])})"


def key(case):
    return f"{case['method'][0]}:{len(case['rules'])}"


# ------------------------------------------------------------------------------------------ generation

def methods_for(n, thresholds, full=True):
    out = [["General"], ["Proportional"]]
    ns = list(range(0, n + 2)) + [-1]
    for k in ns:
        out += [["Highest", k], ["Lowest", k]]
        for t in thresholds:
            out += [["First", k, t], ["Last", k, t]]
    for c in COMPARATORS:
        for t in thresholds[:3] if not full else thresholds:
            out.append(["Threshold", c, t])
    return out


def flags(rng, n, plain=False):
    rules = []
    for _ in range(n):
        if plain:
            rules.append({"enabled": True, "loaded": "full", "prior_degree": 0.0, "prior_triggered": False})
        else:
            rules.append({"enabled": rng.random() < 0.8, "loaded": "full" if rng.random() < 0.8 else rng.choice(LOADED[1:]),
                          "prior_degree": rng.choice([0.0, 0.0, 0.5, 1.0, 0.125]), "prior_triggered": rng.random() < 0.3})
    return rules


def gen_cases(ctx):
    rng = ctx.rng
    pool = [0.0, 0.25, 0.5, 0.75]
    thr = [0.0, 0.25, 0.3, 0.5]
    max_ex = ctx.scale(4, 6)
    for n in range(1, max_ex + 1):
        ms = methods_for(n, thr, full=n <= 3)
        for vals in itertools.product(pool if n <= 4 else pool[:3], repeat=n):
            for m in ms:
                yield {"method": m, "rules": flags(rng, n, plain=rng.random() < 0.4), "values": list(vals)}, "exhaustive"
    # degrees just below / above the usual thresholds (closer than the library's own tolerance 1e-3): the comparison with the
    # threshold is exact
    big = [0.0, 0.0, 0.125, 0.25, 0.25, 0.5, 0.5, 0.625, 0.75, 1.0, 0.3, 0.4996, 0.5004, 0.2498, 0.9992, math.nan]
    for _ in range(ctx.scale(2500, 60000)):
        n = rng.choice([5, 6, 7, 8])
        vals = [rng.choice(big) for _ in range(n)]
        t = rng.choice([0.0, rng.choice(vals), 0.3, 0.5 * rng.choice(vals), 1.5, math.nan, -1.0, 0.5, 0.25, 1.0])
        m = rng.choice([["General"], ["Proportional"], ["Highest", rng.randrange(-1, n + 2)], ["Lowest", rng.randrange(-1, n + 2)],
                        ["First", rng.randrange(-1, n + 2), t], ["Last", rng.randrange(-1, n + 2), t],
                        ["Threshold", rng.choice(COMPARATORS), t], ["Threshold", rng.choice(COMPARATORS), t]])
        yield {"method": m, "rules": flags(rng, n), "values": vals}, "random-large"
    # two passes on one engine: activate, then unload / disable some rules, change the inputs and the method, activate again;
    # the rules carry the state of the first pass into the second (the case records it from the definition)
    for _ in range(ctx.scale(1500, 20000)):
        n = rng.choice([1, 2, 3, 4, 6])
        first = {"method": rng.choice([["General"], ["General"], ["Proportional"], ["Highest", n], ["First", n, 0.0],
                                       ["Threshold", ">=", 0.0]]),
                 "rules": flags(rng, n, plain=True), "values": [rng.choice(big[:-1]) for _ in range(n)]}
        after = spec(first)["rules"]
        rules2 = []
        for i in range(n):
            rules2.append({"enabled": rng.random() < 0.7, "loaded": "full" if rng.random() < 0.5 else rng.choice(LOADED[1:]),
                           "prior_degree": after[i][1], "prior_triggered": after[i][0]})
        vals2 = [rng.choice(big[:-1]) for _ in range(n)]
        m2 = rng.choice([["General"], ["General"], ["Proportional"], ["Highest", rng.randrange(0, n + 1)],
                         ["Lowest", rng.randrange(0, n + 1)], ["First", rng.randrange(0, n + 1), rng.choice(thr)],
                         ["Last", rng.randrange(0, n + 1), rng.choice(thr)], ["Threshold", rng.choice(COMPARATORS), rng.choice(thr)]])
        yield {"method": m2, "rules": rules2, "values": vals2, "before": first}, "second-pass"
    # the same activation OBJECT used twice: first activation, parameters re-assigned by attribute, second activation
    for _ in range(ctx.scale(1200, 12000)):
        n = rng.choice([1, 2, 3, 4, 6])
        k = rng.choice(["First", "Last", "Highest", "Lowest", "Threshold", "Threshold"])

        def params():
            if k in ("First", "Last"):
                return [k, rng.randrange(0, n + 1), rng.choice(thr)]
            if k in ("Highest", "Lowest"):
                return [k, rng.randrange(0, n + 1)]
            return [k, rng.choice(COMPARATORS), rng.choice(thr + [0.75])]
        first = {"method": params(), "rules": flags(rng, n, plain=True), "values": [rng.choice(big[:-1]) for _ in range(n)]}
        after = spec(first)["rules"]
        rules2 = [{"enabled": True, "loaded": "full", "prior_degree": after[i][1], "prior_triggered": after[i][0]} for i in range(n)]
        same_inputs = rng.random() < 0.5
        yield {"method": params(), "rules": rules2, "values": first["values"] if same_inputs else [rng.choice(big[:-1]) for _ in range(n)],
               "before": first, "reuse_activation": True}, "second-pass"
    # batches: the vector-incapable methods must reject, General works row by row
    for _ in range(ctx.scale(300, 3000)):
        n = rng.choice([1, 2, 3, 5])
        vals = [rng.choice(big[:-1]) for _ in range(n)]
        rows = rng.choice([2, 3])
        for i in range(n):
            if rng.random() < 0.6:
                vals[i] = [rng.choice(pool) for _ in range(rows)]
        if not any(isinstance(v, list) for v in vals):
            vals[rng.randrange(n)] = [rng.choice(pool) for _ in range(rows)]
        m = rng.choice([["General"], ["Proportional"], ["Highest", 1], ["Lowest", 2], ["First", 1, 0.0], ["Last", 2, 0.25],
                        ["Threshold", ">", 0.25]])
        yield {"method": m, "rules": flags(rng, n, plain=rng.random() < 0.5), "values": vals}, "vector"


def corpus_cases():
    d = os.path.join(C.VERIF, "corpus", PID)
    for p in sorted(glob.glob(os.path.join(d, "*.json"))):
        yield json.load(open(p))["case"]


def model_line(case, row=None, cmd="block"):
    rules = []
    for i, rc in enumerate(case["rules"]):
        v = case["values"][i]
        vec = isinstance(v, list) and len(v) > 1 and row is None
        rules.append([int(is_loaded(rc)), int(rc["enabled"]), int(vec), degree_of(case, i, row), rc["prior_degree"],
                      int(rc["prior_triggered"]), [[o, 1, [], t] for o, t in conclusions(i)]])
    m = case["method"]
    return C.sx([cmd, m, "Min", rules]) if cmd == "block" else C.sx([cmd, m, rules])


def parse_model(o):
    p = C.parse_sx(o)
    if not isinstance(p, list) or not p:
        return None
    if p[0] == "error":
        return {"raised": "ValueError"}
    outs = {"o1": [], "o2": []}
    for var, term, deg, _ in p[2]:
        outs[var].append((term, C.parse_x(deg)))
    return {"rules": [(t == "1", C.parse_x(d)) for d, t in p[1]], "outputs": outs}


def cmp_model(ob, mo):
    if mo is None:
        return "driver rejected the case"
    if "raised" in ob or "raised" in mo:
        if ob.get("raised") != mo.get("raised"):
            return f"implementation {ob.get('raised', 'no exception')}, model {mo.get('raised', 'no exception')}"
        return None
    for i, ((t1, d1), (t2, d2)) in enumerate(zip(ob["rules"], mo["rules"])):
        if t1 != t2 or not C.close(d1, d2):
            return f"rule {i}: implementation (triggered {t1}, degree {d1}), model (triggered {t2}, degree {d2})"
    for o in mo["outputs"]:
        a, b = ob["outputs"][o], mo["outputs"][o]
        if [t for t, _ in a] != [t for t, _ in b] or not all(C.close(x, y) for (_, x), (_, y) in zip(a, b)):
            return f"fuzzy output {o}: implementation {a}, model {[(t, str(d)) for t, d in b]}"
    return None


def correspond(ctx):
    st = ctx.stats
    mism = []
    cases = [(c, "corpus") for c in corpus_cases()] + list(gen_cases(ctx))
    ctx.notes["exhaustive"] = True
    lines, index = [], []
    for ci, (case, kind) in enumerate(cases):
        if any_list(case) and not (has_vector(case) and case["method"][0] != "General"):
            for r in range(n_rows(case)):
                index.append((ci, r))
                lines.append(model_line(case, r))
        else:
            index.append((ci, None))
            lines.append(model_line(case))
    # the specification itself on a sub-stream (Op = Spec is a theorem; this guards the driver's decoding)
    sub = [ci for ci, (c, k) in enumerate(cases) if not any_list(c)][:: ctx.scale(7, 3)]
    lines_spec = [model_line(cases[ci][0], cmd="activate-spec") for ci in sub]
    lines_op = [model_line(cases[ci][0], cmd="activate") for ci in sub]
    outs = ctx.driver.eval(lines + lines_spec + lines_op)
    for a, b, ci in zip(outs[len(lines): len(lines) + len(sub)], outs[len(lines) + len(sub):], sub):
        st.count("op-vs-spec")
        if a != b:
            mism.append({"case": cases[ci][0], "model": [a, b], "what": f"Op.activate {b} differs from Spec.activate {a}"})
    models = {}
    for (ci, r), o in zip(index, outs[: len(lines)]):
        models.setdefault(ci, []).append((r, o))
    for ci, (case, kind) in enumerate(cases):
        n = len(case["rules"])
        e = _ENG.get(n) or _ENG.setdefault(n, build(n))
        ob = observe(case, e)
        st.count(kind)
        st.count(case["method"][0])
        bad = None
        if models[ci][0][0] is not None:
            if "raised" in ob:
                bad = f"{case['method'][0]} on a batch raised {ob}"
            else:
                for r, o in models[ci]:
                    bad = cmp_model(row_of(ob, r), parse_model(o))
                    if bad:
                        bad = f"row {r}: {bad}"
                        break
            nt = True
        else:
            mo = parse_model(models[ci][0][1])
            bad = cmp_model(ob, mo)
            nt = bool(mo) and ("raised" in mo or (any(t for t, _ in mo["rules"]) and
                                                     sum(1 for t, _ in mo["rules"] if t) < sum(1 for i in range(n) if is_loaded(case["rules"][i]) and degree_of(case, i) > 0)))
        st.case((json.dumps(case["method"]), json.dumps(case["values"]), json.dumps(case["rules"])), nt,
                sample={"method": case["method"], "degrees": [degree_of(case, i) for i in range(n)], "impl": ob} if kind == "random-large" else None)
        st.validated += 1
        if bad:
            mism.append({"case": case, "impl": ob, "model": [o for _, o in models[ci]], "what": bad})
        if ci % ctx.scale(3, 3) == 0 or kind in ("corpus", "vector", "second-pass") or bad:
            ok, detail = oracle(case)
            st.count("oracle")
            if not ok:
                mism.append({"case": case, "impl": ob, "violation": True, "detail": detail, "what": detail})
        if len(mism) > 40:
            break
    mism.sort(key=lambda m: (not m.get("violation"), len(m["case"]["rules"])))
    return mism


def search(ctx):
    for case, _ in itertools.chain(((c, "corpus") for c in corpus_cases()), gen_cases(ctx)):
        ok, d = oracle(case)
        if not ok:
            return [(case, d)]
    return []
