"""C07 — Each conclusion of a triggered rule contributes exactly its own activation (DESIGN.md section 8, C07)."""
from __future__ import annotations

import glob
import itertools
import json
import math
import os

import numpy as np

import common as C
import fuzzylite as fl
import gen_engines as GE

PID = "C07"
MODULES = ["FlVerif.Props.C07"]
NAMESPACE = "C07"
TIE_A = ["Hedge.", "Setter.activatedDegree", "code:fuzzylite.rule.Consequent.modify",
         "code:fuzzylite.rule.Rule.deactivate", "code:fuzzylite.rule.Rule.activate_with", "code:fuzzylite.rule.Rule.trigger",
         "code:fuzzylite.rule.Rule.is_loaded"]
RULE = ("consequents with 1-3 conclusions over the outputs o1..o3 (two terms each), 0-2 hedges per conclusion out of the six "
        "registered ones, every order of the conclusions, with / without `with w`, enabled / disabled rule and variables; degrees: "
        "scalars {0, 1/4, 0.3, 1/2, 3/4, 1, NaN, +-inf, -0.5, 1.5} and batches of 3-4 of them; two paths: Rule.trigger with the "
        "degree set directly, and RuleBlock.activate (General) over a Ramp input so that weight x antecedent runs.  All single "
        "conclusions are enumerated; 2-3 conclusions are sampled with all their permutations.  non-trivial: at least one "
        "activation with a stored degree different from 0 and 1; distinct = distinct (consequent, flags, degree).  Family "
        "`kinds`: the concluded terms are of every registered term class (Constant, Linear, Function, Discrete, every shape), "
        "the implication is any registered T-norm or none; every activated term must carry the variable's own term object and "
        "the operator object it was triggered with, and denote x -> implication(degree, term(x))")
ASSUMPTIONS = ["hedges are applied by the regenerated definitions Gen.Hedge.* (C05) at exact rationals, square roots through Fn.rat",
               "a batch is compared element by element with the scalar model"]
LEVEL_TEXT = ("Lean theorems for consequents with any number of conclusions and hedges, generic in the degree type, hedge functions "
              "and sanitiser: modify_spec (the repaired loop = one contribution per conclusion on an enabled variable, computed from "
              "the rule's degree and the conclusion's own hedges), perm_independent, hedges_innermost_first, "
              "one_activation_per_enabled_conclusion / degree_sanitised / disabled_variable_nothing / disabled_rule_nothing (these "
              "four for Consequent.modify AS WRITTEN), sanitise_table, load_render (Consequent.load rebuilds every expressible "
              "conclusion list, hedges in text order).  For the loop as written the full statement is false - finding F3: "
              "modify_counterexample, modify_order_dependent (decided witnesses), modify_spec_partial (holds when no enabled "
              "conclusion before the last carries a hedge), modify_leak_closed_form.  Correspondence: the loop as written against "
              "Rule.trigger / RuleBlock.activate; the property oracle judges every case against the specification and reports the "
              "F3 family as KNOWN-FINDING.")
LEVEL_NOTE = ("F3 is a known finding (a repair changes the golden data of examples/takagi_sugeno/sugeno_tip_calculator): "
              "modify_spec is proved for the repaired loop only, the code as written satisfies modify_spec_partial.  Carried by the "
              "correspondence only: batch degrees (NumPy broadcasting), the class of the implication object, float evaluation of "
              "the hedges.  Trusted: Lean kernel, standard axioms, Gen.Hedge (Tie A, proved in C05), Fn.rat, tolerance 1e-9.")
TECHNIQUE = "Lean 4 proof (list induction, generic in the numeric content) + differential run of Rule.trigger against the Lean driver"

OUTS = ["o1", "o2", "o3"]
TERMS = ["t1", "t2"]
SCALARS = [0.0, 0.25, 0.3, 0.5, 0.75, 1.0, math.nan, math.inf, -math.inf, -0.5, 1.5]
_HEDGES = None


def hedge_names():
    global _HEDGES
    if _HEDGES is None:
        f = fl.settings.factory_manager.hedge
        _HEDGES = sorted(k for k in f.constructors if k)
    return _HEDGES


def engine_for(case):
    en = case.get("outputs_enabled", {})
    kinds = case.get("terms", {})      # family `kinds`: {output: [spec of t1, spec of t2]} (gen_engines term specs)

    def terms(o):
        if o in kinds:
            return [GE.build_term(spec) for spec in kinds[o]]
        return [fl.Triangle("t1", 0.0, 0.25, 0.5), fl.Triangle("t2", 0.5, 0.75, 1.0)]
    e = fl.Engine(
        "e",
        input_variables=[fl.InputVariable("a", minimum=0.0, maximum=1.0, terms=[fl.Ramp("x", 0.0, 1.0)])],
        output_variables=[fl.OutputVariable(o, minimum=0.0, maximum=1.0, enabled=en.get(o, True), aggregation=fl.Maximum(),
                                            defuzzifier=fl.Centroid(10), terms=terms(o))
                          for o in OUTS])
    for o in e.output_variables:
        for t in o.terms:
            if isinstance(t, fl.Linear):
                t.engine = e
            if isinstance(t, fl.Function):
                t.engine = e
                t.load()
    return e


def impl_name(case):
    """class name of the implication operator the rule is triggered with (`NoneType`: no operator)"""
    return case["impl"] or "NoneType" if "impl" in case else "AlgebraicProduct"


def impl_of(case):
    n = impl_name(case)
    return None if n == "NoneType" else getattr(fl, n)()


XS = [0.0, 0.1, 0.3, 0.5, 0.75, 1.0, math.nan]


def outcome(f):
    try:
        return np.asarray(f(), dtype=float)
    except Exception as ex:  # noqa: BLE001
        return type(ex).__name__


def carried(e, impl, case):
    """what every activated term CARRIES: the concluded term is the output variable's own term object, the operator is
    the very object the rule was triggered with, and the contribution denotes x -> implication(degree, term(x)) - the
    reference is computed from a fresh operator of that class and the variable's term, never through Activated"""
    bad = []
    for o in e.output_variables:
        for k, t in enumerate(o.fuzzy.terms):
            where = f"{o.name}.fuzzy.terms[{k}] ({t.term.name})"
            own = next((u for u in o.terms if u.name == t.term.name), None)
            if t.term is not own:
                bad.append(f"{where}: the activated term does not hold the term object of the variable")
            if t.implication is not impl:
                bad.append(f"{where}: implication is {type(t.implication).__name__}, the rule was triggered with "
                           f"{type(impl).__name__}")
            if impl is None or own is None:
                continue
            ref_op = type(impl)()
            # every sample point in the family `kinds`; one interior point for the two triangles of the other families
            for x in (XS if "terms" in case else XS[2:3]):
                mu = outcome(lambda: own.membership(x))
                if not isinstance(mu, str) and mu.size > 1:
                    break       # a Linear / Function term over a batch of input values: one value per row, not per x
                got = outcome(lambda: t.membership(x))
                want = mu if isinstance(mu, str) else outcome(lambda: ref_op.compute(np.asarray(t.degree, dtype=float).ravel(), mu))
                if isinstance(got, str) or isinstance(want, str):
                    same_ = isinstance(got, str) and isinstance(want, str)
                else:
                    # one value per degree of the batch
                    same_ = got.size == want.size and all((a != a and b != b) or abs(a - b) <= 1e-12 * (1 + abs(b)) or a == b
                                                           for a, b in zip(got.ravel().tolist(), want.ravel().tolist()))
                if not same_:
                    bad.append(f"{where}: membership({x}) = {got if isinstance(got, str) else got.tolist()}, "
                               f"{type(impl).__name__}(degree, {type(own).__name__}({x})) = "
                               f"{want if isinstance(want, str) else want.tolist()}")
                    break
    return bad


def text_of(case):
    parts = [" ".join([c["var"], "is"] + list(c["hedges"]) + [c["term"]]) for c in case["conclusions"]]
    t = "if a is x then " + " and ".join(parts)
    if case.get("weight") is not None:
        t += f" with {case['weight']!r}"
    return t


def as_vec(d):
    return [float(v) for v in d] if isinstance(d, (list, tuple)) else [float(d)]


def observe(case):
    """run the real code; returns {"triggered": [...], "outputs": {o: [(term, [degrees], implication class)]}} or {"raised": …}"""
    e = engine_for(case)
    impl = impl_of(case)
    with np.errstate(all="ignore"):
        try:
            rule = fl.Rule.create(text_of(case), e)
            rule.enabled = case.get("rule_enabled", True)
            d = case["degree"]
            val = np.array(d, dtype=float) if isinstance(d, (list, tuple)) else float(d)
            if case["mode"] == "trigger":
                if "input" in case:      # the value Linear / Function terms read
                    e.input_variables[0].value = float(case["input"])
                rule.activation_degree = val
                rule.trigger(impl)
            else:
                e.input_variables[0].value = val
                rb = fl.RuleBlock("rb", implication=impl, activation=fl.General(), rules=[rule])
                e.rule_blocks.append(rb)
                rb.activate()
            outs = {}
            for o in e.output_variables:
                outs[o.name] = [(t.term.name, [float(v) for v in np.atleast_1d(t.degree)], type(t.implication).__name__)
                                for t in o.fuzzy.terms]
            return {"triggered": [bool(v) for v in np.atleast_1d(rule.triggered)], "outputs": outs,
                    "degree": [float(v) for v in np.atleast_1d(rule.activation_degree)], "carried": carried(e, impl, case)}
        except Exception as ex:  # noqa: BLE001
            return {"raised": f"{type(ex).__name__}: {ex}"[:200]}


def rule_degrees(case):
    """the degree vector the rule is triggered with (exact floats): set directly, or weight x Ramp(0,1)(x)"""
    d = as_vec(case["degree"])
    if case["mode"] == "trigger":
        return d
    w = 1.0 if case.get("weight") is None else float(case["weight"])
    return [w * v for v in d]


def sanitise(v):
    return float(np.nan_to_num(v, nan=0.0, neginf=0.0, posinf=1.0))


def expected(case, leak=False):
    """the property (leak=False) / the loop as written (leak=True), computed with the real hedge objects"""
    en = case.get("outputs_enabled", {})
    f = fl.settings.factory_manager.hedge
    outs = {o: [] for o in OUTS}
    if not case.get("rule_enabled", True):
        return outs
    with np.errstate(all="ignore"):
        carried = np.array(rule_degrees(case), dtype=float)
        for c in case["conclusions"]:
            if not en.get(c["var"], True):
                continue
            deg = carried
            for h in reversed(c["hedges"]):
                deg = np.asarray(f.construct(h).hedge(deg), dtype=float)
            if leak:
                carried = deg
            outs[c["var"]].append((c["term"], [sanitise(v) for v in np.atleast_1d(deg)], impl_name(case)))
    return outs


def bcast(flags, n):
    """`Rule.triggered` of a disabled rule is the scalar `array(False)` whatever the batch size"""
    return list(flags) * n if len(flags) == 1 else list(flags)


def same(a, b):
    if set(a) != set(b):
        return False
    for o in a:
        if len(a[o]) != len(b[o]):
            return False
        for (t1, d1, i1), (t2, d2, i2) in zip(a[o], b[o]):
            if t1 != t2 or i1 != i2 or len(d1) != len(d2):
                return False
            if not all((x != x and y != y) or abs(x - y) <= 1e-9 * (1 + abs(y)) for x, y in zip(d1, d2)):
                return False
    return True


def classify(case):
    ob = observe(case)
    if "raised" in ob:
        return ob, "raised"
    spec = expected(case)
    if same(ob["outputs"], spec):
        trig = [bool(case.get("rule_enabled", True) and v > 0) for v in rule_degrees(case)]
        if bcast(ob["triggered"], len(trig)) != trig:
            return ob, "triggered-flag"
        if ob["carried"]:
            return ob, "carried"
        return ob, "ok"
    if same(ob["outputs"], expected(case, leak=True)):
        return ob, "hedge-leak"
    return ob, "other"


def oracle(case):
    ob, cl = classify(case)
    if cl == "ok":
        return True, "ok"
    if cl == "raised":
        return False, f"triggering the rule raised {ob['raised']}"
    if cl == "carried":
        return False, f"rule '{text_of(case)}' triggered with {impl_name(case)}, degree {rule_degrees(case)}: " + "; ".join(ob["carried"][:3])
    if cl == "triggered-flag":
        return False, f"Rule.triggered = {ob['triggered']} for degrees {rule_degrees(case)}, rule enabled = {case.get('rule_enabled', True)}"
    spec = expected(case)
    what = ("the hedges of an earlier conclusion also modify the degree of the later ones (Consequent.modify re-binds "
            "activation_degree)" if cl == "hedge-leak" else "fuzzy outputs differ from the specified contributions")
    return False, f"{what}: rule '{text_of(case)}', degree {rule_degrees(case)}: implementation {ob['outputs']}, property {spec}"


def key(case):
    ob, cl = classify(case)
    if cl == "hedge-leak":
        return "F3:hedge-leak"
    kinds = "|" + ",".join(f"{o}:{'/'.join(t['cls'] for t in ts)}" for o, ts in sorted(case["terms"].items())) + "|" + impl_name(case) \
        if "terms" in case else ""
    return f"{cl}:{text_of(case)}|{case['mode']}|{case.get('rule_enabled', True)}|{json.dumps(case.get('outputs_enabled', {}), sort_keys=True)}{kinds}"


# ------------------------------------------------------------------------------------------ generation

def hedge_lists():
    hs = hedge_names()
    return [[]] + [[h] for h in hs] + [[a, b] for a in hs for b in hs]


def degrees(rng, n):
    out = list(SCALARS)
    for _ in range(n):
        out.append([rng.choice(SCALARS) for _ in range(rng.choice([3, 4]))])
    return out


def gen_cases(ctx):
    rng = ctx.rng
    HL = hedge_lists()
    # (1) every single conclusion x a degree sample
    for var in OUTS[:1]:
        for term in TERMS:
            for hl in HL:
                for d in [0.3, 0.75, rng.choice(SCALARS), [0.25, math.nan, 1.5, math.inf]]:
                    yield {"mode": "trigger", "conclusions": [{"var": var, "hedges": hl, "term": term}], "degree": d}, "single"
    # (2) 2-3 conclusions, all permutations
    for _ in range(ctx.scale(1500, 15000)):
        k = rng.choice([2, 2, 3])
        cs = [{"var": rng.choice(OUTS), "hedges": rng.choice(HL if rng.random() < 0.7 else [[]]), "term": rng.choice(TERMS)}
              for _ in range(k)]
        base = {"mode": rng.choice(["trigger", "trigger", "activate"]),
                "rule_enabled": rng.random() < 0.9,
                "outputs_enabled": {o: rng.random() < 0.85 for o in OUTS}}
        if base["mode"] == "activate":
            base["weight"] = rng.choice([None, None, 0.5, 1.0, 0.25])
            pool = [0.0, 0.25, 0.5, 0.75, 1.0, math.nan]
            base["degree"] = rng.choice(pool + [[rng.choice(pool) for _ in range(3)]])
        else:
            base["weight"] = rng.choice([None, 0.5])
            base["degree"] = rng.choice(degrees(rng, 4))
        seen = set()
        for perm in itertools.permutations(range(k)):
            pc = [cs[i] for i in perm]
            sig = json.dumps(pc, sort_keys=True)
            if sig in seen:
                continue
            seen.add(sig)
            yield dict(base, conclusions=pc), "perm"


def kind_cases(ctx):
    """`exactly one activated term ... carrying the concluded term, the block's implication operator and the rule's
    activation degree`: whatever KIND of term is concluded (the rule grammar names a term of the variable - a Constant,
    Linear or Function term of a Takagi-Sugeno output as well as a Discrete term or any shape) and whatever operator
    the block has (every registered T-norm; none).  Every registered term class is concluded at least twice (first
    conclusion, alone or followed by others), then random mixes; hedges only on the last conclusion, so that the known
    hedge leak F3 does not interfere; scalar and batch degrees, both paths (Rule.trigger / RuleBlock.activate)."""
    rng = ctx.rng
    HL = hedge_lists()
    classes = sorted(GE.term_classes())
    tnorms = GE.keys(fl.settings.factory_manager.tnorm)
    for i in range(2 * len(classes) + ctx.scale(120, 1500)):
        k = rng.choice([1, 1, 2, 3])
        cs = [{"var": rng.choice(OUTS), "hedges": [], "term": rng.choice(TERMS)} for _ in range(k)]
        cs[-1]["hedges"] = rng.choice(HL if rng.random() < 0.5 else [[]])
        forced = classes[i % len(classes)] if i < 2 * len(classes) else None
        terms = {}
        for c in cs:
            if c["var"] not in terms:
                terms[c["var"]] = [GE.gen_term(rng, rng.choice(classes), t, 3, "grid", ["a"], True) for t in TERMS]
        if forced:
            terms[cs[0]["var"]][TERMS.index(cs[0]["term"])] = GE.gen_term(rng, forced, cs[0]["term"], 3, "grid", ["a"], True)
        case = {"mode": rng.choice(["trigger", "trigger", "activate"]), "rule_enabled": rng.random() < 0.95,
                "outputs_enabled": {o: rng.random() < 0.9 for o in OUTS}, "conclusions": cs, "terms": terms,
                "impl": None if rng.random() < 0.08 else rng.choice(tnorms)}
        if case["mode"] == "activate":
            case["weight"] = rng.choice([None, None, 0.5, 1.0, 0.25])
            pool = [0.0, 0.25, 0.5, 0.75, 1.0, math.nan]
            case["degree"] = rng.choice(pool + [[rng.choice(pool) for _ in range(3)]])
        else:
            case["weight"] = rng.choice([None, 0.5])
            case["degree"] = rng.choice(degrees(rng, 4))
            case["input"] = rng.choice([0.0, 0.25, 0.5, 1.0, 0.3])
        yield case, "kinds"


def load_cases(ctx):
    """texts for Consequent.load: well-formed ones from the generator, plus malformed variants"""
    rng = ctx.rng
    HL = hedge_lists()
    for _ in range(ctx.scale(2000, 20000)):
        k = rng.choice([1, 2, 3])
        toks = []
        for i in range(k):
            if i:
                toks.append("and")
            toks += [rng.choice(OUTS + ["o4"] if rng.random() < 0.1 else OUTS), "is"] + rng.choice(HL) + [rng.choice(TERMS)]
        r = rng.random()
        if r < 0.35 and toks:
            j = rng.randrange(len(toks))
            op = rng.choice(["del", "dup", "sub", "trunc"])
            if op == "del":
                toks = toks[:j] + toks[j + 1:]
            elif op == "dup":
                toks = toks[:j] + [toks[j]] + toks[j:]
            elif op == "sub":
                toks = toks[:j] + [rng.choice(["and", "is", "very", "t1", "o1", "with", "zz"])] + toks[j + 1:]
            else:
                toks = toks[:j]
        yield toks


def observe_load(toks):
    e = engine_for({})
    e.output_variables.append(fl.OutputVariable("o4", terms=[]))      # a variable without terms is not found
    c = fl.rule.Consequent(" ".join(toks))
    try:
        c.load(e)
        return ["ok"] + [[p.variable.name, [h.name for h in p.hedges], p.term.name if p.term else "?"] for p in c.conclusions]
    except SyntaxError:
        return ["error", "syntax"]
    except Exception as ex:  # noqa: BLE001
        return ["error", type(ex).__name__]


def corpus_cases():
    d = os.path.join(C.VERIF, "corpus", PID)
    for p in sorted(glob.glob(os.path.join(d, "*.json"))):
        yield json.load(open(p))["case"]


def model_lines(case, cmd="trigger"):
    en = case.get("outputs_enabled", {})
    cs = [[c["var"], int(en.get(c["var"], True)), list(c["hedges"]), c["term"]] for c in case["conclusions"]]
    return [C.sx([cmd, int(case.get("rule_enabled", True)), d, impl_name(case), cs]) for d in rule_degrees(case)]


def read_model(outs, s0, n):
    """n driver answers (one per batch element) -> (triggered flags, {output: [(term, [degrees], impl)]}) or an error text"""
    model = {o: [] for o in OUTS}
    mtrig = []
    for j in range(n):
        p = C.parse_sx(outs[s0 + j])
        if not isinstance(p, list) or len(p) != 2:
            return None, None, f"driver rejected the case: {outs[s0 + j]}"
        mtrig.append(p[0] == "1")
        per = {o: [] for o in OUTS}
        for var, term, deg, impl in p[1]:
            per[var].append((term, C.parse_x(deg), impl))
        for o in OUTS:
            if j == 0:
                model[o] = [(t, [d], i) for t, d, i in per[o]]
            else:
                for slot, (t, d, i) in zip(model[o], per[o]):
                    slot[1].append(d)
    return mtrig, model, None


def diff_model(ob, mtrig, model):
    if "raised" in ob:
        return f"implementation raised {ob['raised']}"
    if bcast(ob["triggered"], len(mtrig)) != mtrig:
        return f"Rule.triggered: implementation {ob['triggered']}, model {mtrig}"
    for o in OUTS:
        a, b = ob["outputs"][o], model[o]
        if [(t, i) for t, _, i in a] != [(t, i) for t, _, i in b] or any(
                len(da) != len(db) or not all(C.close(x, y) for x, y in zip(da, db))
                for (_, da, _), (_, db, _) in zip(a, b)):
            return (f"fuzzy output of {o}: implementation {a}, model "
                    f"{[(t, [str(d) for d in ds], i) for t, ds, i in b]}")
    return None


def correspond(ctx):
    st = ctx.stats
    mism, leaks = [], []
    cases = [(c, "corpus") for c in corpus_cases()] + list(gen_cases(ctx))
    # the random draws of the streams in their original order (trigger, load, histories), then the family `kinds`
    ltoks = list(load_cases(ctx))
    hist = list(history_cases(ctx))
    cases += list(kind_cases(ctx))
    lines, spans = [], []
    for case, _ in cases:
        ls = model_lines(case)
        spans.append((len(lines), len(ls)))
        lines += ls
    n_pinned = len(lines)
    for case, _ in cases:
        lines += model_lines(case, "trigger-repaired")
    outs_decl = [[o, TERMS] for o in OUTS] + [["o4", []]]
    lines += [C.sx(["consequent-load", outs_decl, hedge_names(), t]) for t in ltoks]
    outs = ctx.driver.eval(lines)
    for (case, kind), (s0, n) in zip(cases, spans):
        st.count(kind)
        st.count("mode-" + case["mode"])
        ob = observe(case)
        mtrig, model, bad = read_model(outs, s0, n)
        if bad is None:
            nt = any(d not in (0, 1) for o in OUTS for _, ds, _ in model[o] for d in ds)
            st.case(key_static(case), nt, sample={"rule": text_of(case), "degree": rule_degrees(case), "impl": ob.get("outputs"),
                                                 "model": {o: [(t, [str(d) for d in ds]) for t, ds, _ in model[o]] for o in OUTS}}
                    if kind in ("perm", "kinds") else None)
            st.validated += 1
            bad = diff_model(ob, mtrig, model)
            if bad:
                # the loop as written no longer matches: does the implementation follow the repaired loop (F3 fixed upstream)?
                rtrig, rmodel, rbad = read_model(outs, n_pinned + s0, n)
                if rbad is None and diff_model(ob, rtrig, rmodel) is None:
                    st.count("matches-repaired-loop-not-the-pinned-one")
                    ctx.notes["F3"] = "the implementation follows the repaired loop (modify_spec) on inputs where the pinned loop leaks"
                    bad = None
        if bad:
            mism.append({"case": case, "impl": ob, "model": [outs[s0 + j] for j in range(n)], "what": bad})
        # the property itself, on the implementation
        ob2, cl = classify(case)
        st.count("oracle")
        st.count("oracle-" + cl)
        if cl != "ok":
            ok, detail = oracle(case)
            entry = {"case": case, "impl": ob2, "violation": True, "detail": detail, "what": detail}
            if cl == "hedge-leak":
                leaks.append(entry)
            else:
                mism.append(entry)
        if len(mism) > 30:
            break
    # histories on one rule object (implementation against the specification)
    for case in hist:
        st.count("history-" + case["how"])
        ok, detail = history_oracle(case)
        st.case(key(case), True)
        if not ok:
            mism.append({"case": case, "violation": True, "detail": detail, "what": detail})
            if len(mism) > 30:
                break
    # Consequent.load
    base = len(lines) - len(ltoks)
    for t, o in zip(ltoks, outs[base:]):
        st.count("load")
        got = observe_load(t)
        want = C.parse_sx(o)
        st.case(("load", tuple(t)), want[0] == "ok")
        st.validated += 1
        if want != got:
            mism.append({"case": {"mode": "load", "tokens": t}, "impl": got, "model": o,
                         "what": f"Consequent.load('{' '.join(t)}'): implementation {got}, model {want}"})
    # the F3 family: the simplest representatives only (they must not crowd out anything else)
    leaks.sort(key=lambda m: (len(m["case"]["conclusions"]), sum(len(c["hedges"]) for c in m["case"]["conclusions"]),
                              isinstance(m["case"]["degree"], list)))
    ctx.notes["F3_hedge_leak_cases"] = len(leaks)
    return mism + leaks[:2]


def key_static(case):
    return (text_of(case), case["mode"], case.get("rule_enabled", True), json.dumps(case.get("outputs_enabled", {}), sort_keys=True),
            json.dumps(case["degree"]))


def load_oracle(case):
    """Consequent.load against the grammar, decided in Python (replay of a `load` mismatch)"""
    toks = case["tokens"]
    got = observe_load(toks)
    hs, terms = set(hedge_names()), set(TERMS)
    state, cur, done, ok = "var", None, [], True
    for t in toks:
        if state == "var" and t in OUTS:
            cur = [t, [], "?"]
            done.append(cur)
            state = "is"
        elif state == "is" and t == "is":
            state = "ht"
        elif state == "ht" and t in hs:
            cur[1].append(t)
        elif state == "ht" and t in terms:
            cur[2] = t
            state = "and"
        elif state == "and" and t == "and":
            state = "var"
        else:
            ok = False
            break
    want = ["ok"] + done if ok and state == "and" and toks else ["error", "syntax"]
    return (got == want), f"Consequent.load('{' '.join(toks)}') gave {got}, the grammar gives {want}"


# ------------------------------------------------------------------------------------------ histories on one rule object
IMPLS = ["Minimum", "AlgebraicProduct", "BoundedDifference"]


def history_cases(ctx):
    """the same loaded rule triggered several times WITHOUT clearing the fuzzy outputs in between (Rule.trigger twice, a
    rule block activated twice, one rule object listed in two blocks with different implications): every trigger adds its
    own contributions and leaves the earlier ones as they were.  Hedges only on the last conclusion (so that the known
    hedge leak F3 does not interfere)."""
    rng = ctx.rng
    HL = hedge_lists()
    pool = [0.25, 0.5, 0.75, 1.0, 0.0, 0.125]
    for _ in range(ctx.scale(250, 2500)):
        k = rng.choice([1, 1, 2, 3])
        cs = [{"var": rng.choice(OUTS), "hedges": [], "term": rng.choice(TERMS)} for _ in range(k)]
        cs[-1]["hedges"] = rng.choice(HL)
        steps = [{"degree": rng.choice(pool), "impl": rng.choice(IMPLS)} for _ in range(rng.choice([2, 2, 3]))]
        if rng.random() < 0.5:
            # the enabled flags of the output variables are flipped between two triggers of the same loaded rule
            for st in steps:
                st["outputs_enabled"] = {o: rng.random() < 0.6 for o in OUTS}
        yield {"mode": "history", "how": rng.choice(["trigger", "activate", "two-blocks"]), "conclusions": cs, "steps": steps}


def history_observe(case):
    e = engine_for(case)
    rule = fl.Rule.create(text_of(case), e)
    with np.errstate(all="ignore"):
        try:
            def flags(st):
                for o in e.output_variables:
                    o.enabled = st.get("outputs_enabled", {}).get(o.name, True)
            if case["how"] == "trigger":
                for st in case["steps"]:
                    flags(st)
                    rule.activation_degree = float(st["degree"])
                    rule.trigger(getattr(fl, st["impl"])())
            elif case["how"] == "activate":
                rb = fl.RuleBlock("rb", activation=fl.General(), rules=[rule])
                e.rule_blocks.append(rb)
                for st in case["steps"]:
                    flags(st)
                    rb.implication = getattr(fl, st["impl"])()
                    e.input_variables[0].value = float(st["degree"])
                    rb.activate()
            else:
                for i, st in enumerate(case["steps"]):
                    e.rule_blocks.append(fl.RuleBlock(f"rb{i}", implication=getattr(fl, st["impl"])(), activation=fl.General(),
                                                      rules=[rule]))
                # the blocks are activated in order with the input changed in between (Engine.process without the clearing)
                for rb, st in zip(e.rule_blocks, case["steps"]):
                    flags(st)
                    e.input_variables[0].value = float(st["degree"])
                    rb.activate()
            return {o.name: [(t.term.name, [float(v) for v in np.atleast_1d(t.degree)], type(t.implication).__name__)
                             for t in o.fuzzy.terms] for o in e.output_variables}
        except Exception as ex:  # noqa: BLE001
            return {"raised": f"{type(ex).__name__}: {ex}"[:200]}


def history_oracle(case):
    ob = history_observe(case)
    if "raised" in ob:
        return False, f"triggering '{text_of(case)}' repeatedly raised {ob['raised']}"
    want = {o: [] for o in OUTS}
    for st in case["steps"]:
        one = expected({"mode": "trigger", "conclusions": case["conclusions"], "degree": st["degree"],
                        "outputs_enabled": st.get("outputs_enabled", {})})
        for o in OUTS:
            want[o] += [(t, ds, st["impl"]) for t, ds, _ in one[o]]
    if not same(ob, want):
        return False, (f"rule '{text_of(case)}' triggered {len(case['steps'])} times ({case['how']}; degrees and implications "
                       f"{[(s['degree'], s['impl']) for s in case['steps']]}) without clearing: fuzzy outputs {ob}, each trigger "
                       f"must add its own contributions and leave the earlier ones unchanged: {want}")
    return True, "ok"


_trigger_oracle = oracle


def oracle(case):  # noqa: F811
    if case.get("mode") == "load":
        return load_oracle(case)
    if case.get("mode") == "history":
        return history_oracle(case)
    return _trigger_oracle(case)


_trigger_key = key


def key(case):  # noqa: F811
    if case.get("mode") == "load":
        return "load:" + " ".join(case["tokens"])
    if case.get("mode") == "history":
        return f"history:{case['how']}:{text_of(case)}:{json.dumps(case['steps'])}"
    return _trigger_key(case)


def search(ctx):
    for case, _ in itertools.chain(((c, "corpus") for c in corpus_cases()), gen_cases(ctx)):
        ok, d = oracle(case)
        if not ok and key(case) != "F3:hedge-leak":
            return [(case, d)]
    for case in history_cases(ctx):
        ok, d = oracle(case)
        if not ok:
            return [(case, d)]
    for case, _ in kind_cases(ctx):
        ok, d = oracle(case)
        if not ok and key(case) != "F3:hedge-leak":
            return [(case, d)]
    return []
