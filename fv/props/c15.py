"""C15 — Python export reconstructs an identical engine (DESIGN.md section 8, C15)."""
from __future__ import annotations

import copy
import enum
import glob
import inspect
import json
import math
import os
from fractions import Fraction

import numpy as np

import common as C
import fuzzylite as fl
import gen_engines as G
from fuzzylite.library import representation

PID = "C15"
MODULES = ["FlVerif.Props.C15"]
NAMESPACE = "C15"
TIE_A = ["Tables.export", "code:fuzzylite.library.Representation.construction_arguments",
         "code:fuzzylite.library.Representation.package_of", "code:fuzzylite.library.Representation.import_statement",
         "code:fuzzylite.library.Representation.as_constructor", "code:fuzzylite.library.Representation.repr",
         "code:fuzzylite.library.Representation.repr1", "code:fuzzylite.library.Representation.repr_float",
         "code:fuzzylite.library.Representation.repr_ndarray", "code:fuzzylite.rule.Rule.__repr__",
         "code:fuzzylite.rule.RuleBlock.__repr__", "code:fuzzylite.variable.Variable.__repr__",
         "code:fuzzylite.variable.OutputVariable.__repr__", "code:fuzzylite.exporter.PythonExporter.encapsulate",
         "code:fuzzylite.exporter.PythonExporter.to_string", "code:fuzzylite.exporter.PythonExporter.engine"]
RULE = ("the generated engines of C14 with arbitrary finite double term / range / threshold / default parameters, inf / NaN "
        "values, quotes and backslashes in descriptions, rule weights on the decimals grid or arbitrary x alias in {'fl', '', '*', "
        "custom} x {plain repr, encapsulated (PythonExporter)} x {formatted by black, not} x input rows; every component "
        "(variables, terms, rule blocks, rules, norms, hedges, defuzzifiers, activation methods) on its own.  non-trivial: "
        "the representation drops a field, uses keywords after a dropped positional parameter, or carries nan / inf; "
        "distinct = distinct (object, alias, mode)")
RULE += (" Layout family (drawn after the engines above): sizes at and beyond every default abbreviation limit of reprlib (5..40 "
         "substitution variables, also array-valued; 5..200 pairs; 6..11 coefficients with as many input variables; up to 20 terms, 30 "
         "rules, 9 blocks; texts of 30..400 characters; integers of 40..48 digits), Discrete pairs descending / shuffled / repeated, "
         "terms built by constructor (list, array), configure, attribute assignment, Discrete.create and the FLL importer.")
ASSUMPTIONS = ["executing Python source, repr(float) / repr(str) round-tripping and black are the interpreter's (sampled, not modelled)",
               "rules stay enabled (Rule.__repr__ is Rule.create('text')); rule weights are compared after one print cycle",
               "outputs are compared bit-for-bit only when heights are 1 or outside the tolerance and weights are representable at "
               "the configured decimals (the property's own restriction)"]
LEVEL_TEXT = ("Lean theorems over constructor-call trees driven by the regenerated constructor table (parameters, stored "
              "defaults) and the probed __repr__ table (positional flag, dropped fields and their conditions, modules): eval_repr "
              "(binding the emitted arguments by the signature rebuilds the object when every dropped field equals the "
              "constructor default - discharged on the tables by decide), prefix_everywhere, positional_then_keyword_valid, "
              "repr_fixed_point. Correspondence: the model's call tree rendered = repr() of the real object for every "
              "component and alias; the object the model's evalCall builds = the object the interpreter builds; the "
              "property oracle executes the exported source (plain / encapsulated / formatted) with the library's import "
              "statement and compares repr, FLL and bit-identical outputs.")
LEVEL_NOTE = ("Carried by the correspondence only: executing the exported source, repr(float)/repr(str), black, bit-identical "
              "outputs; reprlib's elision limits (lists nested more than 10 deep, 6e6 elements, 3e7 characters). Tied by proof (code -> model): "
              "package_of, import_statement, as_constructor, the type dispatch of repr, repr_float, repr_ndarray, the __repr__ of Rule / "
              "RuleBlock / Variable / OutputVariable, PythonExporter.encapsulate / to_string / engine. Trusted: Lean kernel, standard axioms, tracer "
              "tables (introspection + probing of every __repr__), harness.")
TECHNIQUE = "Lean 4 proof over a constructor-call model tied to regenerated signature / __repr__ tables + execution of the exported source by the real interpreter"

CORPUS = os.path.join(C.VERIF, "corpus", "C15")
ALIASES = ["fl", "", "*", "fuzzy_lib"]

try:
    import black  # noqa: F401
    HAVE_BLACK = True
except ModuleNotFoundError:
    HAVE_BLACK = False


# --------------------------------------------------------------------------------------------- object -> model tree

def is_fl_object(x) -> bool:
    return type(x).__module__.startswith("fuzzylite") and not isinstance(x, enum.Enum)


def to_val(x, depth=0):
    """state of an object as the S-expression of `Op.PyRepr.Val` (independent of any __repr__)"""
    if x is None:
        return "none"
    if isinstance(x, bool):
        return ["bool", "1" if x else "0"]
    if isinstance(x, enum.Enum):
        return ["enum", C.hexs(repr(x).strip("'"))]
    if isinstance(x, (int, np.integer)):
        return ["int", str(int(x))]
    if isinstance(x, (float, np.floating)):
        return ["num", G.nstr(float(x))]
    if isinstance(x, str):
        return ["str", C.hexs(x)]
    if isinstance(x, (list, tuple)):
        return ["list"] + [to_val(y, depth + 1) for y in x]
    if isinstance(x, np.ndarray):
        if x.ndim == 0:
            return to_val(x.item(), depth + 1)
        return ["array"] + [to_val(y, depth + 1) for y in x]
    if isinstance(x, dict):
        try:
            ks = sorted(x)
        except TypeError:
            return ["opaque", "dict"]
        if not all(isinstance(k, str) for k in ks):
            return ["opaque", "dict"]
        return ["dict", [C.hexs(k) for k in ks]] + [to_val(x[k], depth + 1) for k in ks]
    if isinstance(x, fl.Rule):
        return ["rule", G.m_rule(x)]
    if isinstance(x, fl.Engine) and depth > 0:
        return ["opaque", "Engine"]
    if is_fl_object(x) and depth < 8:
        if isinstance(x, (fl.rule.Antecedent, fl.rule.Consequent, fl.term.Aggregated, fl.term.Activated)) or type(x).__name__ == "Node":
            return ["opaque", type(x).__name__]
        names, kids = [], []
        fields = dict(vars(x))
        if type(x).__init__ is not object.__init__:
            for p in inspect.signature(type(x).__init__).parameters:
                if p != "self" and p not in fields and hasattr(x, p) and not callable(getattr(x, p)):
                    fields[p] = getattr(x, p)      # state reachable through a property (OutputVariable.minimum …)
        for k, v in fields.items():
            names.append(k)
            kids.append(to_val(v, depth + 1))
        return ["obj", type(x).__name__, names] + kids
    return ["opaque", type(x).__name__]


def render(src) -> str:
    """text of a constructor-call tree; only the leaves (floats, strings) use CPython's repr"""
    if src == "invalid":
        return "<invalid>"
    tag = src[0]
    if tag == "lit":
        pfx, a = G.untext(src[1]), src[2]
        if a == "none":
            return "None"
        k = a[0]
        if k == "num":
            v = a[1]
            if v == "nan":
                return pfx + "nan"
            if v == "inf":
                return pfx + "inf"
            if v == "-inf":
                return "-" + pfx + "inf"
            if v == "-0":
                return repr(-0.0)
            return repr(float(Fraction(v)))
        if k == "int":
            return a[1]
        if k == "str":
            return repr(G.untext(a[1]))
        if k == "bool":
            return "True" if a[1] == "1" else "False"
        if k == "enum":
            return "'" + G.untext(a[1]) + "'"
        return f"<{k}>"
    if tag == "rulecreate":
        return f"{G.untext(src[1])}Rule.create('{G.untext(src[2])}')"
    if tag == "list":
        return "[" + ", ".join(render(s) for s in src[1:]) + "]"
    if tag == "array":
        return G.untext(src[1]) + "array([" + ", ".join(render(s) for s in src[2:]) + "])"
    if tag == "dict":
        keys = [G.untext(k) for k in src[1]]
        return "{" + ", ".join(f"{k!r}: {render(s)}" for k, s in zip(keys, src[2:])) + "}"
    if tag == "call":
        pfx, cls, kws = G.untext(src[1]), src[2], src[3]
        args = [(render(s) if kw == "_" else f"{kw}={render(s)}") for kw, s in zip(kws, src[4:])]
        return f"{pfx}{cls}({', '.join(args)})"
    return f"<{tag}>"


def shape_of(src):
    """(dropped / positional / keyword) summary used for the coverage statistics"""
    pos = kw = 0
    special = False

    def walk(s):
        nonlocal pos, kw, special
        if not isinstance(s, list):
            return
        if s[0] == "call":
            for k in s[3]:
                if k == "_":
                    pos += 1
                else:
                    kw += 1
            for c in s[4:]:
                walk(c)
        elif s[0] == "lit":
            if isinstance(s[2], list) and s[2][0] == "num" and s[2][1] in ("nan", "inf", "-inf"):
                special = True
        elif s[0] in ("list",):
            for c in s[1:]:
                walk(c)
        elif s[0] in ("array", "dict"):
            for c in s[2:]:
                walk(c)
    walk(src)
    return pos, kw, special


def same_val(real, model, path="obj"):
    """real: to_val of the object the interpreter built; model: parsed S-expression of the model's evalCall"""
    if model == "none" or real == "none":
        return None if model == real else f"{path}: {real} vs {model}"
    if not isinstance(model, list) or not isinstance(real, list):
        return f"{path}: {real!r} vs {model!r}"
    if model[0] == "opaque":
        return None
    if model[0] != real[0]:
        return f"{path}: kind {real[0]} vs {model[0]}"
    t = model[0]
    if t == "num":
        rf = {"nan": math.nan, "inf": math.inf, "-inf": -math.inf, "-0": -0.0}.get(real[1])
        rf = float(Fraction(real[1])) if rf is None else rf
        return None if G.same_num(rf, G.parse_n(model[1])) else f"{path}: number {real[1]} vs {model[1]}"
    if t in ("int", "str", "bool", "enum"):
        return None if real[1] == model[1] else f"{path}: {real} vs {model}"
    if t == "rule":
        return G.same_model(C.parse_sx(C.sx(real[1])), model[1], path + "/rule")
    if t in ("list", "array"):
        if len(real) != len(model):
            return f"{path}: length {len(real) - 1} vs {len(model) - 1}"
        for i, (a, b) in enumerate(zip(real[1:], model[1:])):
            r = same_val(a, b, f"{path}[{i}]")
            if r:
                return r
        return None
    if t == "dict":
        if real[1] != model[1]:
            return f"{path}: keys differ"
        for k, a, b in zip(model[1], real[2:], model[2:]):
            r = same_val(a, b, f"{path}[{G.untext(k)}]")
            if r:
                return r
        return None
    if t == "obj":
        if real[1] != model[1]:
            return f"{path}: class {real[1]} vs {model[1]}"
        rf = dict(zip(real[2], real[3:]))
        for nm, mv in zip(model[2], model[3:]):
            if nm == "engine":
                continue      # set by Engine(load=True), not by the term's own constructor call
            if nm not in rf:
                return f"{path}.{nm}: the interpreter's object has no such state"
            r = same_val(rf[nm], mv, f"{path}.{nm}")
            if r:
                return r
        return None
    return f"{path}: unknown kind {t}"


# --------------------------------------------------------------------------------------------- executing the export

def namespace():
    ns = {}
    exec(representation.import_statement(), ns)  # noqa: S102
    return ns


def components(e):
    """every component of an engine that has a representation of its own"""
    out = []
    for v in e.input_variables + e.output_variables:
        out.append(v)
        out += list(v.terms)
        if getattr(v, "defuzzifier", None) is not None:
            out.append(v.defuzzifier)
        if getattr(v, "aggregation", None) is not None:
            out.append(v.aggregation)
    for b in e.rule_blocks:
        out.append(b)
        out += [x for x in (b.conjunction, b.disjunction, b.implication, b.activation) if x is not None]
        out += list(b.rules)
    return out


def fll_of(x):
    if isinstance(x, fl.hedge.Hedge):
        return x.name
    return str(x)


def outputs_comparable(spec, d):
    """heights 1 or outside the tolerance, weights 1 or outside the tolerance and on the decimals grid"""
    for h, cls in G.heights_and_weights(spec):
        if h != 1.0 and bool(fl.Op.is_close(h, 1.0)):
            return False
        if cls == "Rule" and h != 1.0 and (float(f"{h:.{d}f}") != h or bool(fl.Op.is_close(float(f"{h:.{d}f}"), 1.0))):
            return False
        if h != 1.0 and bool(fl.Op.is_close(float(f"{h:.{d}f}"), 1.0)):
            return False
    return True


def key(case):
    return f"{case.get('kind', 'engine')}:alias={case.get('alias')!r}:{case.get('mode', 'plain')}" + (
        f":switched-from={case['switch_from']!r}" if case.get("switch_from") is not None else "")


def oracle(case):
    try:
        return oracle_(case)
    except Exception as ex:  # noqa: BLE001
        return False, f"unexpected {type(ex).__name__}: {ex}"


def oracle_(case):
    d = int(case.get("decimals", 3))
    alias = case["alias"]
    mode = case.get("mode", "plain")          # plain | encapsulated
    formatted = bool(case.get("formatted"))
    if formatted and not HAVE_BLACK:
        return True, "black is not installed: skipped"
    with fl.settings.context(decimals=d, alias=alias), np.errstate(all="ignore"):
        e = G.build(case["spec"])
        if case.get("origin") == "fll":
            # an engine that was imported from the FuzzyLite Language (its Function / Linear terms are loaded and hold
            # the engine reference the importer gave them)
            e = fl.FllImporter().from_string(fl.FllExporter().to_string(e))
        if case.get("touch"):
            # a history: the engine has been exported once, then rule weights are changed by attribute, then it is
            # exported again - the second export must describe the engine as it is now
            repr(e), str(e)
            for bi, b in enumerate(e.rule_blocks):
                for ri, r in enumerate(b.rules):
                    r.weight = [0.5, 0.25, 0.75][(bi + ri) % 3] if abs(float(r.weight) - 0.5) > 1e-9 else 0.25
        if case.get("switch_from") is not None:
            # a history: something was represented under another alias, then the alias was changed by plain assignment
            # (not through a context); the code exported now must use the alias in force now, everywhere
            fl.settings.alias = case["switch_from"]
            repr(e), [repr(c) for c in components(e)]
            fl.PythonExporter(encapsulated=False).to_string(e)
            fl.settings.alias = alias
        targets = [e] if case.get("kind", "engine") == "engine" else components(e)
        if case.get("kind") == "component" and "index" in case:
            targets = [targets[case["index"]]]
        for x in targets:
            r0 = repr(x)
            what = f"{type(x).__name__} (alias {alias!r}, {mode}{', formatted' if formatted else ''})"
            try:
                if mode == "plain":
                    code = fl.PythonExporter(formatted=formatted, encapsulated=False).to_string(x) if formatted else r0
                    y = eval(code, namespace())  # noqa: S307
                else:
                    code = fl.PythonExporter(formatted=formatted, encapsulated=True).to_string(x)
                    ns = {}
                    exec(code, ns)  # noqa: S102
                    if isinstance(x, fl.Engine):
                        klass = [v for k, v in ns.items() if inspect.isclass(v) and not getattr(v, "__module__", "").startswith(("fuzzylite", "numpy"))]
                        if len(klass) != 1:
                            return False, f"{what}: expected one class in the exported module, found {len(klass)}"
                        y = klass[0]().engine
                    else:
                        y = ns["create"]()
            except Exception as ex:  # noqa: BLE001
                return False, f"{what}: the exported source does not execute: {type(ex).__name__}: {str(ex)[:200]}"
            if type(y) is not type(x):
                return False, f"{what}: evaluates to a {type(y).__name__}"
            if repr(y) != r0:
                return False, f"{what}: repr of the rebuilt object differs: " + first_diff(r0, repr(y))
            if fll_of(y) != fll_of(x):
                return False, f"{what}: FLL of the rebuilt object differs: " + first_diff(fll_of(x), fll_of(y))
            if isinstance(x, fl.Engine) and case.get("touch"):
                w1 = [float(r.weight) for b in x.rule_blocks for r in b.rules]
                w2 = [float(r.weight) for b in y.rule_blocks for r in b.rules]
                if len(w1) != len(w2) or any(abs(a - b) > 0.5 * 10 ** (-d) + 1e-12 for a, b in zip(w1, w2)):
                    return False, f"{what}: rule weights of the rebuilt engine {w2} differ from the original's {w1}"
            if isinstance(x, fl.Engine) and case.get("rows") and (outputs_comparable(case["spec"], d) or case.get("touch")):
                o1, o2 = G.run_rows(x, case["rows"]), G.run_rows(y, case["rows"])
                # a degenerate parameter (a width or slope of 0) divides by zero: a NumPy float (the parameters of an
                # engine imported from FLL) yields inf / nan silently where a Python float raises ZeroDivisionError;
                # such parameterisations are outside 'valid parameters' and are not judged
                if any("ZeroDivisionError" in str(o) for o in o1 + o2):
                    o1 = o2 = []
                if o1 != o2:
                    i = next(i for i, (a, b) in enumerate(zip(o1, o2)) if a != b)
                    return False, f"{what}: outputs are not bit-identical on row {i}: {o1[i]} vs {o2[i]}"
    return True, "ok"


def first_diff(a: str, b: str) -> str:
    n = next((i for i, (x, y) in enumerate(zip(a, b)) if x != y), min(len(a), len(b)))
    return f"at {n}: ...{a[max(0, n - 30):n + 40]!r} vs ...{b[max(0, n - 30):n + 40]!r}"


# --------------------------------------------------------------------------------------------- correspondence

def engine_cases(ctx):
    rng = ctx.rng
    n = ctx.scale(150, 1500)
    classes = list(G.term_classes())
    for i in range(n):
        d = 1 + (i % 9)
        exact = i % 2 == 0
        force = [classes[(2 * i) % len(classes)], classes[(2 * i + 1) % len(classes)]]
        spec = G.gen_engine_spec(rng, d, mode="float", representable=False, force_terms=force,
                                 size="small" if i % 5 else "large")
        if exact:      # make the outputs comparable: heights 1 or far from 1, weights on the grid
            for v in spec["inputs"] + spec["outputs"]:
                for t in v["terms"]:
                    if "height" in t:
                        t["height"] = G.fhex(G.height_pool(rng, d, True))
            for b in spec["blocks"]:
                for r in b["rules"]:
                    r["weight"] = G.fhex(G.height_pool(rng, d, True))
        rows = G.input_rows(rng, spec, ctx.scale(4, 8))
        case = {"kind": "engine", "decimals": d, "spec": spec, "rows": rows, "alias": ALIASES[i % 4],
                "mode": "plain" if i % 3 else "encapsulated", "formatted": bool(i % 2) and HAVE_BLACK}
        if i % 4 == 2:      # an even index: outputs are comparable
            case["origin"] = "fll"
        if i % 6 == 2 and exact:
            case["touch"] = True
        yield case


def layout_cases(ctx):
    """the quantifier says "all generated engines": no bound on sizes, no order on the pairs of a Discrete term, no
    particular way in which the engine was put together.  Engines as above, then
    * `G.enlarge`: dict / array / list / string / integer sizes at and beyond the defaults at which `reprlib` abbreviates
      (4, 5, 6, 30, 40), up to 40 substitution variables, 200 pairs, 30 rules, 400 characters;
    * `G.discrete_layouts`: pairs descending / shuffled / with a repeated abscissa, each Discrete term built through one of
      the construction paths (flat list, array, configure, attribute, the three forms of Discrete.create), other terms
      through configure; `origin: fll` adds the path through the FuzzyLite Language importer.
    The same oracle as every engine case (executes the exported source; repr, FLL and outputs of the rebuilt engine)."""
    rng = ctx.rng
    n = ctx.scale(24, 300)
    for i in range(n):
        d = 1 + (i % 9)
        spec = G.gen_engine_spec(rng, d, mode="float", representable=False, size="small",
                                 force_terms=["Discrete"] if i % 2 else ["Function", "Discrete"])
        for v in spec["inputs"] + spec["outputs"]:      # outputs comparable: heights 1 or far from 1, weights on the grid
            for t in v["terms"]:
                if "height" in t:
                    t["height"] = G.fhex(G.height_pool(rng, d, True))
        for b in spec["blocks"]:
            for r in b["rules"]:
                r["weight"] = G.fhex(G.height_pool(rng, d, True))
        layout = []
        if i % 3 != 2:
            layout += G.enlarge(rng, spec, d, "float")
        if i % 3 != 1:
            G.discrete_layouts(rng, spec, d, "float")
            layout.append("pairs-and-paths")
        rows = G.input_rows(rng, spec, ctx.scale(3, 6))
        case = {"kind": "engine", "decimals": d, "spec": spec, "rows": rows, "alias": ALIASES[i % 4],
                "mode": "plain" if i % 3 else "encapsulated", "formatted": i % 4 == 1 and HAVE_BLACK, "layout": layout}
        if i % 4 >= 2:
            case["origin"] = "fll"
        yield case


def switched(case, i):
    """the same case after the alias was switched by assignment from another one"""
    others = [a for a in ALIASES if a != case["alias"]]
    c = dict(case)
    c["switch_from"] = others[i % len(others)]
    return c


def variants(case):
    """the other alias / mode / formatting combinations of the same engine"""
    for alias in ALIASES:
        for mode in ("plain", "encapsulated"):
            for formatted in ((False, True) if HAVE_BLACK else (False,)):
                c = dict(case)
                c.update(alias=alias, mode=mode, formatted=formatted)
                yield c


def correspond(ctx):
    st = ctx.stats
    mism = []
    lines, jobs = [], []
    ctx.notes["black"] = "available" if HAVE_BLACK else "not installed: formatted variants skipped"

    def ask(line, job):
        lines.append(C.sx(line))
        jobs.append(job)

    def violation(case, detail):
        mism.append({"case": case, "violation": True, "detail": detail, "what": detail})

    for path in sorted(glob.glob(os.path.join(CORPUS, "*.json"))):
        case = json.load(open(path)).get("case")
        if case:
            ok, detail = oracle(case)
            st.count("corpus")
            if not ok:
                violation(case, f"corpus case {os.path.basename(path)}: {detail}")
    tol = G.nstr(float(fl.settings.atol) + float(fl.settings.rtol))
    n_full = 0

    def engine_case(ci, case):
        nonlocal n_full
        d, spec = case["decimals"], case["spec"]
        # property oracle: this variant for the engine, every variant for a sub-stream, components in one variant
        todo = [case]
        if ci % 6 == 0:
            todo = list(variants(case))
            n_full += 1
        comp = dict(case, kind="component", mode="plain" if ci % 2 else "encapsulated")
        todo.append(comp)
        if ci % 3 == 0:
            todo.append(switched(case, ci))
            todo.append(switched(comp, ci + 1))
        if case.get("layout") and case.get("origin"):
            # what the FuzzyLite Language does not carry (substitution variables, the way a term was built) exists only in
            # the engine as built: that one is exported too
            todo.append({k: v for k, v in case.items() if k != "origin"})
        failed = False
        for c in todo:
            ok, detail = oracle(c)
            st.count(f"oracle-{c.get('kind', 'engine')}-{c['mode']}{'-black' if c.get('formatted') else ''}-alias={c['alias']!r}")
            if not ok:
                small = shrink(c)
                violation(small, oracle(small)[1] if small is not c else detail)
                failed = True
                break
        if failed:
            return
        # model comparison: repr of the engine and of every component under this alias; evaluation result
        fragile = G.spec_is_fragile(spec, d)
        if fragile:
            st.skipped_fragile += 1
            return
        with fl.settings.context(decimals=d, alias=case["alias"]), np.errstate(all="ignore"):
            e = G.build(spec)
            objs = [e] + components(e) + [fl.Very(), fl.Not()]
            for oi, x in enumerate(objs):
                r0 = repr(x)
                sub = dict(case, kind="component", index=oi - 1) if 0 < oi <= len(objs) - 3 else dict(case)
                try:
                    y = eval(r0, namespace())  # noqa: S307
                except Exception as ex:  # noqa: BLE001
                    # the representation of the engine as built (not re-imported) does not evaluate: the oracle decides
                    sub.pop("origin", None)
                    mism.append({"case": sub, "impl": r0[:300], "model": None,
                                 "what": f"repr of a {type(x).__name__} does not evaluate: {type(ex).__name__}: {str(ex)[:120]}"})
                    break
                if isinstance(x, fl.Rule):
                    val = to_val([x])      # a rule is a leaf of the model: wrap it
                    real_repr = "[" + r0 + "]"
                    y = [y]
                else:
                    val = to_val(x)
                    real_repr = r0
                ask(["py-repr", C.hexs(case["alias"]), d, tol, val], ("repr", sub, real_repr, type(x).__name__))
                ask(["py-eval", C.hexs(case["alias"]), d, tol, val], ("eval", sub, C.parse_sx(C.sx(to_val(y))), type(x).__name__))

    for ci, case in enumerate(engine_cases(ctx)):
        engine_case(ci, case)
    # "every engine": sizes at and beyond the points where a generic representation abbreviates, Discrete terms with pairs
    # in any order, terms built through every construction path (drawn after the engines above)
    for ci, case in enumerate(layout_cases(ctx)):
        st.count("engine-layout:" + ",".join(case.get("layout", [])))
        engine_case(0 if ci % 8 == 0 else 6 * ci + 1, case)      # every 8th: all alias / mode / formatting variants
    # descriptions that consist of white space only (a blank, a tab, blanks and a line break): a description is a string like
    # any other - the rebuilt component must hold it (derived from the engines above, no new random draw; oracle only)
    import copy as _copy
    blanks = [" ", "\t", "  ", " \n", "\u00a0"]
    for ci, case in enumerate(engine_cases(ctx)):
        if ci % 10 or case.get("origin") == "fll":
            continue
        c2 = _copy.deepcopy(case)
        holders = [c2["spec"]] + c2["spec"]["inputs"] + c2["spec"]["outputs"] + c2["spec"]["blocks"]
        for j, h in enumerate(holders):
            h["description"] = blanks[(ci // 10 + j) % len(blanks)]
        c2["family"] = "blank descriptions"
        st.count("blank-descriptions")
        ok, detail = oracle(c2)
        if not ok:
            small = shrink_engine(c2, lambda c: not oracle(c)[0]) if "shrink_engine" in globals() else c2
            violation(small, oracle(small)[1])
            break
    ctx.notes["engines_with_all_variants"] = n_full
    probes(ctx)
    outs = ctx.driver.eval(lines)
    for (what, case, real, cname), o in zip(jobs, outs):
        st.validated += 1
        if o in ("bad-op", "bad-parse"):
            mism.append({"case": case, "model": o, "what": f"driver could not evaluate the {what} query for a {cname}"})
            continue
        p = C.parse_sx(o)
        if what == "repr":
            text = render(p)
            pos, kw, special = shape_of(p)
            st.case((cname, case["alias"], real), kw > 0 or special, sample={"class": cname, "alias": case["alias"], "repr": real[:120]}
                    if cname in ("OutputVariable", "Threshold") else None)
            st.count("repr-" + cname)
            if text != real:
                mism.append({"case": case, "impl": real[:600], "model": text[:600],
                             "what": f"repr of a {cname}: implementation differs from the model: " + first_diff(real, text)})
        else:
            if p == "none" or p[0] != "ok":
                mism.append({"case": case, "impl": "evaluates", "model": o[:200], "what": f"eval of repr({cname}): the model's call is invalid"})
            else:
                r = same_val(real, p[1])
                if r:
                    mism.append({"case": case, "impl": r, "model": o[:400],
                                 "what": f"eval of repr({cname}): the interpreter's object differs from the model's: {r}"})
        if len(mism) > 25:
            break
    return mism


def probes(ctx):
    """informational observations recorded for triage (DESIGN section 7 readings); never a verdict"""
    notes = {}
    with fl.settings.context(decimals=3, alias="fl"):
        r = fl.Rule.create("if a is b then c is d")
        r.enabled = False
        notes["rule_enabled_flag_is_not_carried"] = eval(repr(r), namespace()).enabled is True  # noqa: S307
        v = fl.InputVariable("a", minimum=0, maximum=1, terms=[fl.Triangle("t", 0, 1, 2)])
        notes["int_parameters_repr"] = repr(v)
        notes["int_parameters_repr_is_fixed_point"] = repr(eval(repr(v), namespace())) == repr(v)  # noqa: S307
        c = fl.Constant("c", 0.5)
        c.height = 0.5
        notes["constant_height_attribute_is_not_carried"] = eval(repr(c), namespace()).height == 1.0  # noqa: S307
        e = fl.Engine("None")
        try:
            exec(fl.PythonExporter(formatted=False, encapsulated=True).to_string(e), {})  # noqa: S102
            notes["engine_named_like_a_keyword"] = "executes"
        except Exception as ex:  # noqa: BLE001
            notes["engine_named_like_a_keyword"] = f"engine named 'None' -> class None: {type(ex).__name__}"
    ctx.notes["probes"] = notes


def shrink(case):
    """delete blocks / rules / terms / variables while the oracle keeps failing"""
    import props.c14 as c14
    if case.get("kind", "engine") not in ("engine", "component"):
        return case
    base = dict(case)
    base.pop("index", None)

    def fails(c):
        return not oracle(c)[0]

    try:
        small = c14.shrink_engine(base, fails)
        return small
    except Exception:  # noqa: BLE001
        return case


def search(ctx):
    import itertools
    for case in itertools.chain(engine_cases(ctx), layout_cases(ctx)):
        for c in variants(case):
            ok, d = oracle(c)
            if not ok:
                return [(shrink(c), d)]
    return []
