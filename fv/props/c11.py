"""C11 — Tsukamoto values invert the monotonic membership functions (DESIGN.md section 8, C11)."""
from __future__ import annotations

import glob
import json
import math
import os
from fractions import Fraction as Fr

import numpy as np

import common as C
import layouts as L
import fuzzylite as fl
from props import c03 as T

PID = "C11"
MODULES = ["FlVerif.Props.C11"]
NAMESPACE = "C11"
TIE_A = ["Term."]
RULE = ("the six monotonic classes (Arc, Concave, Ramp, Sigmoid, SShape, ZShape) x both directions x parameter pools "
        "(decimals k/100, dyadics k/16, random doubles) x heights {1, 0.5, 0.3, random} x y in {random in (0,h), 1e-300..1e-6 "
        "next to 0, h/2 and its two float neighbours, next to h, k*h/16, the end points 0 and h}; scalars plus 1-D / 2-D "
        "arrays; every other registered term class must raise RuntimeError; a case is non-trivial when 0 < y < h (the value "
        "is genuinely computed); distinct = distinct (class, parameters, height, y)")
ASSUMPTIONS = ["float evaluation compared with the exact value within 1e-9 abs + 1e-9 rel; Arc (sqrt of a cancellation) on squares "
               "of the distance from the centre; the Sigmoid value next to y = h (log of a cancellation, h/y - 1 < 1e-6) is "
               "checked by the round trip only",
               "degrees below 1e-300 are not generated (h (i - e) / y overflows to inf in float; overflow is outside the model)"]
LEVEL_TEXT = ("Lean theorems over definitions regenerated from term.py by symbolic tracing: the traced tsukamoto of Arc, Concave, "
              "Ramp, Sigmoid, SShape, ZShape equals the documented inverse formula and is a finite number (gen_<class>, "
              "gen_eq_spec); inverse: for every valid term of a monotonic class, both directions, every 0 < y < height, "
              "mu(z(y)) = y over R (inverse_<class>, inverse, branch_point for y = h/2 of the S/Z shapes); code_round_trip: "
              "the regenerated membership applied to the regenerated tsukamoto returns y; mono: z is strictly monotone in y in "
              "the direction of the term; at_zero_*: what the code returns at y = 0 (-/+inf for Sigmoid and Concave); "
              "overrides_table / nonmonotonic_none: exactly the classes with is_monotonic() override tsukamoto. Correspondence: "
              "implementation vs regenerated model at exact rationals, the round trip membership(tsukamoto(y)) = y and the "
              "documented inverse formulas on the implementation, RuntimeError for every other term class.")
LEVEL_NOTE = ("Trusted: Lean kernel, standard axioms, Mathlib (Real.exp/log/sqrt), the tracer, tolerance 1e-9 / squares rule, "
              "Fn.rat oracle. Carried by the correspondence only: float evaluation (cancellation next to y = h), arrays "
              "(elementwise), the exception class of the refusal. Extra validity the proofs need: Concave inflection != end, "
              "Sigmoid slope != 0 (the implementation is run at those points and its behaviour recorded in the evidence).")
TECHNIQUE = ("Lean 4 proof (Real.exp/log/sqrt identities, ordered-field algebra) over definitions regenerated from term.py by "
             "symbolic tracing + differential run against the Lean driver + round-trip oracle on the implementation")

INF, NAN = math.inf, math.nan
MONO = ["Arc", "Concave", "Ramp", "Sigmoid", "SShape", "ZShape"]


def tsu(term, y):
    with np.errstate(all="ignore"):
        return float(np.asarray(term.tsukamoto(y), dtype=float))


def tsu_array(term, ys):
    with np.errstate(all="ignore"):
        return np.asarray(term.tsukamoto(np.asarray(ys, dtype=float)), dtype=float)


def increasing(cls, p):
    return {"Arc": p[0] < p[1], "Concave": p[0] < p[1], "Ramp": p[0] < p[1], "Sigmoid": p[1] > 0, "SShape": True,
            "ZShape": False}[cls]


def doc_tsu(cls, p, h, y):
    """documented inverse (algebraic inverse of the documented membership equation), 0 < y < h"""
    H, Y = Fr(h), Fr(y)
    a, b = Fr(p[0]), Fr(p[1])
    if cls == "Arc":
        s, e = a, b
        rad = (e - s) ** 2 - (Y * (e - s) / H) ** 2
        return float(e) + (-1 if s < e else 1) * math.sqrt(float(rad))
    if cls == "Concave":
        i, e = a, b
        return float(H * (i - e) / Y + 2 * e - i)
    if cls == "Ramp":
        return float(a + (b - a) * Y / H)
    if cls == "Sigmoid":
        return float(a) + math.log(float(H / Y - 1)) / float(-b)
    if cls == "SShape":
        s, e = a, b
        if Y <= H / 2:
            return float(s) + float(e - s) * math.sqrt(float(Y / (2 * H)))
        return float(e) - float(e - s) * math.sqrt(float((H - Y) / (2 * H)))
    if cls == "ZShape":
        s, e = a, b
        if Y <= H / 2:
            return float(e) - float(e - s) * math.sqrt(float(Y / (2 * H)))
        return float(s) + float(e - s) * math.sqrt(float((H - Y) / (2 * H)))
    raise KeyError(cls)


def fragile_value(cls, p, h, y):
    """the value itself is ill-conditioned in float (log of a cancellation): only the round trip is compared"""
    if cls == "Arc" and y == h:
        # outside the property (y < height): (h r) / h need not be r in float, the radicand r^2 - (y r / h)^2 is then a
        # tiny negative number and the code returns NaN (about 3% of decimal heights) - recorded, not compared
        return True
    return cls == "Sigmoid" and 0 < y < h and (h / y - 1.0) < 1e-6


def close_z(cls, p, zi, zm):
    """impl float vs exact / documented value; Arc on squares of the distance from the centre (= end)"""
    if cls == "Arc" and isinstance(zm, (Fr, float)) and zi == zi and abs(zi) != INF:
        e = Fr(p[1])
        zm = Fr(zm) if not isinstance(zm, Fr) else zm
        return C.close(Fr(zi) - e, zm - e, squares=True)
    if isinstance(zm, float):
        if zm != zm or abs(zm) == INF:
            return C.cls_of(zi) == C.cls_of(zm)
        zm = Fr(zm)
    return C.close(zi, zm)


def where(h, y):
    if y != y:
        return "y=nan"
    if y == 0:
        return "y=0"
    if y == h:
        return "y=h"
    if y < 0 or y > h:
        return "y-outside"
    if abs(y - h / 2) <= 4 * np.spacing(h / 2):
        return "y~h/2"
    if y < 1e-6 * h:
        return "y~0"
    if h - y < 1e-6 * h:
        return "y~h"
    return "y-interior"


def key(case):
    if case.get("kind") == "refuse":
        return f"{case.get('cls')}:refuse"
    try:
        return f"{case['cls']}:{where(float(case['height']), float(case['y']))}"
    except Exception:  # noqa: BLE001
        return str(case.get("cls"))


# ------------------------------------------------------------------------------- property oracle

def check_wrappers(cls):
    """`Activated` / `Aggregated` terms around monotonic terms are terms too: each either declares itself monotonic - then its
    own membership at z(y) must be y for every y below its height - or refuses the operation"""
    inner = [fl.Arc("a", 0.0, 1.0), fl.Concave("c", 0.25, 0.75), fl.Ramp("r", 0.0, 1.0), fl.Ramp("r", 1.0, 0.0),
             fl.Sigmoid("s", 0.5, 8.0), fl.SShape("s", 0.0, 1.0), fl.ZShape("z", 0.0, 1.0)]
    for term in inner:
        for degree in (0.6, 1.0, 0.25):
            for impl in (fl.Minimum(), fl.AlgebraicProduct(), None):
                if cls == "Activated":
                    w = fl.Activated(term, degree, impl)
                    what = f"Activated({type(term).__name__}, {degree}, {type(impl).__name__ if impl else None})"
                else:
                    w = fl.Aggregated("g", 0.0, 1.0, fl.Maximum(), [fl.Activated(term, degree, impl or fl.Minimum())])
                    what = f"Aggregated([Activated({type(term).__name__}, {degree})])"
                if not bool(w.is_monotonic()):
                    try:
                        v = w.tsukamoto(0.5)
                    except RuntimeError:
                        continue
                    except Exception as ex:  # noqa: BLE001
                        return False, f"{what}.tsukamoto raised {type(ex).__name__} instead of RuntimeError"
                    return False, f"{what} is not monotonic but tsukamoto(0.5) returned {v!r}"
                if impl is None and cls == "Activated":
                    continue            # its membership needs an implication operator
                for y in (0.1, 0.3, 0.55, 0.65, 0.9):
                    with np.errstate(all="ignore"):
                        z = float(np.asarray(w.tsukamoto(y), dtype=float))
                        back = float(np.asarray(w.membership(z), dtype=float))
                    if not (back == back and abs(back - y) <= 1e-9):
                        return False, (f"{what} declares itself monotonic, but for y = {y}: z(y) = {z!r} and its membership at z(y) is "
                                       f"{back!r}")
    return True, "ok"


def check_refuse(cls):
    """terms that are not monotonic refuse the operation"""
    try:
        t = getattr(fl, cls)("t") if cls not in ("Activated", "Aggregated") else None
        if cls == "Activated":
            t = fl.Activated(fl.Triangle("a", 0, 1, 2), 0.5)
        if cls == "Aggregated":
            t = fl.Aggregated("t", 0, 1)
    except Exception as ex:  # noqa: BLE001
        return False, f"cannot construct {cls}: {ex!r}"
    if cls in ("Activated", "Aggregated"):
        ok, d = check_wrappers(cls)
        if not ok:
            return ok, d
    mono = bool(t.is_monotonic())
    if cls in MONO:
        return (mono, f"{cls}.is_monotonic() = {mono}")
    if mono:
        return False, f"{cls}.is_monotonic() = True but the class is not documented as monotonic"
    for y in (0.5, np.array([0.25, 0.5])):
        try:
            v = t.tsukamoto(y)
        except RuntimeError:
            continue
        except Exception as ex:  # noqa: BLE001
            return False, f"{cls}.tsukamoto raised {type(ex).__name__} instead of RuntimeError"
        return False, f"{cls}.tsukamoto({y!r}) returned {v!r} although the term is not monotonic"
    return True, "ok"


def check_point(cls, p, h, y, term=None, z=None):
    term = term or T.make(cls, p, h)
    z = tsu(term, y) if z is None else z
    if not (0 < y < h):
        return True, "ok"          # the property speaks about 0 < y < height only
    if z != z or abs(z) == INF:
        return False, f"{cls}{tuple(p)} height {h}: tsukamoto({y!r}) = {z!r} is not finite"
    back = T.impl(term, z)
    sq = cls == "Arc"
    ok = abs(back * back - y * y) <= 1e-12 * (1 + y * y) if sq else abs(back - y) <= 1e-9 + 1e-9 * abs(y)
    if not ok:
        return False, f"{cls}{tuple(p)} height {h}: membership(tsukamoto({y!r})) = membership({z!r}) = {back!r} != y"
    if not fragile_value(cls, p, h, y):
        d = doc_tsu(cls, p, h, y)
        if not close_z(cls, p, z, d):
            return False, f"{cls}{tuple(p)} height {h}: tsukamoto({y!r}) = {z!r}, documented inverse gives {d!r}"
    return True, "ok"


def check_config(cls, p, h, ys, term=None):
    """monotone in y in the direction of the term; arrays elementwise"""
    term = term or T.make(cls, p, h)
    inside = sorted(y for y in ys if 0 < y < h)
    zs = [tsu(term, y) for y in inside]
    inc = increasing(cls, p)
    for (y0, z0), (y1, z1) in zip(zip(inside, zs), zip(inside[1:], zs[1:])):
        tol = 1e-9 * (1 + abs(z0))
        if (z1 < z0 - tol) if inc else (z1 > z0 + tol):
            return False, (f"{cls}{tuple(p)} height {h}: tsukamoto is not {'increasing' if inc else 'decreasing'} in y: "
                           f"z({y0!r}) = {z0!r}, z({y1!r}) = {z1!r}"), y1
    # an object that has already answered: built with another height (and, where the class allows it, with shifted
    # parameters), asked once, then re-assigned by attribute to (p, h): it must answer like a freshly built term
    import inspect
    names = [n for n in inspect.signature(getattr(fl, cls).__init__).parameters if n not in ("self", "name", "height")]
    used = T.make(cls, p, 1.0 if h != 1.0 else 0.5)
    tsu(used, 0.25 * min(h, 0.5))
    used.height = h
    for y in inside[:6]:
        u, w = tsu(term, y), tsu(used, y)
        if not ((u != u and w != w) or u == w or abs(u - w) <= 1e-12 * (1 + abs(u))):
            return False, (f"{cls}{tuple(p)}: an object built with height {1.0 if h != 1.0 else 0.5}, asked once and then set to height "
                           f"{h} by attribute gives tsukamoto({y!r}) = {w!r}, a fresh term gives {u!r}"), y
    if len(names) == len(p) and all(math.isfinite(v) for v in p):
        shifted = T.make(cls, [v + 0.5 for v in p] if cls != "Sigmoid" else [p[0] + 0.5, p[1]], h)
        tsu(shifted, 0.25 * h)
        for n_, v in zip(names, p):
            setattr(shifted, n_, v)
        for y in inside[:6]:
            u, w = tsu(term, y), tsu(shifted, y)
            if not ((u != u and w != w) or u == w or abs(u - w) <= 1e-12 * (1 + abs(u))):
                return False, (f"{cls}{tuple(p)} height {h}: an object built with other parameters, asked once and then set to these "
                               f"parameters by attribute gives tsukamoto({y!r}) = {w!r}, a fresh term gives {u!r}"), y
    ys = list(ys)
    if len(ys) % 2:
        ys.append(ys[0])
    one = np.array([tsu(term, y) for y in ys])
    a1 = tsu_array(term, ys)
    a2 = tsu_array(term, np.array(ys).reshape(2, -1))
    if a1.shape != (len(ys),) or a2.shape != (2, len(ys) // 2):
        return False, f"{cls}{tuple(p)}: array result has shape {a1.shape} / {a2.shape}", ys[0]
    for nm, arr in (("1-D", a1), ("2-D", a2.reshape(-1))):
        for y, u, w in zip(ys, one, arr):
            same = (u != u and w != w) or u == w or abs(u - w) <= 1e-12 * (1 + abs(u))
            if not same:
                return False, f"{cls}{tuple(p)} height {h}: {nm} array gives {w!r} at y={y!r}, scalar call gives {u!r}", y
    # the same degrees held in arrays of every memory layout / container, and (for one configuration in eight) a long array
    long = sum(repr((cls, list(p))).encode()) % 8 == 0
    ok, d = L.check_elementwise(lambda a: term.tsukamoto(a), ys, f"{cls}{tuple(p)} height {h}: tsukamoto",
                                scalar=lambda y: tsu(term, y), long=long)
    if not ok:
        return False, d, ys[0]
    return True, "ok", None


def oracle(case):
    if case.get("kind") == "refuse":
        return check_refuse(case["cls"])
    cls, p, h, y = case["cls"], [float(v) for v in case["params"]], float(case["height"]), float(case["y"])
    term = T.make(cls, p, h)
    ok, d = check_point(cls, p, h, y, term)
    if not ok:
        return ok, d
    ok, d, _ = check_config(cls, p, h, [y, h / 4, h / 2, 3 * h / 4, h * 0.999, h * 0.001], term)
    return ok, d


# ------------------------------------------------------------------------------- generators

def ypoints(h, rng, n_random):
    ys = [(0.0, "end"), (h, "end")]
    half = h / 2.0
    ys += [(half, "half"), (float(np.nextafter(half, 0)), "half"), (float(np.nextafter(half, 1)), "half")]
    ys += [(v, "near0") for v in (1e-300, 1e-100, 1e-12 * h, 1e-6 * h, 1e-3 * h)]
    ys += [(float(np.nextafter(h, 0)), "nearh"), (h * (1 - 1e-12), "nearh"), (h * (1 - 1e-6), "nearh"), (h * 0.999, "nearh")]
    ys += [(h * k / 16, "grid") for k in range(1, 16)]
    ys += [(rng.uniform(0, h), "random") for _ in range(n_random)]
    return [(y, k) for y, k in ys if (0 < y < h) or k == "end"]


def stream(ctx):
    rng = ctx.rng
    P = T.pools(rng)
    rounds = ctx.scale(6, 60)
    for cls in MONO:
        for pool in ("nice", "dyadic", "random"):
            for _ in range(rounds):
                for p in T.configs(cls, P[pool], rng):
                    if not T.valid(cls, p):
                        continue
                    hs = T.heights(rng)
                    if pool != "nice":
                        hs = [hs[0], hs[3]]
                    for h in hs:
                        yield cls, p, h, ypoints(h, rng, ctx.scale(4, 10)), pool


def corpus_cases():
    out = []
    for f in sorted(glob.glob(os.path.join(C.VERIF, "corpus", PID, "*.json"))):
        try:
            d = json.load(open(f))
            out.append((d["case"] if "case" in d else d, os.path.basename(f)))
        except Exception:  # noqa: BLE001
            continue
    return out


def correspond(ctx):
    st = ctx.stats
    mism = []
    for case, name in corpus_cases():
        ok, detail = oracle(case)
        st.count("corpus")
        if not ok:
            mism.append({"case": case, "violation": True, "detail": detail, "what": f"corpus case {name}: {detail}"})
    # ---- refusal: every registered term class that is not monotonic raises RuntimeError; the model has no entry for it
    fm = fl.settings.factory_manager
    reg = sorted(k for k in fm.term.constructors if k)
    ctx.notes["registered_terms"] = reg
    refuse_lines = []
    for cls in reg + ["Activated", "Aggregated"]:
        ok, detail = check_refuse(cls)
        st.count("refuse")
        if not ok:
            mism.append({"case": {"kind": "refuse", "cls": cls}, "violation": True, "detail": detail, "what": detail})
        if cls in T.NPARAMS and cls not in MONO and cls != "Constant":
            refuse_lines.append((cls, C.sx(["tsukamoto", cls, [0.25] * T.NPARAMS[cls], 1.0, 0.5])))
    cfgs = list(stream(ctx))
    lines, index = [ln for _, ln in refuse_lines], []
    for ci, (cls, p, h, ys, pool) in enumerate(cfgs):
        for y, kind in ys:
            lines.append(C.sx(["tsukamoto", cls, list(p), h, y]))
            index.append((ci, y, kind))
    outs = ctx.driver.eval(lines)
    for (cls, _), o in zip(refuse_lines, outs):
        st.case(("refuse", cls), False)
        if o != "bad-op":
            mism.append({"case": {"kind": "refuse", "cls": cls}, "model": o,
                         "what": f"the regenerated model has a tsukamoto entry for the non-monotonic class {cls}"})
    outs = outs[len(refuse_lines):]
    terms = {}
    for (ci, y, kind), o in zip(index, outs):
        cls, p, h, _, pool = cfgs[ci]
        case = {"cls": cls, "params": p, "height": h, "y": y}
        st.count(kind)
        st.count("class:" + cls)
        st.count("pool:" + pool)
        st.count("direction:" + ("increasing" if increasing(cls, p) else "decreasing"))
        if o in ("bad-op", "bad-parse"):
            mism.append({"case": case, "model": o, "what": f"{cls}: the regenerated model has no tsukamoto for this class"})
            continue
        term = terms.get(ci)
        if term is None:
            term = terms[ci] = T.make(cls, p, h)
        z = tsu(term, y)
        m = C.parse_x(o)
        st.case((cls, tuple(p), h, repr(y)), 0 < y < h,
                sample={"cls": cls, "params": p, "height": h, "y": y, "impl": z, "model": str(o)[:50]}
                if kind == "random" and st.dist.get("class:" + cls, 0) < 60 else None)
        if fragile_value(cls, p, h, y):
            st.skipped_fragile += 1
            agree = True
        else:
            st.validated += 1
            agree = close_z(cls, p, z, m)
        ok, detail = check_point(cls, p, h, y, term, z)
        st.count("oracle-point")
        if not agree:
            e = {"case": case, "impl": z, "model": o[:80],
                 "what": f"{cls}{tuple(p)} height {h}: tsukamoto({y!r}) = {z!r}, regenerated model {o[:40]}"}
            if not ok:
                e.update({"violation": True, "detail": detail})
            mism.append(e)
        elif not ok:
            mism.append({"case": case, "impl": z, "violation": True, "detail": detail, "what": detail})
        if len(mism) > 40:
            break
    for ci, (cls, p, h, ys, pool) in enumerate(cfgs):
        if len(mism) > 40 or ci not in terms:
            break
        ok, detail, bad = check_config(cls, p, h, [y for y, _ in ys], terms[ci])
        st.count("oracle-config")
        if not ok:
            mism.append({"case": {"cls": cls, "params": p, "height": h, "y": bad}, "violation": True, "detail": detail,
                         "what": detail})
    # ---- the points the theorems exclude: behaviour of the implementation, recorded (informational)
    with np.errstate(all="ignore"):
        ctx.notes["excluded_points"] = {
            "Concave(inflection = end = 0.5).tsukamoto(0.3)": repr(float(fl.Concave("c", 0.5, 0.5).tsukamoto(0.3))),
            "Concave(0.5, 0.5).membership([0.4, 0.5, 0.6])": repr(fl.Concave("c", 0.5, 0.5).membership(np.array([0.4, 0.5, 0.6])).tolist()),
            "Sigmoid(slope = 0).tsukamoto(0.3)": repr(float(fl.Sigmoid("s", 0.5, 0.0).tsukamoto(0.3))),
            "Ramp(start = end).tsukamoto(0.3)": repr(float(fl.Ramp("r", 0.5, 0.5).tsukamoto(0.3))),
        }
    return mism


def search(ctx):
    for cls in sorted(set(T.NPARAMS) | {"Discrete", "Linear", "Function"}):
        if hasattr(fl, cls):
            ok, d = check_refuse(cls)
            if not ok:
                return [({"kind": "refuse", "cls": cls}, d)]
    for cls, p, h, ys, pool in stream(ctx):
        term = T.make(cls, p, h)
        for y, _ in ys:
            ok, d = check_point(cls, p, h, y, term)
            if not ok:
                return [({"cls": cls, "params": p, "height": h, "y": y}, d)]
        ok, d, bad = check_config(cls, p, h, [y for y, _ in ys], term)
        if not ok:
            return [({"cls": cls, "params": p, "height": h, "y": bad}, d)]
    return []
