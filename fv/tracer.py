"""Tie A: regenerate the Lean definitions in lean/FlVerif/Gen from the live fuzzylite sources.

Leaf formulas (Norm.compute, Hedge.hedge, Term.membership, Term.tsukamoto) are obtained by *symbolic
tracing*: the real methods are called with `Sym` arguments that record every arithmetic / NumPy
operation; Python-level branching on a symbolic value forks the trace (all paths are enumerated).
Tables (factories, function elements, signatures, comparator names, settings keys, parse arities) are read
by introspection.  Run with the interpreter that has numpy and with /repo first on sys.path.

Usage: python tracer.py <outdir> [<status.json>]
"""
from __future__ import annotations

import inspect
import json
import math
import os
import sys
from fractions import Fraction

REPO = os.environ.get("FV_REPO", "/repo")
if REPO not in sys.path:
    sys.path.insert(0, REPO)

import numpy as np  # noqa: E402

import fuzzylite as fl  # noqa: E402
import fuzzylite.hedge  # noqa: E402
import fuzzylite.norm  # noqa: E402
import fuzzylite.term  # noqa: E402


class Untraceable(Exception):
    pass


class Ctx:
    decisions: list = []
    pos = 0


class Sym:
    __array_priority__ = 1000

    def __init__(s, op, *args):
        s.op = op
        s.args = args

    @staticmethod
    def lift(x):
        if isinstance(x, Sym):
            return x
        if isinstance(x, (bool, np.bool_)):
            return Sym("constb", bool(x))
        if isinstance(x, (int, float, np.floating, np.integer)):
            return Sym("const", float(x))
        if isinstance(x, np.ndarray) and x.ndim == 0:
            return Sym.lift(x.item())
        raise Untraceable(f"cannot lift {type(x).__name__} {x!r}")

    def _b(op):  # noqa: N805
        def f(s, o):
            return Sym(op, s, Sym.lift(o))

        def r(s, o):
            return Sym(op, Sym.lift(o), s)

        return f, r

    __add__, __radd__ = _b("add")
    __sub__, __rsub__ = _b("sub")
    __mul__, __rmul__ = _b("mul")
    __truediv__, __rtruediv__ = _b("div")
    __pow__, __rpow__ = _b("pow")
    __and__, __rand__ = _b("and")
    __or__, __ror__ = _b("or")

    def __lt__(s, o): return Sym("lt", s, Sym.lift(o))
    def __le__(s, o): return Sym("le", s, Sym.lift(o))
    def __gt__(s, o): return Sym("lt", Sym.lift(o), s)
    def __ge__(s, o): return Sym("le", Sym.lift(o), s)
    def __eq__(s, o): return Sym("eq", s, Sym.lift(o))
    def __ne__(s, o): return Sym("ne", s, Sym.lift(o))
    __hash__ = object.__hash__
    def __neg__(s): return Sym("neg", s)
    def __pos__(s): return s
    def __abs__(s): return Sym("abs", s)
    def __invert__(s): return Sym("not", s)

    def __bool__(s):
        if Ctx.pos < len(Ctx.decisions):
            d = Ctx.decisions[Ctx.pos][1]
        else:
            Ctx.decisions.append([s, True])
            d = True
        Ctx.decisions[Ctx.pos][0] = s
        Ctx.pos += 1
        return d

    def __float__(s):
        raise Untraceable("float() of a symbolic value")

    def __index__(s):
        raise Untraceable("index() of a symbolic value")

    UF = {"add": "add", "subtract": "sub", "multiply": "mul", "true_divide": "div", "divide": "div",
          "maximum": "npmax", "minimum": "npmin", "sqrt": "sqrt", "exp": "exp", "log": "log", "cos": "cos",
          "sin": "sin", "square": "square", "absolute": "abs", "fabs": "abs", "isnan": "isnan",
          "isfinite": "isfinite", "isinf": "isinf", "sign": "sign",
          "power": "pow", "float_power": "pow", "negative": "neg", "positive": "pos", "less": "lt",
          "less_equal": "le", "greater": "gt", "greater_equal": "ge", "equal": "eq", "not_equal": "ne",
          "logical_and": "and", "logical_or": "or", "bitwise_and": "and", "bitwise_or": "or",
          "logical_not": "not", "invert": "not"}

    def __array_ufunc__(s, ufunc, method, *inputs, **kw):
        if method != "__call__":
            raise Untraceable(f"ufunc method {ufunc.__name__}.{method}")
        name = ufunc.__name__
        if name not in Sym.UF:
            raise Untraceable("unsupported ufunc " + name)
        if kw.get("out") is not None or kw.get("where", True) is not True:
            raise Untraceable("ufunc with out=/where=")
        op = Sym.UF[name]
        args = [Sym.lift(i) for i in inputs]
        if op == "gt": return Sym("lt", args[1], args[0])
        if op == "ge": return Sym("le", args[1], args[0])
        if op == "pos": return args[0]
        return Sym(op, *args)

    def __array_function__(s, func, types, args, kwargs):
        name = func.__name__
        if name == "where" and len(args) == 3:
            return Sym("ite", *[Sym.lift(a) for a in args])
        if name == "full_like":
            return Sym.lift(args[1] if len(args) > 1 else kwargs["fill_value"])
        if name == "nan_to_num":
            v = args[0]
            return Sym("nan_to_num", Sym.lift(v), Sym.lift(kwargs.get("nan", 0.0)), Sym.lift(kwargs.get("neginf", -1.7976931348623157e308)),
                       Sym.lift(kwargs.get("posinf", 1.7976931348623157e308)))
        if name == "clip":
            x, lo, hi = (list(args) + [kwargs.get("a_min"), kwargs.get("a_max")])[:3]
            return Sym("npmin", Sym("npmax", Sym.lift(x), Sym.lift(lo)), Sym.lift(hi))
        raise Untraceable("unsupported array function " + name)


def sym_scalar(x, /, **kw):
    if isinstance(x, Sym):
        return x
    return np.asarray(x, dtype=fl.settings.float_type, **kw)


def install():
    for m in (fuzzylite.norm, fuzzylite.hedge, fuzzylite.term):
        m.scalar = sym_scalar


def paths(f, limit=64):
    """enumerate every Python-level decision path of f; returns [(decisions, result)]"""
    Ctx.decisions = []
    out = []
    while True:
        Ctx.pos = 0
        r = f()
        out.append(([(c, d) for c, d in Ctx.decisions[: Ctx.pos]], r))
        if len(out) > limit:
            raise Untraceable("too many paths")
        Ctx.decisions = Ctx.decisions[: Ctx.pos]
        while Ctx.decisions and Ctx.decisions[-1][1] is False:
            Ctx.decisions.pop()
        if not Ctx.decisions:
            break
        Ctx.decisions[-1][1] = False
    return out


BOOL_OPS = {"lt", "le", "eq", "ne", "and", "or", "not", "isnan", "isfinite", "isinf", "constb"}


def ty(e):
    if e.op in BOOL_OPS:
        return "B"
    if e.op == "ite":
        return "B" if ty(e.args[1]) == "B" and ty(e.args[2]) == "B" else "F"
    return "F"


def num(c):
    if c != c: return "X.nan"
    if c == float("inf"): return "X.pinf"
    if c == float("-inf"): return "X.ninf"
    if c == math.pi: return "(X.fin F.pi)"
    fr = Fraction(c)
    if fr.denominator == 1:
        return f"(X.fin ({fr.numerator} : α))"
    return f"(X.fin (({fr.numerator} : α) / {fr.denominator}))"


class Emit:
    """Lean emission; records whether the transcendental bundle `F` is used"""

    def __init__(s):
        s.usesF = False

    def F(s, e):
        if not isinstance(e, Sym):
            e = Sym.lift(e)
        if ty(e) == "B":
            return f"(X.ofBool {s.B(e)})"
        o, a = e.op, e.args
        if o == "var": return a[0]
        if o == "const":
            if a[0] == math.pi: s.usesF = True
            return num(a[0])
        if o in ("add", "sub", "mul", "div", "npmin", "npmax"):
            return f"(X.{o} {s.F(a[0])} {s.F(a[1])})"
        if o == "pow":
            if a[1].op == "const" and a[1].args[0] == 2.0:
                return f"(X.sq {s.F(a[0])})"
            s.usesF = True
            return f"(X.powNonneg F {s.F(a[0])} {s.F(a[1])})"
        if o == "square": return f"(X.sq {s.F(a[0])})"
        if o in ("neg", "abs", "sign"): return f"(X.{o} {s.F(a[0])})"
        if o in ("sqrt", "exp", "cos", "sin", "log"):
            s.usesF = True
            return f"(X.{o} F {s.F(a[0])})"
        if o == "ite": return f"(X.sel {s.B(a[0])} {s.F(a[1])} {s.F(a[2])})"
        if o == "nan_to_num": return f"(X.nanToNum {s.F(a[0])} {s.F(a[1])} {s.F(a[2])} {s.F(a[3])})"
        raise Untraceable("cannot emit " + o)

    def B(s, e):
        o, a = e.op, e.args
        if ty(e) != "B":
            # a number used as a truth value (numpy: non-zero and NaN are true)
            return f"(!(X.eq {s.F(e)} (X.fin 0)))"
        if o == "constb": return "true" if a[0] else "false"
        if o in ("lt", "le"): return f"(X.{o} {s.F(a[0])} {s.F(a[1])})"
        if o in ("eq", "ne"):
            if ty(a[0]) == "B" and ty(a[1]) == "B":
                return f"({'' if o == 'eq' else '!'}({s.B(a[0])} == {s.B(a[1])}))"
            return f"(X.{o} {s.F(a[0])} {s.F(a[1])})"
        if o == "and": return f"({s.B(a[0])} && {s.B(a[1])})"
        if o == "or": return f"({s.B(a[0])} || {s.B(a[1])})"
        if o == "not": return f"(!{s.B(a[0])})"
        if o in ("isnan", "isfinite", "isinf"): return f"(X.{o} {s.F(a[0])})"
        if o == "ite": return f"(if {s.B(a[0])} then {s.B(a[1])} else {s.B(a[2])})"
        raise Untraceable("cannot emit bool " + o)

    def tree(s, ps):
        """decision paths -> nested Lean if"""
        if len(ps) == 1 and not ps[0][0]:
            return s.F(ps[0][1])
        cond = ps[0][0][0][0]
        yes = [(p[1:], r) for p, r in ps if p[0][1]]
        no = [(p[1:], r) for p, r in ps if not p[0][1]]
        return f"(if {s.B(cond)} then {s.tree(yes)} else {s.tree(no)})"


def V(n):
    return Sym("var", n)


HEADER = """import FlVerif.Base.X

/-! GENERATED by /verif/fv/tracer.py from the live `{module}` – do not edit.
    Regenerated from /repo on every run of a check (Tie A). -/

namespace Gen
variable {{α : Type}} [Field α] [LinearOrder α] [IsStrictOrderedRing α]
"""

STATUS: dict = {"functions": {}, "tables": {}}


def trace_fn(key, mk, args, with_F=True, nparams=None):
    """returns Lean source of one definition; on failure a NaN placeholder and a status entry"""
    name = key
    try:
        em = Emit()
        body = em.tree(paths(mk))
        STATUS["functions"][key] = {"ok": True}
    except Exception as ex:  # noqa: BLE001
        STATUS["functions"][key] = {"ok": False, "error": f"{type(ex).__name__}: {ex}"}
        body = "X.nan"
    fpar = "(F : Fn α) " if with_F else ""
    return f"def {name} {fpar}({' '.join(args)} : X α) : X α := {body}"


def term_params(cls):
    sig = inspect.signature(cls.__init__)
    return [p for p in sig.parameters if p not in ("self", "name", "height")]


SHAPE_TERMS = ["Arc", "Bell", "Binary", "Concave", "Cosine", "Gaussian", "GaussianProduct", "PiShape", "Ramp",
               "Rectangle", "SemiEllipse", "Sigmoid", "SigmoidDifference", "SigmoidProduct", "Spike", "SShape",
               "Trapezoid", "Triangle", "ZShape"]


def mk_term(cls, params, height=True):
    t = cls("t")
    for p in params:
        if not hasattr(t, p):
            raise Untraceable(f"{cls.__name__} has no attribute {p}")
        setattr(t, p, V("p_" + p))
    if height:
        t.height = V("h")
    return t


def gen_norms():
    out = [HEADER.format(module="fuzzylite.norm")]
    fm = fl.settings.factory_manager
    names = {"TNorm": [], "SNorm": []}
    for kind, factory in (("TNorm", fm.tnorm), ("SNorm", fm.snorm)):
        for name in sorted(k for k in factory.constructors if k):
            names[kind].append(name)
            out.append(trace_fn(f"Norm.{name}", lambda: factory.construct(name).compute(V("a"), V("b")),
                                ["a", "b"], with_F=False))
    out.append("")
    for kind in ("TNorm", "SNorm"):
        out.append(f"def {kind.lower()}Names : List String := [" + ", ".join(f'"{n}"' for n in names[kind]) + "]")
    out.append("def normByName : String → Option (X α → X α → X α)")
    for kind in ("TNorm", "SNorm"):
        for n in names[kind]:
            out.append(f'  | "{n}" => some Norm.{n}')
    out.append("  | _ => none")
    out += ["", "end Gen", ""]
    STATUS["tables"]["tnorms"] = names["TNorm"]
    STATUS["tables"]["snorms"] = names["SNorm"]
    return "\n".join(out)


def gen_hedges():
    out = [HEADER.format(module="fuzzylite.hedge")]
    fm = fl.settings.factory_manager
    names = sorted(k for k in fm.hedge.constructors if k)
    for name in names:
        out.append(trace_fn(f"Hedge.{name}", lambda: fm.hedge.construct(name).hedge(V("x")), ["x"]))
    out.append("")
    out.append("def hedgeNames : List String := [" + ", ".join(f'"{n}"' for n in names) + "]")
    out.append("def hedgeByName (F : Fn α) : String → Option (X α → X α)")
    for n in names:
        out.append(f'  | "{n}" => some (Hedge.{n} F)')
    out.append("  | _ => none")
    out += ["", "end Gen", ""]
    STATUS["tables"]["hedges"] = names
    return "\n".join(out)


def gen_terms():
    out = [HEADER.format(module="fuzzylite.term")]
    sigs = {}
    mono = {}
    tsuka = []
    for T in SHAPE_TERMS:
        cls = getattr(fl, T)
        ps = term_params(cls)
        sigs[T] = ps
        lps = ["p_" + p for p in ps]
        out.append(trace_fn(f"Term.{T}.membership", lambda: mk_term(cls, ps).membership(V("x")), lps + ["h", "x"]))
        try:
            mono[T] = bool(cls("t").is_monotonic())
        except Exception:  # noqa: BLE001
            mono[T] = False
        if cls.tsukamoto is not fl.Term.tsukamoto:
            tsuka.append(T)
            out.append(trace_fn(f"Term.{T}.tsukamoto", lambda: mk_term(cls, ps).tsukamoto(V("y")), lps + ["h", "y"]))
    # Constant: the degenerate case
    out.append(trace_fn("Term.Constant.membership", lambda: mk_term(fl.Constant, ["value"], height=False).membership(V("x")),
                        ["p_value", "x"]))
    out.append("")
    out.append("/-- membership by class name (driver); `none` for an unknown class or a wrong parameter count -/")
    out.append("def termMembership (F : Fn α) : String → List (X α) → X α → X α → Option (X α)")
    for T in SHAPE_TERMS:
        ps = ["p_" + p for p in sigs[T]]
        out.append(f'  | "{T}", [{", ".join(ps)}], h, x => some (Term.{T}.membership F {" ".join(ps)} h x)')
    out.append('  | "Constant", [p_value], _, x => some (Term.Constant.membership F p_value x)')
    out.append("  | _, _, _, _ => none")
    out.append("def termTsukamoto (F : Fn α) : String → List (X α) → X α → X α → Option (X α)")
    for T in tsuka:
        ps = ["p_" + p for p in sigs[T]]
        out.append(f'  | "{T}", [{", ".join(ps)}], h, y => some (Term.{T}.tsukamoto F {" ".join(ps)} h y)')
    out.append("  | _, _, _, _ => none")
    out.append("/-- `is_monotonic()` of a default-constructed instance of every shape class -/")
    out.append("def isMonotonicTable : List (String × Bool) := ["
               + ", ".join(f'("{T}", {"true" if mono[T] else "false"})' for T in SHAPE_TERMS) + "]")
    out.append("def tsukamotoOverrides : List String := [" + ", ".join(f'"{T}"' for T in tsuka) + "]")
    out += ["", "end Gen", ""]
    STATUS["tables"]["term_params"] = sigs
    STATUS["tables"]["monotonic"] = mono
    return "\n".join(out)


def gen_setters():
    """two property setters every value of the engine passes through: `Activated.degree` and `Variable.value`"""
    import fuzzylite.variable
    out = [HEADER.format(module="fuzzylite.term.Activated.degree / fuzzylite.variable.Variable.value")]

    def degree():
        a = fl.Activated(fl.Constant("c", 0.0), 1.0, None)
        a.degree = V("d")
        return a.degree

    def value(lock):
        def f():
            v = fl.Variable("v", minimum=0.0, maximum=1.0, lock_range=lock)
            v.minimum, v.maximum = V("lo"), V("hi")
            v.value = V("x")
            return v.value
        return f

    out.append(trace_fn("Setter.activatedDegree", degree, ["d"], with_F=False))
    out.append(trace_fn("Setter.valueLocked", value(True), ["lo", "hi", "x"], with_F=False))
    out.append(trace_fn("Setter.valueUnlocked", value(False), ["lo", "hi", "x"], with_F=False))
    out += ["", "end Gen", ""]
    return "\n".join(out)


def lean_str(s):
    return '"' + s.replace("\\", "\\\\").replace('"', '\\"') + '"'


def gen_tables():
    """tables read by introspection of the live objects"""
    out = ["/-! GENERATED by /verif/fv/tracer.py by introspection of the live `fuzzylite` – do not edit. -/", "",
           "namespace Gen.Tables", ""]
    ff = fl.settings.factory_manager.function
    out.append("/-- FunctionFactory elements: (name, isOperator, arity, precedence, associativity) -/")
    rows = []
    for name in sorted(ff.objects):
        el = ff.objects[name]
        rows.append(f"({lean_str(name)}, {'true' if el.type == fl.Function.Element.Type.Operator else 'false'}, "
                    f"{int(el.arity)}, {int(el.precedence)}, ({int(el.associativity)} : Int))")
    out.append("def elements : List (String × Bool × Nat × Nat × Int) := [\n  " + ",\n  ".join(rows) + "]")
    STATUS["tables"]["elements"] = len(rows)
    fm = fl.settings.factory_manager
    for nm, fac in (("tnorm", fm.tnorm), ("snorm", fm.snorm), ("hedge", fm.hedge), ("term", fm.term),
                    ("defuzzifier", fm.defuzzifier), ("activation", fm.activation)):
        keys = sorted(k for k in fac.constructors if k)
        out.append(f"def {nm}Keys : List String := [" + ", ".join(lean_str(k) for k in keys) + "]")
    # settings keys accepted by Settings.context
    ctx_params = [p for p in inspect.signature(fl.Settings.context).parameters if p != "self"]
    out.append("def settingsContextKeys : List String := [" + ", ".join(lean_str(k) for k in ctx_params) + "]")
    STATUS["tables"]["settings_context_keys"] = ctx_params
    # Threshold comparators
    comps = [(c.name, c.value) for c in fl.activation.Threshold.Comparator]
    out.append("def comparators : List (String × String) := ["
               + ", ".join(f"({lean_str(n)}, {lean_str(v)})" for n, v in comps) + "]")
    # what each comparator's operator returns on the probes (0,1), (1,1), (1,0), (nan,1)  [C08: Threshold]
    probes = [(0.0, 1.0), (1.0, 1.0), (1.0, 0.0), (float("nan"), 1.0)]
    truth = [(c.value, [bool(c.operator(np.float64(a), np.float64(b))) for a, b in probes])
             for c in fl.activation.Threshold.Comparator]
    out.append("/-- (symbol, operator(0,1), operator(1,1), operator(1,0), operator(nan,1)) of `Threshold.Comparator` -/")
    out.append("def comparatorTruth : List (String × List Bool) := ["
               + ", ".join(f"({lean_str(v)}, [" + ", ".join("true" if b else "false" for b in bs) + "])" for v, bs in truth) + "]")
    STATUS["tables"]["comparator_truth"] = {v: bs for v, bs in truth}
    # rule keywords
    R = fl.Rule
    kw = [("IF", R.IF), ("IS", R.IS), ("THEN", R.THEN), ("AND", R.AND), ("OR", R.OR), ("WITH", R.WITH)]
    out.append("def ruleKeywords : List (String × String) := ["
               + ", ".join(f"({lean_str(n)}, {lean_str(v)})" for n, v in kw) + "]")
    # term parse arities: (class, required, height?) recorded by wrapping Term._parse
    rec = {}
    orig = fl.Term._parse

    def spy(self, required, parameters, *, height=True):
        rec[type(self).__name__] = (int(required), bool(height))
        return orig(self, required, "0 " * required, height=height)

    fl.Term._parse = spy
    try:
        for key in sorted(k for k in fm.term.constructors if k):
            try:
                t = fm.term.construct(key)
                t.configure("")
            except Exception:  # noqa: BLE001
                pass
    finally:
        fl.Term._parse = orig
    out.append("/-- (class, number of required parameters, optional height) as passed to `Term._parse` by `configure` -/")
    out.append("def termParse : List (String × Nat × Bool) := ["
               + ", ".join(f"({lean_str(k)}, {v[0]}, {'true' if v[1] else 'false'})" for k, v in sorted(rec.items())) + "]")
    STATUS["tables"]["term_parse"] = rec
    # constructor signatures: (class, [(param, hasDefault)])
    sig_rows = []
    classes = []
    for fac in (fm.tnorm, fm.snorm, fm.hedge, fm.term, fm.defuzzifier, fm.activation):
        classes += [fac.constructors[k] for k in sorted(fac.constructors) if k]
    classes += [fl.Engine, fl.InputVariable, fl.OutputVariable, fl.RuleBlock, fl.Rule, fl.Variable, fl.Activated,
                fl.Aggregated]
    seen = set()
    for c in classes:
        if c.__name__ in seen:
            continue
        seen.add(c.__name__)
        ps = [(p.name, p.default is not inspect.Parameter.empty)
              for p in inspect.signature(c.__init__).parameters.values() if p.name != "self"]
        sig_rows.append(f"({lean_str(c.__name__)}, ["
                        + ", ".join(f"({lean_str(n)}, {'true' if d else 'false'})" for n, d in ps) + "])")
    out.append("def signatures : List (String × List (String × Bool)) := [\n  " + ",\n  ".join(sig_rows) + "]")
    out += ["", "end Gen.Tables", ""]
    return "\n".join(out)


# --------------------------------------------------------------------------------------------- export tables (C14, C15)

def _pyval(v):
    """(kind, payload) encoding of a constructor default / field value for Gen.ExportTables"""
    import enum
    if v is None:
        return "none", ""
    if isinstance(v, bool):
        return "bool", "true" if v else "false"
    if isinstance(v, int):
        return "int", str(v)
    if isinstance(v, float):
        if v != v:
            return "float", "nan"
        if v in (math.inf, -math.inf):
            return "float", "inf" if v > 0 else "-inf"
        n, d = v.as_integer_ratio()
        return "float", f"{n}/{d}" if d != 1 else str(n)
    if isinstance(v, str):
        return "str", v
    if isinstance(v, enum.Enum):
        # what the enum's own __repr__ prints between the quotes (comparator value / type name)
        return "enum", repr(v).strip("'")
    if isinstance(v, (list, tuple)):
        return ("list", "") if len(v) == 0 else ("other", type(v).__name__)
    if isinstance(v, dict):
        return ("dict", "") if len(v) == 0 else ("other", type(v).__name__)
    if isinstance(v, np.ndarray):
        return ("array", "") if v.size == 0 else ("other", "ndarray")
    return "obj", type(v).__name__


def _pydefault(kind, payload):
    """Lean term of type Gen.ExportTables.PyDefault"""
    if kind == "none":
        return ".none"
    if kind == "bool":
        return f".bool {payload}"
    if kind == "int":
        return f".int ({payload})"
    if kind == "float":
        if payload == "nan":
            return ".nan"
        if payload in ("inf", "-inf"):
            return f".inf {'true' if payload.startswith('-') else 'false'}"
        n, _, d = payload.partition("/")
        return f".float ({n}) {d or 1}"
    if kind == "str":
        return f".str {lean_str(payload)}"
    if kind == "enum":
        return f".enum {lean_str(payload)}"
    if kind in ("list", "dict", "array"):
        return {"list": ".emptyList", "dict": ".emptyDict", "array": ".emptyArray"}[kind]
    if kind in ("obj", "other"):
        return f".obj {lean_str(payload)}"
    if kind == "varargs":
        return ".varargs"
    return ".absent"


def _nondefault(cls, pname, default):
    """a value different from the default for probing which fields a __repr__ keeps"""
    name_map = {
        "terms": lambda: [fl.Triangle("t", 0.0, 0.5, 1.0)],
        "rules": lambda: [fl.Rule.create("if a is b then c is d")] if cls.__name__ == "RuleBlock" else 2,
        "input_variables": lambda: [fl.InputVariable("a")],
        "output_variables": lambda: [fl.OutputVariable("c")],
        "rule_blocks": lambda: [fl.RuleBlock("r")],
        "coefficients": lambda: [1.0, 2.0],
        "values": lambda: [0.0, 1.0, 1.0, 0.0],
        "variables": lambda: {"k": 1.0},
        "aggregation": lambda: fl.Maximum(),
        "defuzzifier": lambda: fl.Centroid(),
        "conjunction": lambda: fl.Minimum(),
        "disjunction": lambda: fl.Maximum(),
        "implication": lambda: fl.Minimum(),
        "activation": lambda: fl.General(),
        "type": lambda: "Tsukamoto",
        "comparator": lambda: "<",
        "resolution": lambda: 1001,
        "formula": lambda: "x",
    }
    if pname in name_map:
        return True, name_map[pname]()
    if isinstance(default, bool):
        return True, not default
    if isinstance(default, int):
        return True, default + 1
    if isinstance(default, float):
        return True, 0.5
    if isinstance(default, str):
        return True, "x"
    return False, None


def export_classes():
    fm = fl.settings.factory_manager
    classes = []
    for fac in (fm.tnorm, fm.snorm, fm.hedge, fm.term, fm.defuzzifier, fm.activation):
        classes += [fac.constructors[k] for k in sorted(fac.constructors) if k]
    classes += [fl.Engine, fl.InputVariable, fl.OutputVariable, fl.RuleBlock, fl.Variable]
    seen, out = set(), []
    for c in classes:
        if c.__name__ not in seen:
            seen.add(c.__name__)
            out.append(c)
    return out


def gen_export_tables():
    """constructor parameters with their effective defaults, and what every `__repr__` passes to
    `construction_arguments` (probed on a default and on an all-non-default instance)"""
    from fuzzylite.library import Representation

    out = ["/-! GENERATED by /verif/fv/tracer.py by introspection of the live `fuzzylite` – do not edit. -/", "",
           "namespace Gen.ExportTables", "",
           "/-- what `Class()` stores under the name of a constructor parameter -/",
           "inductive PyDefault where",
           "  | none | bool (b : Bool) | int (z : Int) | float (num : Int) (den : Nat) | nan | inf (neg : Bool)",
           "  | str (s : String) | enum (s : String) | emptyList | emptyDict | emptyArray | obj (cls : String)",
           "  | absent      -- the constructor does not store the parameter under its name",
           "  | varargs",
           "deriving DecidableEq, Repr", ""]
    rec = []
    orig = Representation.construction_arguments

    def spy(self, x, /, fields=None, *, positional=False, cast_as=None):
        rec.append((type(x).__name__, sorted((fields if fields is not None else vars(x)) or {}), bool(positional)))
        return orig(self, x, fields, positional=positional, cast_as=cast_as)

    prm_rows, probe_rows = [], []
    problems, unprobed = [], []
    for c in export_classes():
        own_init = c.__init__ is not object.__init__
        params = [p for p in inspect.signature(c.__init__).parameters.values() if p.name != "self"] if own_init else []
        try:
            d0 = c()
        except Exception as ex:  # noqa: BLE001
            problems.append(f"{c.__name__}(): {type(ex).__name__}: {ex}")
            continue
        rows = []
        kwargs = {}
        for p in params:
            has_default = p.default is not inspect.Parameter.empty
            if p.kind in (p.VAR_POSITIONAL, p.VAR_KEYWORD):
                rows.append((p.name, has_default, "varargs", ""))
                continue
            if hasattr(d0, p.name) and not callable(getattr(d0, p.name)):
                kind, payload = _pyval(getattr(d0, p.name))
            else:
                kind, payload = "absent", ""
            rows.append((p.name, has_default, kind, payload))
            if kind != "absent":
                ok, v = _nondefault(c, p.name, getattr(d0, p.name))
                if ok:
                    kwargs[p.name] = v
                else:
                    unprobed.append(f"{c.__name__}.{p.name}")
        prm_rows.append(f"({lean_str(c.__name__)}, [" + ", ".join(
            f"({lean_str(n)}, {'true' if hd else 'false'}, {_pydefault(k, pl)})" for n, hd, k, pl in rows) + "])")
        # probe the __repr__ override
        try:
            d1 = c(**kwargs)
            probes = []
            Representation.construction_arguments = spy
            try:
                for inst in (d0, d1):
                    del rec[:]
                    repr(inst)
                    # the outermost call (the object's own) is recorded first
                    probes.append(([r for r in rec if r[0] == c.__name__][0], sorted(vars(inst))))
            finally:
                Representation.construction_arguments = orig
        except Exception as ex:  # noqa: BLE001
            problems.append(f"{c.__name__} repr probe: {type(ex).__name__}: {ex}")
            continue
        (_, f0, pos0), v0 = probes[0]
        (_, f1, pos1), v1 = probes[1]
        if pos0 != pos1:
            problems.append(f"{c.__name__}: positional flag differs between probes")
        always = sorted(k for k in v1 if k not in f1 and k not in f0)
        added = sorted(k for k in f1 if k not in v1)
        cond = []
        for k in f1:
            if k not in f0:
                cond.append((k, "eqDefault"))
        for k in f0:
            if k not in f1:
                cond.append((k, "neDefault"))
        # a height within the tolerance of 1 but different from it
        if "height" in [p.name for p in params] and "height" in f1:
            try:
                kw2 = dict(kwargs)
                kw2["height"] = 1.0 + fl.settings.atol / 2
                d2 = c(**kw2)
                Representation.construction_arguments = spy
                try:
                    del rec[:]
                    repr(d2)
                    f2 = [r for r in rec if r[0] == c.__name__][0][1]
                finally:
                    Representation.construction_arguments = orig
                if "height" not in f2:
                    cond = [(k, "close1" if k == "height" else kind) for k, kind in cond]
            except Exception as ex:  # noqa: BLE001
                problems.append(f"{c.__name__} height probe: {type(ex).__name__}: {ex}")
        probe_rows.append(f"({lean_str(c.__name__)}, {'true' if pos1 else 'false'}, ["
                          + ", ".join(lean_str(k) for k in always) + "], ["
                          + ", ".join(f"({lean_str(k)}, {lean_str(kind)})" for k, kind in sorted(cond)) + "], ["
                          + ", ".join(lean_str(k) for k in added) + "])")
    out.append("/-- (class, [(parameter, has a default, kind of the value `Class()` stores under that name, payload)]);\n"
               "    kind `absent` = the constructor does not store the parameter under its name -/")
    out.append("def ctorParams : List (String × List (String × Bool × PyDefault)) := [\n  "
               + ",\n  ".join(prm_rows) + "]")
    out.append("/-- (class, positional flag passed by `__repr__`, fields of `vars(x)` never passed, conditionally dropped\n"
               "    fields with the probed condition, fields passed although not in `vars(x)`) -/")
    out.append("def reprProbe : List (String × Bool × List String × List (String × String) × List String) := [\n  "
               + ",\n  ".join(probe_rows) + "]")
    mods = [(c.__name__, inspect.getmodule(c).__name__) for c in export_classes() + [fl.Rule]]
    out.append("/-- (class, module that `Representation.package_of` reports for its instances) -/")
    out.append("def classModule : List (String × String) := ["
               + ", ".join(f"({lean_str(n)}, {lean_str(m)})" for n, m in mods) + "]")
    out.append(f"/-- module of the `settings` object: prefix of `nan`, `inf`, `array` -/\ndef settingsModule : String := "
               f"{lean_str(inspect.getmodule(fl.settings).__name__)}")
    out.append(f"def defaultResolution : Nat := {int(fl.IntegralDefuzzifier.default_resolution)}")
    out.append("def defuzzifierTypes : List String := [" + ", ".join(lean_str(t.name) for t in fl.WeightedDefuzzifier.Type) + "]")
    out += ["", "end Gen.ExportTables", ""]
    STATUS["tables"]["export_problems"] = problems
    STATUS["tables"]["export_unprobed"] = unprobed
    STATUS["functions"]["Tables.export"] = {"ok": not problems, "error": "; ".join(problems) or None}
    return "\n".join(out)


def write_if_changed(path, text):
    try:
        if open(path).read() == text:
            return False
    except FileNotFoundError:
        pass
    tmp = path + ".tmp"
    with open(tmp, "w") as f:
        f.write(text)
    os.replace(tmp, path)
    return True


def main(outdir, status_path=None):
    install()
    os.makedirs(outdir, exist_ok=True)
    changed = {}
    for fname, gen in (("NormGen.lean", gen_norms), ("HedgeGen.lean", gen_hedges), ("TermGen.lean", gen_terms), ("SetterGen.lean", gen_setters),
                       ("Tables.lean", gen_tables), ("ExportTables.lean", gen_export_tables)):
        try:
            text = gen()
        except Exception as ex:  # noqa: BLE001
            STATUS.setdefault("generator_errors", {})[fname] = f"{type(ex).__name__}: {ex}"
            continue
        changed[fname] = write_if_changed(os.path.join(outdir, fname), text)
    try:
        import profiles as code_profiles
        import pylean
        texts, st = pylean.generate(code_profiles.PROFILES, code_profiles.FILES)
        STATUS["functions"].update(st)
        for fname, text in texts.items():
            changed[fname] = write_if_changed(os.path.join(outdir, fname), text)
    except Exception as ex:  # noqa: BLE001
        STATUS.setdefault("generator_errors", {})["Code"] = f"{type(ex).__name__}: {ex}"
    STATUS["changed"] = changed
    if status_path:
        with open(status_path, "w") as f:
            json.dump(STATUS, f, indent=1, sort_keys=True)
    bad = [k for k, v in STATUS["functions"].items() if not v["ok"]]
    print(f"tracer: {len(STATUS['functions'])} functions traced, {len(bad)} failed, changed={[k for k, v in changed.items() if v]}"
          + (f", GENERATOR ERRORS: {STATUS['generator_errors']}" if STATUS.get("generator_errors") else ""))
    for k in bad:
        print("  untraceable:", k, STATUS["functions"][k]["error"])
    return 0


if __name__ == "__main__":
    sys.exit(main(sys.argv[1], sys.argv[2] if len(sys.argv) > 2 else None))
