"""PyLean: a translator from a subset of Python (the AST of the *current* source in /repo) to Lean 4 definitions.

Tie A for control-flow code (DESIGN.md section 0.7).  The symbolic tracer (`tracer.py`) regenerates the leaf
*formulas*; this module regenerates *algorithms* - loops, state machines, stack machines - as Lean functions in
the exception monad `Py.M = Except Py.Err`, so that the hand-written models `Op.*` the property theorems talk about
are proved equal to what the source says now (`theorem code_*` in `Props/Cxx.lean`).

Compilation scheme (syntax-directed; nothing is "understood", nothing is optimised):

* the mutable locals of the function form one record `F.S` (types come from the profile; Python is untyped);
* a statement list is compiled in continuation-passing style to a term of type `Py.M F.S`;
  `if` joins through a let-bound continuation, `raise X(...)` is `.error <kind of X>`,
  `return e` stores `e` in the field `ret` and skips the continuation;
* `for x in it: body` becomes a structural recursion `F.loopK : List T -> F.S -> Py.M F.S`
  (`continue` / fall-through = the recursive call, `break` = `.ok s`);
* `while c: body` becomes `F.loopK : Nat -> F.S -> Py.M F.S` with a fuel argument (profile gives the bound;
  exhaustion is the error `.fuel`, which the tie theorem shows never happens);
* expressions are typed bottom-up from the profile; operations that can raise (`l[-1]`, `l.pop()`, `d[k]`,
  `float(s)`, attribute access on an optional) are compiled to monadic code that preserves Python's left-to-right
  evaluation and the short-circuit of `and` / `or`;
* names that resolve, in the module's global namespace, to `str` / `int` / `float` / `bool` constants
  (`Rule.IF`, tuple-unpacked `range(5)`, `2**i` generators) are evaluated at translation time and emitted as literals
  (the floats `nan`, `inf`, `-inf` are `X.nan`, `X.pinf`, `X.ninf`);
  a tuple assignment whose targets are all *declared locals* (`a, b, c = (0, 0, 0)`) is a sequence of ordinary
  assignments instead (the right-hand sides must not mention the targets);
* a `bool` operand of `+` / `-` / `*` next to a number is the number 0 / 1 (`n += x in l`): `Bool.toNat`;
* `with np.nditer(v, op_flags=[["readwrite"]]) as it: ... for x in it: body` is the in-place loop over the rows of
  the local list `v`: `x[...] = e` assigns the current row, every completed iteration writes the current row back,
  and `v` is the list of written rows after the loop.  The body must not mention `v` and must not `break`
  (then "the rows written so far" and "`v` with the first rows replaced" cannot be told apart);
* `o or d`, where the profile types `o` as `Option T` and `d` as `T`, is `o.getD d` (an optional object that has no
  `__bool__` / `__len__`: it is false only when it is `None`); every other `and` / `or` is a truth-value operation;
* `alias_locals` (`{"conjunction": "rule_block.conjunction"}`): a local that the patterns of the externals mention by
  name stands for that expression; its one assignment must have exactly this right-hand side (otherwise the externals
  would silently mean something else) and is not translated;
* everything else (method calls on library objects, dictionary lookups, NumPy) must be named by an *external*
  rule of the profile: a Python expression pattern with holes `_0, _1, ...` and a Lean template.  The externals are
  the vocabulary the model is written in; their meaning is part of the trusted base and is listed in the output.

Aliases (`alias_last` of a profile, e.g. `{"proposition": "conclusions"}`).  Python code that builds a list of
objects often keeps a second reference to the object it appended last and goes on mutating it
(`x = C(...); l.append(x); ...; x.attr = v; x.items.append(w)`).  The translated state has no heap, so the object
lives in the list only and `x` becomes a three-valued mark `Py.Alias`: `none` (`x = None`), `live` (x is the last
element of `l`) and `stale` (x is some object that need not be the last element any more).  The translator checks
*syntactically* that `x` is bound only by `x = None` or by the two consecutive statements `x = <call>; l.append(x)`,
that `l.append(x)` occurs only there, and that every other occurrence of `x` has the form `x.attr` (so no further
reference to the object is created).  The pair compiles to "append, x := live"; every other change of `l`
(`l.pop()`, `l.append(other)`, `l = ...`) compiles with `x := x.detach`; a read `x.attr` is
`Py.aliasLast σ.x σ.l >>= fun o => o.attr` (`AttributeError` for `none`, the non-Python error `.alias` for `stale`,
which the tie theorem shows never happens - like `.fuel`); `x.attr = v` / `x.attr.append(v)` replace the last
element (`Py.setLast`).  For a `Stack` the last element is the head (`Py.aliasTop`, `Py.setTop`).  Attribute types
come from `record_fields[(element type, attr)]`.  When the list holds a sum type and the object is one of its cases
the entry is `{"list": l, "type": record type, "embed": "(C {0})", "view": "(asC {0})"}` (`view : element -> Py.M record`).

`skip_stmts` lists call statements that are not translated at all (logging); their arguments are not looked at.

Two further small profile entries: `truthy` maps a Lean type to the template of the truth value of its Python
objects (classes that define `__len__` / `__bool__`; the default for `Option T` is `isSome`), and `none_init` lists
`for` targets whose declaration `x = None` before the loop is skipped (the translator checks that `x` is read only
inside that loop or inside `raise` statements, whose arguments are not translated).

Further constructs (added for `Op.increment`, `FldExporter.write_from_scope`, `construction_arguments`; their
run-time primitives are in `Base/PyList.lean`, which the `imports` of the generated file must contain):

* a local of type `Option Int` / `Option Nat` (a parameter `int | None`): `v is None`, `v is not None`; `==` / `!=`
  with a number compare as optionals (`None == 0` is `False`); in arithmetic, ordering and as an index it is
  dereferenced (`None < 0` is a `TypeError`, the error `.internal`);
* `l[i]` with an integer index (`Py.nthInt`: a negative index counts from the end, `IndexError` out of range),
  index assignment `l[i] = e` and `l[i] += e` on a list local (`Py.setNat` / `Py.setInt`; the local receives the
  updated list - Python mutates the object in place, see `inout` for the aliasing with the caller's list);
* a *self-recursive call* `r = F(args)` (profile: `self_call` = the call pattern with one hole per parameter,
  `rec_fuel` = bound on the recursion depth, `inout` = `{parameter: local}` for list parameters that the function
  mutates in place): the function becomes `F.rec : Nat -> params -> F.S -> Py.M F.S` (fuel exhausted = `.fuel`),
  the call runs `F.rec fuel args {}`, takes the returned value (every path must end in `return e`) and copies the
  callee's final list back into the caller's argument local for every `inout` parameter;
  `self_call_params` (optional) names the parameters the holes stand for, in order - the remaining parameters (the
  context the profile adds: an environment, `self.<attribute>`) are passed on unchanged.  A self-recursive call may
  also occur *inside an expression* (`return F(a)`, `g(F(a), F(b))`): it is the monadic term
  `F.rec fuel args {} >>= fun r => Py.deref r.ret`, its arguments are evaluated left to right and may raise (no `inout`
  parameters then).  A self-recursive function may contain `for` / `while` loops as long as no recursive call
  occurs inside a loop body (the loops are auxiliary definitions that come before `F.rec`);

  callee's final list back into the caller's argument local for every `inout` parameter; `rec_env` lists Lean
  parameters that are not parameters of the Python function (a setting the externals read): the call passes them
  on unchanged and has no hole for them; a call inside a `for` loop of the function runs the argument `self_rec`
  of the loop function, which `F.rec` instantiates with `F.rec fuel` (the loop functions are defined first);
  `iter_view` = `{type: (template, list type)}`: iterating over an object of that type iterates over the list;
* `a ** b` (natural exponent), `max(a, b)` / `min(a, b)` (integers: `max` / `min`; floats: `X.pymax` / `X.pymin`),
  list literals `[a, b]`, `[e] * n` (`List.replicate`), a list comprehension with one generator and a pure element
  (`List.map`; a comprehension variable that is a Lean keyword gets the suffix `_` like a declared local), a conditional expression whose branches are `Nat` and `Int` (coerced to `Int`), f-strings whose
  parts are strings, `+` on strings;
* a dictionary that is only built and iterated is a list of pairs in insertion order: a dictionary comprehension
  `{k: v for a, b in it if c}` is `List.map` after `List.filter`, `for a, b in d.items()` iterates over the list;
* a generator-based context manager `<enter statements>; try: yield; finally: <exit statements>` is translated as
  two functions (profile `part`: `"enter"` = the statements up to the `yield`, `"exit"` = the `finally` block, run
  on a record of the same locals: the state at the `yield` with whatever the `with` body did to the object).

Constructs added for `Function.Node.evaluate` / `Function.membership` / the FLD reader (profiles `funeval.py`):

* `type_params` (e.g. `["V"]`): the function is generic in these types (Python's `Scalar`: whatever the methods of
  the elements compute with).  The record becomes `F.S V` (`structure F.S (V : Type) [Inhabited V]`) and every
  definition takes `{V : Type} [Inhabited V]` first; nothing else changes;
* a self-recursive call in *expression* position (`f(node.evaluate(m))`, a method that calls itself on another
  object): the value of `F.rec fuel args {}` (no `inout` parameters there); an argument of type `Option T` for a
  parameter of type `T` is dereferenced (`None.evaluate` is an `AttributeError`).  `rec_fixed` names the Lean
  parameters that are not Python parameters (tables, meanings of externals): they have no hole in `self_call` and
  are passed on unchanged;
* `if x := e:` is `x = e` followed by `if x:`;
* `a or b` for two pure operands of the same type `Option T` (objects without `__bool__` / `__len__`): `a` unless it
  is `None`, else `b` (`Option.or`).

A `with` statement whose context manager has no effect on values or exceptions (profile `plain_with`: a list of
context-expression patterns, e.g. `warnings.catch_warnings()`, which only saves and restores the warning filters) and
has no `as` target is translated as its body (added for the integral defuzzifiers; calls inside the body that only
configure that context, such as `warnings.simplefilter("ignore")`, are named by `skip_stmts`).

State at a raise (`raise_state` of a profile; run-time primitives in `Base/PyRaise.lean`).  `Py.M S` drops the record
of the locals when an exception is raised.  For a function whose *effects before the raise* matter (a loader that must
leave its object unloaded when it fails; a loop that catches the exceptions of its callees and goes on) the profile sets
`"raise_state": True`: the function and its loops have the type `Except (Py.Err × S) S` (`Py.R S`) - an exception carries
the record as it is at the raise.  `raise X` is `.error (.X, σ)`; an expression that can raise is evaluated by
`Py.inState σ e` (expressions have no effect on the record); fuel exhaustion is `.error (.fuel, σ)`.  A statement
external whose third component is `"R"` gives a term of type `Py.R S` itself (a call of a method that mutates its object
and then raises: the object as the callee left it goes into the record; `Py.R.map` embeds an outcome on the object);
`False` is a `Py.M S` as before (lifted by `Py.inState σ`).  In this mode `try: <statements> except C [as x]: <handler>`
is translated for any statement list without `return` / `break` / `continue`: the handler runs on the record *at the
raise* (this is what makes the general form sound; without `raise_state` only the single pure-state assignment above is
accepted).  `C` is `Exception` (every Python exception: `Py.Err.isPython`, i.e. not the translator's own `.fuel` /
`.alias`), `SyntaxError`, `ValueError` or `RuntimeError` (the classes that map to one `Py.Err` each); `x` must be a
declared local of type `Py.Err` and receives the exception.  Not combined with `self_call`.  With `alias_last` the reads
and updates of the aliased object (`Py.aliasLast σ.x σ.l`, an expression) are evaluated by `Py.inState σ` like every other
expression that can raise: an `AttributeError` on `None` (or the translator's `.alias`) carries the record as it is there.
An in-place `np.nditer` loop needs nothing extra (its rows are written back by the recursive call of the loop function).

`bool(e)` is the truth value of `e` (as in a condition).

Pairs and optional strings (added for `FllImporter`):

* a tuple of two expressions `(a, b)` is the Lean pair `(a, b) : A × B` (evaluated left to right); `p[0]` / `p[1]` on an
  expression of a pair type are the projections; `a, b = e` where `e` has a pair type (a call of a function that
  returns a tuple) evaluates `e` once and assigns the components (`_` as a target discards its component);
* `==` / `!=` between a `String` and an `Option String` compare as optionals (`"x" == None` is `False`), like the
  numbers above; a conditional expression with one branch `None` has the optional type of the other branch;
* `return e` in a function whose declared result type `ret` is itself `Option T` (the Python function returns an object
  or `None`) stores `some e'` with `e' : Option T` (`return None` stores `some none`, so that "returned None" and
  "did not return" differ).

Constructs added for the import side of term parameters (`Term._parse`, `configure`, `Op.as_identifier`; profiles
`termparse.py`):

* a list comprehension with `if` clauses (pure conditions): the iterable is filtered first (`List.filter`), then mapped;
  a comprehension whose *element can raise* (`[to_float(x) for x in words]`) is `List.mapM` in `Py.M`: the elements are
  evaluated left to right and the first exception ends the comprehension; with `iter_view` for `String` a string is
  iterated by its characters;
* `t1, …, tn = e` for a list-valued `e` whose targets are declared locals or attributes kept as locals (`self.left` is the
  local `self_left`): `e` is evaluated, then unpacked - `ValueError` unless it has exactly `n` elements - and the targets
  are assigned (tried only when the right-hand side is not a translation-time constant, so older profiles are unaffected);
  (also `a, b = e` with two local targets and a list-valued `e` - `rules, threshold = parameters.split()` -, which the rule for
  pair-valued right-hand sides used to reject);
* `del l[-1]` on a list local is `l.pop()` without the value; `n % k` for a natural `n` and a positive literal `k`;
* `a or b` for two pure strings is the string `a` unless it is empty, else `b` (its truth value is `a != "" or b != ""`);
* in an external pattern a constant matches a constant of the *same type* only (`1.0` is not `1` and not `True`).

Added for `Linear.membership` / `Aggregated.highest_activated_term` (profiles `discrete.py`): `a in {b, c}` / `a not in
{b, c}` with a set display is membership in the list `[b, c]` (the elements are evaluated left to right after `a`);
`if (x := e) <op> c:` is `x = e` followed by `if x <op> c:` (the left operand of a comparison is evaluated first); the
elements of a list literal may raise (evaluated left to right); a function whose return type `ret` is itself an
optional (`Activated | None`) stores `some <the optional>` in the field `ret` (`none` = no `return` was executed).

Constructs added for the getters / look-ups of `Engine` and the range of `Variable` (profiles `engineio.py`):

* a generator expression that is consumed completely where it is written - the only argument of `tuple(...)` /
  `list(...)`, or a starred argument `f(*(e for x in l))` - is the list of its elements, like a list comprehension (one
  generator, pure element; any other generator expression stays outside the subset); `tuple(l)` / `list(l)` of a list is
  that list (the translated values are immutable);
* `try: return e` / `try: x = e` with the handler `except:` / `except Exception:` / `except BaseException:` (without
  `raise_state`): the handler runs for every Python exception of `e` (`Py.Err.isPython`; the translator's own `.fuel` /
  `.alias` pass through); `try: return e` stores the value in `ret` and leaves the function when `e` does not raise;
* `return e` inside a `for` / `while` body leaves the function: the loop ends like a `break` with the value in `ret`, and
  what follows the loop (also the rest of an enclosing loop body) runs only when `ret` is still `None`;
* a tuple of two pure expressions `a, b` is the pair `(a, b) : A × B`; `p[0]` / `p[1]` of a pair are its components; a
  tuple assignment `t1, t2 = p` from a pure pair that mentions neither target is `t1 = p[0]; t2 = p[1]`.

Constructs added for the Python representation (`Representation.repr_float` / `repr_ndarray`, profiles `pyexport.py`):

* `{e!r}` in an f-string is the built-in `repr(e)` (whatever the module itself binds the name `repr` to): it is compiled
  as the expression `builtins.repr(e)`, which an external of the profile must name (CPython's `repr(float)` is not modelled);
* profile `genexp_as_list`: a generator expression is translated like the list comprehension with the same parts.  This
  is right where the generator is consumed completely and at once at the place it is created (the argument of
  `str.join`, which first makes a list of it); the profile asserts that.  With this entry the element of a comprehension
  may raise: `[f(y) for y in l]` is `List.mapM` (elements evaluated left to right, the first exception ends it).

Two constructs added for `Activation.assert_is_not_vector` / `Threshold.Comparator.operator` (profiles `blockact.py`):

* `if (x := e) > 1:` - an `if` whose test evaluates an assignment expression *first* (the `x := e` is reached from the test
  through left operands only: `Compare.left`, `BinOp.left`, the first value of `and` / `or`, the operand of `not` / `-`)
  is `x = e` followed by the `if` with `x` in its place (nothing of the test is evaluated before `e`, and whatever reads
  `x` later in the test reads the new value in Python too);
* a translation-time constant that is a *dictionary* with string keys (a class-level table such as
  `Threshold.Comparator.__operator__`) is emitted as the literal list of its items in insertion order,
  `List (String × T)`; a value is a literal as above or one of the Python objects the profile names in `const_objects`
  (`(python expression, lean term, lean type)`: the value must be that very object - `is`); all values must have one type.
  What `d[k]` / `k in d` mean on such a list is an external of the profile as for any other dictionary.

Two more for `Engine.infer_type` / `Variable.highest_membership` (profiles `blockact.py`; primitive in `Base/PyAll.lean`):

* `all(e for v in l)` / `any(e for v in l)` (one generator, no condition, `l` a pure list): `List.all` / `List.any` of
  the truth value of `e` when `e` cannot raise; otherwise `Py.allM` / `Py.anyM`, which evaluate the elements in order and
  stop at the first false (true) one as Python does - an element behind it is not evaluated and cannot raise;
* `with contextlib.suppress(C): <statements>` is `try: <statements> except C: pass` (the forms of `try` above).

Two entries added for `Operation.str` (profiles `raised.py`):

* `self_call_defaults` (a list of parameter names): a recursive call in expression position that has no hole for such a
  parameter (`Op.str(x_i)` inside `str(x, delimiter=" ")`) passes the *default value read from the signature in the
  source*, as Python does - not the caller's value, which is what a parameter without a hole otherwise receives;
* `return_view` (`{type: template}`): `return e` where `e` is an object of a sum type of the profile and the function
  returns `ret` (`if isinstance(x, str): return x` in a function that returns a string): the template gives the `ret`
  value that the object is (the case has been established by the preceding test; what the template yields for the
  other cases is never looked at by a tie theorem that holds for every object).

Added for `WeightedDefuzzifier.infer_type` (profiles `wave5x.py`; primitive in `Base/PySet.lean`): a set comprehension
`{e for x in l}` is the list of the *distinct* values of the list comprehension with the same parts, in the order of their
first occurrence (`Py.distinct`; the element may raise or be a recursive call, exactly as in a list comprehension).  A set
kept this way is faithful for what does not depend on the iteration order of a Python set - `len`, truth value, `in`;
every other use of it (iteration, `s.pop()`) must be named by an external of the profile, which has to say what it means.

Sets of strings and sorting (added for `Function.format_infix`, profiles `wave5z.py`; run-time primitives in
`Base/PySet.lean`, which the `imports` of the generated file must contain).  A Python `set` is kept as a list without
repetitions whose *order means nothing* (type `Py.SetOf T`); it can only be built and consumed by operations whose result
does not depend on the iteration order of the set:

* `set(l)` for a list `l` is `Py.SetOf.ofList l` (repetitions removed); `s.union(t)` is `Py.SetOf.union s t` and `s - t`
  (also `s -= t`) is `Py.SetOf.diff s t`, where `t` is a set or a list (a set display of constants is the list of its
  elements, as before);
* `sorted(s)` / `sorted(s, reverse=True)` of a set or list of *strings* is `Py.sortedAsc` / `Py.sortedDesc`: strings
  compare by code points, lexicographically, in Python and in Lean alike (equal elements are equal strings, so the
  stability of Python's sort has nothing to observe);
* `from .m import N` inside the function binds `N` for the translation-time constants (`Rule.AND`), like a name of the
  module's namespace;
* the parts of an f-string may raise (`f"{node.value()} {children[0]}"`): they are evaluated left to right, the first
  exception ends the evaluation, then the texts are concatenated; a recursive call
  in expression position may pass an object for a parameter `T | None` (`self.prefix(self)`: the argument is `some self`);
* a `Py.SetOf` is not iterable in the subset (no `for`, no comprehension over it: the order would be observable).

Defaults of the signature (added for the constructors, profiles `wave5y.py`): with `emit_defaults: True` the
definitions `F.dflt_<parameter> : <type of the parameter in the profile>` follow `F.run`, one for every Python parameter
that the profile lists in `params` and that has a default value in the signature of the live function (the module is
imported from the current source; the value is a `""`, `True`, `1.0`, `nan`, `-inf`, `None`, an `enum` member named by `const_objects`).  They are
what a call that omits the argument passes (`Antecedent()` is `Antecedent_init.run Antecedent_init.dflt_text {}`), so a
changed default changes the generated file.  A `None` default of an optional parameter is `none`; a float default of a
parameter of type `X Rat` / `Num` is written with the constructor names both types share (`.nan`, `.pinf`, `.fin 1`).
A parameter with a default of another kind makes the function untranslatable (nothing is skipped).
Also added there: `o or d` for an optional object `o` (no `__bool__` / `__len__`) and a default `d` that can raise / is a
translated call (`antecedent or Antecedent()`): `d` is evaluated only when `o` is `None`.

Two list forms added for the getter of `Engine.output_values` (profiles `engineio.py`): a list display whose elements
are all unpacked lists of one type, `[*a, *b]`, is `a ++ b` (the lists are evaluated left to right); `l[k:]` with a natural
lower bound and nothing else in the slice is `List.drop k l` (`l` is evaluated before `k`; a bound beyond the end gives
the empty list in Python and in Lean alike).

Anything outside the subset raises `Untranslatable` - the tie is then reported as broken (never silently skipped).
"""
from __future__ import annotations

import ast
import importlib
import inspect
import re
import textwrap


class Untranslatable(Exception):
    pass


ERR = {"SyntaxError": "syntax", "ValueError": "value", "KeyError": "lookup", "IndexError": "lookup",
       "RuntimeError": "runtime", "TypeError": "internal", "AttributeError": "internal"}


def lean_str(s):
    out = []
    for ch in s:
        if ch == '"':
            out.append('\\"')
        elif ch == "\\":
            out.append("\\\\")
        elif ch == "\n":
            out.append("\\n")
        elif ch == "\t":
            out.append("\\t")
        else:
            out.append(ch)
    return '"' + "".join(out) + '"'


def elem_type(t):
    m = re.fullmatch(r"(?:List|Stack) (.+)", t)
    if not m:
        raise Untranslatable(f"not a list type: {t}")
    e = m.group(1)
    if e.startswith("(") and e.endswith(")"):
        e = e[1:-1]
    return e


def pair_types(t):
    """(A, B) when `t` is the product type `A × B` (split at the top level), else None"""
    d, cuts = 0, []
    for i, ch in enumerate(t):
        if ch in "([":
            d += 1
        elif ch in ")]":
            d -= 1
        elif ch == "×" and d == 0:
            cuts.append(i)
    if len(cuts) != 1 or "→" in t:
        return None
    a, b = t[:cuts[0]].strip(), t[cuts[0] + 1:].strip()
    unp = lambda x: x[1:-1] if x.startswith("(") and x.endswith(")") and balanced(x[1:-1]) else x
    return unp(a), unp(b)


def paren(s):
    s = s.strip()
    if re.fullmatch(r"[\w.σ']+", s) or (s.startswith("(") and s.endswith(")") and balanced(s[1:-1])) or (s.startswith('"') and s.endswith('"') and '"' not in s[1:-1]):
        return s
    if s.startswith("[") and s.endswith("]") and balanced(s[1:-1]):
        return s
    return "(" + s + ")"


def balanced(s):
    d = 0
    for ch in s:
        if ch in "([":
            d += 1
        elif ch in ")]":
            d -= 1
            if d < 0:
                return False
    return d == 0


LEAN_RESERVED = {"prec", "postfix", "prefix", "infix", "infixl", "infixr", "end", "at", "from", "to", "by", "do", "then", "else", "if",
                 "let", "have", "show", "fun", "match", "with", "in", "open", "section", "namespace", "variable", "variables", "def",
                 "theorem", "instance", "structure", "class", "where", "deriving", "local", "import", "mutual", "private",
                 "protected", "notation", "macro", "syntax", "elab", "term", "Type", "Prop", "Sort", "true", "false", "some",
                 "none", "id", "max", "min", "set", "bind", "pure"}


def mangle(n):
    return n + "_" if n in LEAN_RESERVED else n


class E:
    """a compiled expression: Lean term, Lean type, and whether it is pure (type T) or monadic (type Py.M T)"""

    def __init__(self, term, ty, pure=True):
        self.term, self.ty, self.pure = term, ty, pure

    def m(self):
        return self.term if not self.pure else f"(.ok {paren(self.term)})"


def match_pattern(pat, node, binds):
    if isinstance(pat, ast.Name) and re.fullmatch(r"_\d+", pat.id):
        k = int(pat.id[1:])
        if k in binds:
            return ast.dump(binds[k]) == ast.dump(node)
        binds[k] = node
        return True
    if type(pat) is not type(node):
        return False
    for f in pat._fields:
        if f == "ctx":
            continue
        a, b = getattr(pat, f, None), getattr(node, f, None)
        if isinstance(a, list):
            if not isinstance(b, list) or len(a) != len(b):
                return False
            for x, y in zip(a, b):
                if isinstance(x, ast.AST):
                    if not match_pattern(x, y, binds):
                        return False
                elif x != y:
                    return False
        elif isinstance(a, ast.AST):
            if not isinstance(b, ast.AST) or not match_pattern(a, b, binds):
                return False
        elif a != b or type(a) is not type(b):      # (the constants `1`, `1.0` and `True` are different patterns)
            return False
    return True


class Fn:
    """one translated function"""

    def __init__(self, profile, obj, glob):
        self.p = profile
        self.obj = obj
        self.name = profile["name"]
        self.glob = dict(glob)
        self.consts = {}          # local names bound to translation-time constants
        self.locals = {mangle(k): v for k, v in profile.get("locals", {}).items()}
        self.params = [(mangle(n), t) for n, t in profile.get("params", [])]
        self.ptypes = dict(self.params)
        self.ext = [(ast.parse(x[0], mode="eval").body, x[1], x[2], x[3], (x[4] if len(x) > 4 else None)) for x in profile.get("externals", [])]
        self.rebound = {}
        self.sext = []
        for x in profile.get("stmt_externals", []):
            self.sext.append((ast.parse(x[0]).body[0], x[1], x[2], (x[3] if len(x) > 3 else None)))
        self.skip = [ast.parse(p, mode="eval").body for p in profile.get("skip_if", ["settings.debugging"])]
        self.skips = [ast.parse(p, mode="eval").body for p in profile.get("skip_stmts", [])]
        self.aux = []             # auxiliary loop definitions (text), in dependency order
        self.nloop = 0
        self.used_ext = []
        src = inspect.getsource(obj)
        try:
            self.fdef = ast.parse(textwrap.dedent(src)).body[0]
        except IndentationError:
            # a method whose body contains a multi-line string literal with lines at column 0 cannot be dedented:
            # parse it where it stands, inside a block
            self.fdef = ast.parse("if True:\n" + src).body[0].body[0]
        if not isinstance(self.fdef, ast.FunctionDef):
            raise Untranslatable("not a function definition")
        declared = set(profile.get("locals", {})) | {n for n, _ in profile.get("params", [])}
        for n in ast.walk(self.fdef):
            if isinstance(n, ast.Name) and n.id in declared and n.id in LEAN_RESERVED:
                n.id = mangle(n.id)
        self.selfcall = ast.parse(profile["self_call"], mode="eval").body if profile.get("self_call") else None
        self.ret_ty = profile.get("ret")
        if self.ret_ty:
            self.locals["ret"] = f"Option {paren(self.ret_ty)}"
        self.alias = {}                                          # alias local -> list local
        self.alias_view = {}                                     # alias local -> (record type, embed template, view template)
        for x, spec in profile.get("alias_last", {}).items():
            if isinstance(spec, dict):
                self.alias[x] = spec["list"]
                self.alias_view[x] = (spec["type"], spec["embed"], spec["view"])
            else:
                self.alias[x] = spec
        self.alias_pairs = set()                                 # id() of the `l.append(x)` statements of the pairs
        for x, lst in self.alias.items():
            if lst not in self.locals or not re.match(r"(List|Stack) ", self.locals[lst]):
                raise Untranslatable(f"alias_last: '{lst}' is not a declared list")
            if x in self.ptypes or self.locals.get(x, "Py.Alias") != "Py.Alias":
                raise Untranslatable(f"alias_last: '{x}' is declared otherwise")
            self.locals[x] = "Py.Alias"
            self.check_alias(x, lst)
        self.check_none_init()
        # generator expressions that are consumed completely where they are written (see the module docstring)
        self.genexp_ok = set()
        for n in ast.walk(self.fdef):
            if (isinstance(n, ast.Call) and isinstance(n.func, ast.Name) and n.func.id in ("tuple", "list") and len(n.args) == 1
                    and not n.keywords and isinstance(n.args[0], ast.GeneratorExp)):
                self.genexp_ok.add(id(n.args[0]))
            if isinstance(n, ast.Starred) and isinstance(n.value, ast.GeneratorExp):
                self.genexp_ok.add(id(n.value))
        self.rs = bool(profile.get("raise_state"))
        if self.rs and profile.get("self_call"):
            raise Untranslatable("raise_state cannot be combined with self_call")

    # ---------------------------------------------------------------- state at a raise (`raise_state`)
    def lift(self, term):
        """an expression-level `Py.M T` used by a statement: with `raise_state` its exception carries the record"""
        return f"Py.inState σ {paren(term)}" if self.rs else term

    def mty(self):
        return f"Except (Py.Err × {self.name}.S) {self.name}.S" if self.rs else f"Py.M {self.name}.S"

    def err(self, kind):
        return f".error (.{kind}, σ)" if self.rs else f".error .{kind}"

    # ---------------------------------------------------------------- aliases of the last element of a list
    def check_alias(self, x, lst):
        """the syntactic conditions under which `x` may be treated as an alias of the last element of `lst`"""
        allowed = set()

        def is_pair_append(s):
            return (isinstance(s, ast.Expr) and isinstance(s.value, ast.Call) and isinstance(s.value.func, ast.Attribute)
                    and s.value.func.attr == "append" and isinstance(s.value.func.value, ast.Name) and s.value.func.value.id == lst
                    and len(s.value.args) == 1 and not s.value.keywords and isinstance(s.value.args[0], ast.Name) and s.value.args[0].id == x)

        for node in ast.walk(self.fdef):
            for fld in ("body", "orelse", "finalbody"):
                block = getattr(node, fld, None)
                if not isinstance(block, list):
                    continue
                for i, s in enumerate(block):
                    tgt = s.targets[0] if isinstance(s, ast.Assign) and len(s.targets) == 1 else (s.target if isinstance(s, ast.AnnAssign) else None)
                    if isinstance(tgt, ast.Name) and tgt.id == x:
                        if isinstance(s.value, ast.Constant) and s.value.value is None:
                            allowed.add(id(tgt))
                        elif isinstance(s.value, ast.Call) and i + 1 < len(block) and is_pair_append(block[i + 1]):
                            allowed.add(id(tgt))
                            allowed.add(id(block[i + 1].value.args[0]))
                            self.alias_pairs.add(id(block[i + 1]))
                        else:
                            raise Untranslatable(f"alias_last: '{x}' is bound by `{ast.unparse(s)[:50]}`, not by `{x} = None` or `{x} = C(...); {lst}.append({x})`")
            if isinstance(node, ast.Attribute) and isinstance(node.value, ast.Name) and node.value.id == x:
                allowed.add(id(node.value))
        for node in ast.walk(self.fdef):
            if isinstance(node, ast.Name) and node.id == x and id(node) not in allowed:
                raise Untranslatable(f"alias_last: '{x}' is used other than as `{x}.attr` (line {getattr(node, 'lineno', '?')} of the function)")
            if isinstance(node, ast.arg) and node.arg == x:
                raise Untranslatable(f"alias_last: '{x}' is a parameter")

    def alias_of_list(self, lst):
        return [x for x, l in self.alias.items() if l == lst]

    def detach(self, lst):
        """the extra field updates when the list `lst` changes other than by an alias pair"""
        return "".join(f", {x} := σ.{x}.detach" for x in self.alias_of_list(lst))

    def alias_type(self, x):
        """the record type of the object behind x: the element type of the list, or the `type` of a view"""
        return self.alias_view[x][0] if x in self.alias_view else elem_type(self.locals[self.alias[x]])

    def alias_get(self, x):
        lst = self.alias[x]
        prim = "Py.aliasTop" if self.locals[lst].startswith("Stack ") else "Py.aliasLast"
        if x in self.alias_view:
            return f"({prim} σ.{x} σ.{lst} >>= fun o => {self.alias_view[x][2].format('o')})"
        return f"{prim} σ.{x} σ.{lst}"

    def alias_field(self, x, attr):
        ety = self.alias_type(x)
        fty = self.p.get("record_fields", {}).get((ety, attr))
        if fty is None:
            raise Untranslatable(f"alias_last: no record_fields entry for ({ety}, {attr})")
        return mangle(attr), fty

    def alias_set(self, x, upd):
        """`let σ := …` that replaces the last element of the list by `upd` (a term that may mention `o`, the old one)"""
        lst = self.alias[x]
        prim = "Py.setTop" if self.locals[lst].startswith("Stack ") else "Py.setLast"
        if x in self.alias_view:
            upd = self.alias_view[x][1].format(upd)
        return f"let σ := {{ σ with {lst} := {prim} σ.{lst} {upd} }}"

    def check_none_init(self):
        for x in self.p.get("none_init", []):
            loops = [n for n in ast.walk(self.fdef) if isinstance(n, ast.For) and isinstance(n.target, ast.Name) and n.target.id == x]
            if len(loops) != 1:
                raise Untranslatable(f"none_init: '{x}' is not the target of exactly one for loop")
            inside = {id(n) for st in loops[0].body for n in ast.walk(st)}
            for r in ast.walk(self.fdef):
                if isinstance(r, ast.Raise):
                    inside |= {id(n) for n in ast.walk(r)}
            for n in ast.walk(self.fdef):
                if isinstance(n, ast.Name) and n.id == x and isinstance(n.ctx, ast.Load) and id(n) not in inside:
                    raise Untranslatable(f"none_init: '{x}' is read outside its loop")

    # ---------------------------------------------------------------- constants
    def const_of(self, node):
        """value of a translation-time constant expression, or raise KeyError"""
        env = dict(self.glob)
        env.update(self.consts)
        for sub in ast.walk(node):
            # a part that the profile names by an external (`settings.alias`: the state of a mutable object) is not a constant
            if isinstance(sub, ast.expr) and any(match_pattern(pat, sub, {}) for pat, *_ in self.ext):
                raise KeyError("external")
        bound = {n.id for c in ast.walk(node) if isinstance(c, ast.comprehension) for n in ast.walk(c.target) if isinstance(n, ast.Name)}
        names = {n.id for n in ast.walk(node) if isinstance(n, ast.Name)} - bound
        for n in names:
            if n in self.locals or n in self.ptypes or n == "self":
                raise KeyError(n)
            if n not in env and n not in __builtins__.__dict__ if hasattr(__builtins__, "__dict__") else n not in env and n not in __builtins__:
                raise KeyError(n)
        for n in ast.walk(node):
            if isinstance(n, (ast.Call,)) and not (isinstance(n.func, ast.Name) and n.func.id in ("range", "tuple", "list", "len", "int", "float", "str")):
                raise KeyError("call")
        try:
            v = eval(compile(ast.Expression(node), "<const>", "eval"), {"__builtins__": {"range": range, "tuple": tuple, "list": list, "len": len, "int": int, "float": float, "str": str}}, env)
        except Exception as ex:  # noqa: BLE001
            raise KeyError(str(ex)) from ex
        return v

    def lit(self, v):
        if isinstance(v, bool):
            return E("true" if v else "false", "Bool")
        if isinstance(v, int):
            return E(str(v) if v >= 0 else f"({v})", "Nat" if v >= 0 else "Int")
        if isinstance(v, str):
            return E(lean_str(v), "String")
        if isinstance(v, float):
            if v != v or v in (float("inf"), float("-inf")):
                return E("X.nan" if v != v else ("X.pinf" if v > 0 else "X.ninf"), "X Rat")
            if v == int(v) and abs(v) < 2**53:
                return E(f"(.fin {int(v)})" if v >= 0 else f"(.fin ({int(v)}))", "X Rat")
            n, d = v.as_integer_ratio()
            return E(f"(.fin (({n} : Rat) / {d}))", "X Rat")
        if v is None:
            return E("none", "Option _")
        if isinstance(v, (list, tuple)) and len(v) == 0:
            return E("[]", "List _")
        if isinstance(v, (set, frozenset, list, tuple)) and all(isinstance(x, str) for x in v):
            return E("[" + ", ".join(lean_str(x) for x in sorted(v) if True) + "]", "List String")
        if isinstance(v, dict) and v and all(isinstance(x, str) for x in v):
            # a table with string keys: the list of its items in insertion order
            items = [(key, self.const_object(x)) for key, x in v.items()]
            tys = {x.ty for _, x in items}
            if len(tys) != 1:
                raise Untranslatable(f"dictionary constant with values of types {sorted(tys)}")
            ty = tys.pop()
            return E("[" + ", ".join(f"({lean_str(key)}, {x.term})" for key, x in items) + "]", f"List (String × {paren(ty)})")
        raise Untranslatable(f"constant of type {type(v).__name__}")

    def const_object(self, v):
        """a value inside a constant table: a literal, or one of the objects named by `const_objects` of the profile"""
        if v is None or isinstance(v, (bool, int, float, str)):
            return self.lit(v)
        for expr, term, ty in self.p.get("const_objects", []):
            try:
                obj = eval(expr, dict(self.glob))  # noqa: S307  (profile text, evaluated in the module's namespace)
            except Exception:  # noqa: BLE001
                continue
            if obj is v:
                desc = (expr, term, ty)
                if desc not in self.used_ext:
                    self.used_ext.append(desc)
                return E(term, ty)
        raise Untranslatable(f"constant object {v!r} is not named by `const_objects`")

    # ---------------------------------------------------------------- expressions
    def var(self, name):
        if name in getattr(self, "bound", {}):
            return E(*self.bound[name])
        name = self.rebound.get(name, name)
        if name in self.consts:
            return self.lit(self.consts[name])
        if name in self.locals:
            return E(f"σ.{name}", self.locals[name])
        if name in self.ptypes:
            return E(name, self.ptypes[name])
        raise Untranslatable(f"unknown name '{name}' (not a declared local, parameter or constant)")

    def bind2(self, a, b, f, ty):
        """combine two compiled expressions left to right"""
        if a.pure and b.pure:
            return E(f(a.term, b.term), ty)
        if a.pure:
            return E(f"({b.term} >>= fun v2 => .ok {paren(f(a.term, 'v2'))})", ty, False)
        if b.pure:
            return E(f"({a.term} >>= fun v1 => .ok {paren(f('v1', b.term))})", ty, False)
        return E(f"({a.term} >>= fun v1 => {b.term} >>= fun v2 => .ok {paren(f('v1', 'v2'))})", ty, False)

    def bind1(self, a, f, ty, partial=False):
        """f gives a pure term (partial=False) or a monadic one (partial=True)"""
        if a.pure:
            return E(f(a.term), ty, not partial)
        if partial:
            return E(f"({a.term} >>= fun v1 => {f('v1')})", ty, False)
        return E(f"({a.term} >>= fun v1 => .ok {paren(f('v1'))})", ty, False)

    def truthy(self, e):
        t = e.ty
        if t in self.p.get("truthy", {}):
            tmpl = self.p["truthy"][t]
            return self.bind1(e, lambda x: tmpl.format(paren(x)), "Bool")
        if t == "Bool":
            return e
        if t in ("Nat", "Int"):
            return self.bind1(e, lambda x: f"({x} != 0)", "Bool")
        if t == "String":
            return self.bind1(e, lambda x: f'({x} != "")', "Bool")
        if t.startswith("List ") or t.startswith("Stack "):
            return self.bind1(e, lambda x: f"(!({x}).isEmpty)", "Bool")
        if t.startswith("Option "):
            return self.bind1(e, lambda x: f"({x}).isSome", "Bool")
        raise Untranslatable(f"truth value of type {t}")

    def try_external(self, node):
        for pat, tmpl, ty, pure, argtys in self.ext:
            binds = {}
            if match_pattern(pat, node, binds):
                try:
                    args = [self.ce(binds[k]) for k in sorted(binds)]
                except Untranslatable:
                    continue
                if argtys is not None:
                    ok = True
                    for i, (a, want) in enumerate(zip(args, argtys)):
                        if want is None or a.ty == want or "_" in a.ty:
                            continue
                        if a.ty == f"Option {paren(want)}" or a.ty == f"Option {want}":
                            # the code dereferences an optional: `None.attr` is an AttributeError
                            args[i] = self.bind1(a, lambda x: f"(Py.deref {x})", want, partial=True)
                            continue
                        ok = False
                    if not ok:
                        continue
                desc = (ast.unparse(pat), tmpl, ty)
                if desc not in self.used_ext:
                    self.used_ext.append(desc)
                if all(a.pure for a in args):
                    return E(tmpl.format(*[paren(a.term) for a in args]), ty, pure)
                # evaluate impure arguments left to right
                names = [f"a{i}" for i in range(len(args))]
                body = tmpl.format(*names)
                body = body if not pure else f".ok {paren(body)}"
                for nm, a in reversed(list(zip(names, args))):
                    body = f"({a.m()} >>= fun {nm} => {body})"
                return E(body, ty, False)
        return None

    def try_stmt_external(self, stmt):
        for pat, tmpl, pure, argtys in self.sext:
            binds = {}
            if not match_pattern(pat, stmt, binds):
                continue
            try:
                args = [self.ce(binds[k]) for k in sorted(binds)]
            except Untranslatable:
                continue
            if argtys is not None and any(w is not None and a.ty != w for a, w in zip(args, argtys)):
                continue
            desc = (ast.unparse(pat), tmpl, "statement")
            if desc not in self.used_ext:
                self.used_ext.append(desc)
            if all(a.pure for a in args):
                return tmpl.format(*[paren(a.term) for a in args]), pure
            if pure == "R":
                raise Untranslatable(f"statement external of type Py.R with an argument that can raise: {ast.unparse(stmt)[:50]}")
            names = [f"a{i}" for i in range(len(args))]
            body = tmpl.format(*names)
            body = body if not pure else f".ok {paren(body)}"
            for nm, a in reversed(list(zip(names, args))):
                body = f"({a.m()} >>= fun {nm} => {body})"
            return body, False
        return None

    def ce(self, node):  # noqa: C901
        ext = self.try_external(node)
        if ext is not None:
            return ext
        binds = {}
        if self.selfcall is not None and match_pattern(self.selfcall, node, binds):
            return self.self_call_expr([binds[k] for k in sorted(binds)])
        try:
            return self.lit(self.const_of(node))
        except KeyError:
            pass
        except Untranslatable:
            if isinstance(node, (ast.Constant, ast.Name)):
                raise
        if isinstance(node, ast.Constant):
            return self.lit(node.value)
        if isinstance(node, ast.Name):
            return self.var(node.id)
        binds = {}
        if self.selfcall is not None and match_pattern(self.selfcall, node, binds):
            return self.self_call_expr([binds[k] for k in sorted(binds)])
        if isinstance(node, ast.BoolOp):
            vals = [self.ce(v) for v in node.values]
            if (isinstance(node.op, ast.Or) and len(vals) == 2 and vals[0].ty == vals[1].ty and vals[0].ty.startswith("Option ")
                    and vals[0].ty not in self.p.get("truthy", {}) and vals[0].pure and vals[1].pure):
                # two optional objects without `__bool__` / `__len__`: the first unless it is None
                return E(f"(({vals[0].term}).or {paren(vals[1].term)})", vals[0].ty)
            if isinstance(node.op, ast.Or) and len(vals) == 2 and vals[0].ty in (f"Option {vals[1].ty}", f"Option {paren(vals[1].ty)}") and vals[1].pure:
                # `o or default` for an optional object without `__bool__` / `__len__`: the object, or the default for None
                return self.bind1(vals[0], lambda x: f"(({x}).getD {paren(vals[1].term)})", vals[1].ty)
            if (isinstance(node.op, ast.Or) and len(vals) == 2 and vals[0].ty in (f"Option {vals[1].ty}", f"Option {paren(vals[1].ty)}")
                    and vals[0].pure and not vals[1].pure and vals[0].ty not in self.p.get("truthy", {})):
                # `o or C()` where the default is *computed* (a constructor call that the profile translates): it is evaluated
                # only when `o` is None (short circuit)
                return E(f"(match {vals[0].term} with | some x => .ok x | none => {vals[1].term})", vals[1].ty, False)
            if isinstance(node.op, ast.Or) and len(vals) == 2 and vals[0].ty == vals[1].ty == "String" and vals[0].pure and vals[1].pure:
                # `a or b` for two strings: `a` unless it is empty (its truth value is that of `a != "" or b != ""`)
                return E(f"(if {paren(vals[0].term)} != \"\" then {vals[0].term} else {vals[1].term})", "String")
            tys = {v.ty for v in vals}
            if tys != {"Bool"}:
                vals = [self.truthy(v) for v in vals]  # only used in boolean positions (checked by callers)
            acc = vals[-1]
            for v in reversed(vals[:-1]):
                if isinstance(node.op, ast.And):
                    if v.pure and acc.pure:
                        acc = E(f"({v.term} && {acc.term})", "Bool")
                    elif v.pure:
                        acc = E(f"(if {v.term} then {acc.term} else .ok false)", "Bool", False)
                    else:
                        acc = E(f"({v.term} >>= fun c => if c then {acc.m()} else .ok false)", "Bool", False)
                else:
                    if v.pure and acc.pure:
                        acc = E(f"({v.term} || {acc.term})", "Bool")
                    elif v.pure:
                        acc = E(f"(if {v.term} then .ok true else {acc.term})", "Bool", False)
                    else:
                        acc = E(f"({v.term} >>= fun c => if c then .ok true else {acc.m()})", "Bool", False)
            return acc
        if isinstance(node, ast.UnaryOp):
            if isinstance(node.op, ast.Not):
                return self.bind1(self.truthy(self.ce(node.operand)), lambda x: f"(!{x})", "Bool")
            if isinstance(node.op, ast.USub):
                e = self.ce(node.operand)
                if e.ty == "X Rat":
                    return self.bind1(e, lambda x: f"(X.neg {x})", "X Rat")
                return self.bind1(e, lambda x: f"(-({x} : Int))", "Int")
        if isinstance(node, ast.Compare):
            if len(node.ops) != 1:
                raise Untranslatable("chained comparison")
            if isinstance(node.ops[0], (ast.Is, ast.IsNot)):
                c = node.comparators[0]
                l = self.ce(node.left)
                if not (isinstance(c, ast.Constant) and c.value is None and l.ty.startswith("Option ")):
                    raise Untranslatable(f"'is' other than `<optional> is None`: {ast.unparse(node)}")
                return self.bind1(l, lambda x: (f"({x}).isNone" if isinstance(node.ops[0], ast.Is) else f"({x}).isSome"), "Bool")
            cmp0 = node.comparators[0]
            if isinstance(node.ops[0], (ast.In, ast.NotIn)) and isinstance(cmp0, ast.Set):
                # `a in {b, c}`: membership in a set display is membership in the list of its elements
                cmp0 = ast.List(elts=cmp0.elts, ctx=ast.Load())
            op, l, r = node.ops[0], self.ce(node.left), self.ce(cmp0)
            optn = ("Option Int", "Option Nat", "Option String")
            if isinstance(op, (ast.Eq, ast.NotEq)) and (l.ty in optn) != (r.ty in optn) and (l.ty in ("Nat", "Int", "String") or r.ty in ("Nat", "Int", "String")):
                # `None == 0` is False (no exception): compare as optionals
                o, n = (l, r) if l.ty in optn else (r, l)
                n = self.toInt(n) if o.ty == "Option Int" else n
                if n.ty != o.ty[len("Option "):]:
                    raise Untranslatable(f"comparison of {l.ty} with {r.ty}: {ast.unparse(node)}")
                n = self.bind1(n, lambda x: f"(some {x})", o.ty)
                l, r = (o, n) if l.ty in optn else (n, o)
            elif isinstance(op, (ast.Lt, ast.LtE, ast.Gt, ast.GtE)):
                l, r = self.num(l), self.num(r)
            if isinstance(op, (ast.In, ast.NotIn)):
                neg = isinstance(op, ast.NotIn)
                if r.ty.startswith("List "):
                    return self.bind2(l, r, lambda a, b: (f"(!({b}).contains {a})" if neg else f"(({b}).contains {a})"), "Bool")
                raise Untranslatable(f"'in' on type {r.ty}")
            if l.ty == "X Rat" or r.ty == "X Rat":
                f = {ast.Lt: "X.lt {0} {1}", ast.LtE: "X.le {0} {1}", ast.Gt: "X.lt {1} {0}", ast.GtE: "X.le {1} {0}", ast.Eq: "X.eq {0} {1}", ast.NotEq: "X.ne {0} {1}"}[type(op)]
                return self.bind2(self.toX(l), self.toX(r), lambda a, b: "(" + f.format(paren(a), paren(b)) + ")", "Bool")
            num = l.ty in ("Nat", "Int") and r.ty in ("Nat", "Int")
            if num and l.ty != r.ty:
                l, r = self.toInt(l), self.toInt(r)
            if not num and l.ty != r.ty and "_" not in l.ty + r.ty:
                raise Untranslatable(f"comparison of {l.ty} with {r.ty}: {ast.unparse(node)}")
            sym = {ast.Eq: "==", ast.NotEq: "!="}.get(type(op))
            if sym:
                return self.bind2(l, r, lambda a, b: f"({a} {sym} {b})", "Bool")
            if not num:
                raise Untranslatable(f"ordering on {l.ty}")
            sym = {ast.Lt: "<", ast.LtE: "≤", ast.Gt: ">", ast.GtE: "≥"}[type(op)]
            return self.bind2(l, r, lambda a, b: f"(decide ({a} {sym} {b}))", "Bool")
        if isinstance(node, ast.BinOp):
            if isinstance(node.op, ast.Mult) and isinstance(node.left, ast.List) and len(node.left.elts) == 1:
                x, n = self.ce(node.left.elts[0]), self.num(self.ce(node.right))
                if n.ty == "Nat":
                    return self.bind2(x, n, lambda a, b: f"(List.replicate {b} {a})", f"List {paren(x.ty)}")
            l, r = self.num(self.ce(node.left)), self.num(self.ce(node.right))
            if isinstance(node.op, ast.Sub) and l.ty.startswith("Py.SetOf ") and r.ty in (l.ty, "List " + l.ty[len("Py.SetOf "):]):
                # `s - t` on sets (the right operand a set or the list of a set display)
                return self.bind2(l, r, lambda a, b: f"(Py.SetOf.diff {paren(a)} {paren(b)})", l.ty)
            if isinstance(node.op, (ast.Add, ast.Sub, ast.Mult)) and {l.ty, r.ty} & {"Nat", "Int", "X Rat"}:
                # Python's bool is an int: a truth value next to a number counts 0 / 1
                if l.ty == "Bool":
                    l = self.bind1(l, lambda x: f"({x}).toNat", "Nat")
                if r.ty == "Bool":
                    r = self.bind1(r, lambda x: f"({x}).toNat", "Nat")
            if isinstance(node.op, ast.Pow) and l.ty in ("Nat", "Int") and r.ty == "Nat":
                ty = l.ty
                return self.bind2(l, r, lambda a, b: f"({a} ^ {b})", ty)
            if isinstance(node.op, ast.Add) and l.ty == r.ty == "String":
                return self.bind2(l, r, lambda a, b: f"({a} ++ {b})", "String")
            if (isinstance(node.op, ast.Mod) and l.ty == r.ty == "Nat" and isinstance(node.right, ast.Constant)
                    and isinstance(node.right.value, int) and node.right.value > 0):
                # `n % k` for a natural n and a positive literal k (no ZeroDivisionError, no negative operand)
                return self.bind2(l, r, lambda a, b: f"({a} % {b})", "Nat")
            if isinstance(node.op, ast.BitAnd) and l.ty == r.ty == "Nat":
                return self.bind2(l, r, lambda a, b: f"({a} &&& {b})", "Nat")
            if isinstance(node.op, ast.BitOr) and l.ty == r.ty == "Nat":
                return self.bind2(l, r, lambda a, b: f"({a} ||| {b})", "Nat")
            if l.ty == "X Rat" or r.ty == "X Rat":
                f = {ast.Add: "X.add", ast.Sub: "X.sub", ast.Mult: "X.mul", ast.Div: "X.div"}.get(type(node.op))
                if f:
                    return self.bind2(self.toX(l), self.toX(r), lambda a, b: f"({f} {paren(a)} {paren(b)})", "X Rat")
            if l.ty in ("Nat", "Int") and r.ty in ("Nat", "Int"):
                sym = {ast.Add: "+", ast.Sub: "-", ast.Mult: "*"}.get(type(node.op))
                if sym:
                    if sym == "-" or l.ty != r.ty:
                        l, r = self.toInt(l), self.toInt(r)
                    ty = l.ty
                    return self.bind2(l, r, lambda a, b: f"({a} {sym} {b})", ty)
            if isinstance(node.op, ast.Add) and l.ty == r.ty and l.ty.startswith("List "):
                return self.bind2(l, r, lambda a, b: f"({a} ++ {b})", l.ty)
            raise Untranslatable(f"operator {type(node.op).__name__} on {l.ty}, {r.ty}")
        if isinstance(node, ast.IfExp):
            c, a, b = self.truthy(self.ce(node.test)), self.ce(node.body), self.ce(node.orelse)
            if a.ty != b.ty and a.ty in ("Nat", "Int") and b.ty in ("Nat", "Int"):
                a, b = self.toInt(a), self.toInt(b)
            if b.ty == "Option _" and not a.ty.startswith("Option"):
                # `x if c else None`: an optional
                oty = f"Option {paren(a.ty)}"
                a, b = self.bind1(a, lambda x: f"(some {x})", oty), E(f"(none : {oty})", oty)
            elif a.ty == "Option _" and not b.ty.startswith("Option"):
                oty = f"Option {paren(b.ty)}"
                a, b = E(f"(none : {oty})", oty), self.bind1(b, lambda x: f"(some {x})", oty)
            if a.ty != b.ty:
                raise Untranslatable("conditional expression with different types")
            if c.pure and a.pure and b.pure:
                return E(f"(if {c.term} then {a.term} else {b.term})", a.ty)
            return E(f"({c.m()} >>= fun c => if c then {a.m()} else {b.m()})", a.ty, False)
        if isinstance(node, ast.Attribute) and isinstance(node.value, ast.Name) and node.value.id in self.alias:
            fld, fty = self.alias_field(node.value.id, node.attr)
            return E(f"({self.alias_get(node.value.id)} >>= fun o => .ok o.{fld})", fty, False)
        if isinstance(node, ast.Tuple) and len(node.elts) == 2:
            a, b = self.ce(node.elts[0]), self.ce(node.elts[1])
            if "_" in a.ty or "_" in b.ty:
                raise Untranslatable(f"tuple with a component of unknown type: {ast.unparse(node)}")
            return self.bind2(a, b, lambda x, y: f"({x}, {y})", f"{paren(a.ty) if pair_types(a.ty) or '→' in a.ty else a.ty} × {paren(b.ty) if pair_types(b.ty) or '→' in b.ty else b.ty}")
        if isinstance(node, ast.Subscript):
            base = self.ce(node.value)
            idx = node.slice
            if pair_types(base.ty) and isinstance(idx, ast.Constant) and idx.value in (0, 1) and not isinstance(idx.value, bool):
                return self.bind1(base, lambda x: f"({x}).{idx.value + 1}", pair_types(base.ty)[idx.value])
            if isinstance(idx, ast.UnaryOp) and isinstance(idx.op, ast.USub) and isinstance(idx.operand, ast.Constant) and idx.operand.value == 1:
                if base.ty.startswith("Stack "):
                    return self.bind1(base, lambda x: f"(Py.top {x})", elem_type(base.ty), partial=True)
                if base.ty.startswith("List "):
                    return self.bind1(base, lambda x: f"(Py.last {x})", elem_type(base.ty), partial=True)
            if (base.ty.startswith("List ") and isinstance(idx, ast.Slice) and idx.lower is not None and idx.upper is None
                    and idx.step is None):
                # `l[k:]` for a natural `k`: the list without its first `k` elements (empty when `k` exceeds its length)
                k = self.ce(idx.lower)
                if k.ty != "Nat":
                    raise Untranslatable(f"slice {ast.unparse(node)}: the lower bound has type {k.ty}, not Nat")
                return self.bind2(base, k, lambda a, b: f"(List.drop {paren(b)} {paren(a)})", base.ty)
            if base.ty.startswith("List "):
                i = self.ce(idx)
                if i.ty == "Nat":
                    return self.bind2(base, i, lambda a, b: f"(Py.nth {a} {b})", elem_type(base.ty)).__class__(
                        *(self._impure(self.bind2(base, i, lambda a, b: f"(Py.nth {a} {b})", elem_type(base.ty)))))
                i = self.num(i)
                if i.ty in ("Nat", "Int"):
                    prim = "Py.nth" if i.ty == "Nat" else "Py.nthInt"
                    return self.partial2(base, i, lambda a, b: f"({prim} {a} {b})", elem_type(base.ty))
            raise Untranslatable(f"subscript {ast.unparse(node)} on {base.ty}")
        if isinstance(node, ast.Call):
            f = node.func
            if isinstance(f, ast.Name) and f.id == "len" and len(node.args) == 1:
                return self.bind1(self.ce(node.args[0]), lambda x: f"({x}).length", "Nat")
            if isinstance(f, ast.Name) and f.id == "bool" and len(node.args) == 1 and not node.keywords:
                return self.truthy(self.ce(node.args[0]))
            if isinstance(f, ast.Name) and f.id == "set" and len(node.args) == 1 and not node.keywords:
                # `set(l)`: the elements of a list without repetitions, in no particular order
                a = self.ce(node.args[0])
                if a.ty.startswith("List ") and "_" not in a.ty:
                    return self.bind1(a, lambda x: f"(Py.SetOf.ofList {paren(x)})", "Py.SetOf " + a.ty[len("List "):])
                raise Untranslatable(f"set() of {a.ty}")
            if isinstance(f, ast.Attribute) and f.attr == "union" and len(node.args) == 1 and not node.keywords:
                a = self.ce(f.value)
                if a.ty.startswith("Py.SetOf "):
                    b = self.ce(node.args[0])
                    if b.ty not in (a.ty, "List " + a.ty[len("Py.SetOf "):]):
                        raise Untranslatable(f"union of {a.ty} with {b.ty}")
                    return self.bind2(a, b, lambda x, y: f"(Py.SetOf.union {paren(x)} {paren(y)})", a.ty)
            if (isinstance(f, ast.Name) and f.id == "sorted" and len(node.args) == 1
                    and all(kw.arg == "reverse" and isinstance(kw.value, ast.Constant) and isinstance(kw.value.value, bool)
                            for kw in node.keywords) and len(node.keywords) <= 1):
                # `sorted(s)` / `sorted(s, reverse=True)` of strings: code-point lexicographic order
                a = self.ce(node.args[0])
                if a.ty in ("Py.SetOf String", "List String"):
                    desc = bool(node.keywords) and node.keywords[0].value.value
                    return self.bind1(a, lambda x: f"(Py.sorted{'Desc' if desc else 'Asc'} {paren(x)})", "List String")
                raise Untranslatable(f"sorted() of {a.ty}")
            if (isinstance(f, ast.Name) and f.id in ("all", "any") and len(node.args) == 1 and not node.keywords
                    and isinstance(node.args[0], ast.GeneratorExp)):
                gen = node.args[0]
                g = gen.generators[0]
                if len(gen.generators) != 1 or g.ifs or g.is_async or not isinstance(g.target, ast.Name):
                    raise Untranslatable(f"generator shape: {ast.unparse(node)}")
                it = self.iterator(g.iter)
                v = g.target.id
                if v in LEAN_RESERVED:
                    for n in ast.walk(gen.elt):
                        if isinstance(n, ast.Name) and n.id == v:
                            n.id = mangle(v)
                    v = mangle(v)
                if v in self.locals or v in self.ptypes or not it.ty.startswith("List ") or not it.pure:
                    raise Untranslatable(f"generator variable / iterable: {ast.unparse(node)}")
                self.ptypes[v] = elem_type(it.ty)
                try:
                    elt = self.truthy(self.ce(gen.elt))
                finally:
                    del self.ptypes[v]
                fn = f"(fun ({v} : {elem_type(it.ty)}) => {elt.term})"
                if elt.pure:
                    return E(f"(List.{f.id} {paren(it.term)} {fn})", "Bool")
                return E(f"(Py.{f.id}M {fn} {paren(it.term)})", "Bool", False)
            if isinstance(f, ast.Attribute) and f.attr == "pop" and not node.args:
                base = self.ce(f.value)
                raise Untranslatable("pop() as an expression must be the whole right-hand side of an assignment or an argument of append")
            if isinstance(f, ast.Name) and f.id in ("max", "min") and len(node.args) == 2 and not node.keywords:
                a, b = self.num(self.ce(node.args[0])), self.num(self.ce(node.args[1]))
                if a.ty == "X Rat" or b.ty == "X Rat":
                    return self.bind2(self.toX(a), self.toX(b), lambda x, y: f"(X.py{f.id} {paren(x)} {paren(y)})", "X Rat")
                if a.ty in ("Nat", "Int") and b.ty in ("Nat", "Int"):
                    if a.ty != b.ty:
                        a, b = self.toInt(a), self.toInt(b)
                    ty = a.ty
                    return self.bind2(a, b, lambda x, y: f"({f.id} {paren(x)} {paren(y)})", ty)
        if isinstance(node, ast.List) and not node.elts:
            return E("[]", "List _")
        if isinstance(node, ast.List) and all(isinstance(x, ast.Starred) for x in node.elts):
            # `[*a, *b]`: the elements of the lists one after the other (the lists are evaluated left to right)
            es = [self.ce(x.value) for x in node.elts]
            if len({x.ty for x in es}) != 1 or not es[0].ty.startswith("List ") or "_" in es[0].ty:
                raise Untranslatable(f"list display of unpacked values that are not lists of one type: {ast.unparse(node)}")
            acc = es[0]
            for x in es[1:]:
                acc = self.bind2(acc, x, lambda a, b: f"({a} ++ {b})", es[0].ty)
            return acc
        if isinstance(node, ast.List):
            es = [self.ce(x) for x in node.elts]
            if len({x.ty for x in es}) != 1:
                raise Untranslatable(f"list literal {ast.unparse(node)}")
            if not all(x.pure for x in es):
                # elements that can raise are evaluated left to right
                names = [f"e{i}" for i in range(len(es))]
                body = ".ok [" + ", ".join(names) + "]"
                for nm, x in reversed(list(zip(names, es))):
                    body = f"({x.m()} >>= fun {nm} => {body})"
                return E(body, f"List {paren(es[0].ty)}", False)
            return E("[" + ", ".join(x.term for x in es) + "]", f"List {paren(es[0].ty)}")
        if (isinstance(node, ast.Call) and isinstance(node.func, ast.Name) and node.func.id in ("tuple", "list") and len(node.args) == 1
                and not node.keywords and (isinstance(node.args[0], (ast.GeneratorExp, ast.ListComp)) or self._is_list(node.args[0]))):
            return self.ce(node.args[0])          # the sequence of a list / of a completely consumed generator expression
        if isinstance(node, ast.ListComp) or (isinstance(node, ast.GeneratorExp) and (id(node) in self.genexp_ok or self.p.get("genexp_as_list"))):
            g = node.generators[0]
            if len(node.generators) != 1 or g.is_async or not isinstance(g.target, ast.Name):
                raise Untranslatable(f"comprehension shape: {ast.unparse(node)}")
            it = self.iterator(g.iter)
            v = g.target.id
            if v in LEAN_RESERVED:
                # the variable of a comprehension that is a Lean keyword (`term`) is renamed like a declared local
                for part in [node.elt] + list(g.ifs):
                    for n in ast.walk(part):
                        if isinstance(n, ast.Name) and n.id == v:
                            n.id = mangle(v)
                v = mangle(v)
            if v in self.locals or v in self.ptypes or not it.ty.startswith("List "):
                raise Untranslatable(f"comprehension variable / iterable: {ast.unparse(node)}")
            self.ptypes[v] = elem_type(it.ty)
            try:
                elt = self.ce(node.elt)
                conds = [self.truthy(self.ce(c)) for c in g.ifs]
            finally:
                del self.ptypes[v]
            if not all(c.pure for c in conds):
                raise Untranslatable(f"comprehension condition that can raise: {ast.unparse(node)}")
            ety = elem_type(it.ty)

            def src(x):
                # `if c` clauses: the elements are filtered first (a condition is evaluated before the element)
                for c in conds:
                    x = f"(List.filter (fun ({v} : {ety}) => {c.term}) {x})"
                return x
            if not elt.pure:
                # an element that can raise: evaluated left to right, the first exception ends the comprehension
                return self.bind1(it, lambda x: f"(List.mapM (fun ({v} : {ety}) => {elt.term}) {src(x)})", f"List {paren(elt.ty)}", partial=True)
            return self.bind1(it, lambda x: f"(List.map (fun ({v} : {ety}) => {elt.term}) {src(x)})", f"List {paren(elt.ty)}")
        if isinstance(node, ast.SetComp):
            # the distinct values of the list comprehension with the same parts, in the order of their first occurrence
            lst = self.ce(ast.ListComp(elt=node.elt, generators=node.generators))
            return self.bind1(lst, lambda x: f"(Py.distinct {x})", lst.ty)
        if isinstance(node, ast.DictComp):
            g = node.generators[0]
            tg = g.target
            if len(node.generators) != 1 or g.is_async or not (isinstance(tg, ast.Tuple) and len(tg.elts) == 2 and all(isinstance(e, ast.Name) for e in tg.elts)):
                raise Untranslatable(f"comprehension shape: {ast.unparse(node)}")
            it = self.iterator(g.iter)
            if not it.ty.startswith("List ") or not it.pure:
                raise Untranslatable(f"comprehension iterable: {ast.unparse(g.iter)}")
            ety = elem_type(it.ty)
            m = re.fullmatch(r"(.+) × (.+)", ety)
            if not m:
                raise Untranslatable(f"comprehension over {it.ty}: {ast.unparse(node)}")
            # (the variables of a comprehension are local to it; they may shadow locals of the function)
            saved = dict(getattr(self, "bound", {}))
            self.bound = dict(saved, **{tg.elts[0].id: ("p.1", m.group(1).strip("()")), tg.elts[1].id: ("p.2", m.group(2).strip("()"))})
            try:
                conds = [self.truthy(self.ce(c)) for c in g.ifs]
                k, v = self.ce(node.key), self.ce(node.value)
            finally:
                self.bound = saved
            if not all(c.pure for c in conds) or not (k.pure and v.pure):
                raise Untranslatable(f"comprehension part that can raise: {ast.unparse(node)}")
            src = it.term
            for c in conds:
                src = f"(List.filter (fun (p : {ety}) => {c.term}) {src})"
            return E(f"(List.map (fun (p : {ety}) => ({k.term}, {v.term})) {src})", f"List ({k.ty if '×' not in k.ty and '→' not in k.ty else paren(k.ty)} × {v.ty if '×' not in v.ty and '→' not in v.ty else paren(v.ty)})")
        if isinstance(node, ast.JoinedStr):
            parts, binds = [], []
            for v in node.values:
                if isinstance(v, ast.FormattedValue):
                    if v.conversion not in (-1, 114) or v.format_spec is not None:
                        raise Untranslatable(f"f-string conversion / format: {ast.unparse(node)}")
                    if v.conversion == 114:
                        # `{e!r}` is the built-in `repr(e)` whatever the module calls `repr`: it must be named by an external
                        call = ast.Call(func=ast.Attribute(value=ast.Name(id="builtins", ctx=ast.Load()), attr="repr", ctx=ast.Load()),
                                        args=[v.value], keywords=[])
                        e = self.try_external(call)
                        if e is None:
                            raise Untranslatable(f"f-string conversion `!r` without an external for `builtins.repr(...)`: {ast.unparse(node)}")
                        if e.ty != "String" or not e.pure:
                            raise Untranslatable(f"f-string part of type {e.ty}: {ast.unparse(node)}")
                        parts.append(e.term)
                        continue
                    v = v.value
                e = self.ce(v)
                if e.ty != "String":
                    raise Untranslatable(f"f-string part of type {e.ty}: {ast.unparse(node)}")
                if not e.pure:
                    # a part that can raise: the parts are evaluated left to right, then concatenated
                    binds.append((f"s{len(binds)}", e.term))
                    parts.append(binds[-1][0])
                    continue
                parts.append(e.term)
            body = "(" + " ++ ".join(parts) + ")" if parts else '""'
            if binds:
                body = f".ok {body}"
                for nm, t in reversed(binds):
                    body = f"({t} >>= fun {nm} => {body})"
                return E(body, "String", False)
            return E(body, "String")
        raise Untranslatable(f"expression {ast.unparse(node)}")

    def _pure_pair(self, node):
        try:
            self.const_of(node)
            return False                       # a translation-time constant: the older rule below
        except (KeyError, Untranslatable):
            pass
        try:
            e = self.ce(node)
        except Untranslatable:
            return False
        return e.pure and split_prod(e.ty) is not None

    def _is_list(self, node):
        try:
            return self.ce(node).ty.startswith("List ")
        except Untranslatable:
            return False

    def iterator(self, node):
        if isinstance(node, ast.Call) and isinstance(node.func, ast.Name) and len(node.args) == 1 and self.try_external(node) is None:
            f = node.func.id
            if f == "iter":
                return self.iterator(node.args[0])
            if f == "reversed":
                e = self.iterator(node.args[0])
                return self.bind1(e, lambda x: f"({x}).reverse", e.ty.replace("Stack ", "List "))
            if f == "enumerate":
                e = self.iterator(node.args[0])
                return self.bind1(e, lambda x: f"(Py.enumerate {x})", f"List (Nat × {paren(elem_type(e.ty))})")
            if f == "range":
                e = self.ce(node.args[0])
                if e.ty == "Nat":
                    return self.bind1(e, lambda x: f"(List.range {x})", "List Nat")
        if (isinstance(node, ast.Call) and isinstance(node.func, ast.Attribute) and node.func.attr == "items" and not node.args
                and self.try_external(node) is None):
            d = self.ce(node.func.value)
            if re.fullmatch(r"List \(.+ × .+\)", d.ty):
                return d          # a dictionary kept as the list of its items
        e = self.ce(node)
        if e.ty in self.p.get("iter_view", {}):
            # iterating over an object of a profile type: over the list the profile names (`for v in value`)
            tmpl, lty = self.p["iter_view"][e.ty]
            return self.bind1(e, lambda x: tmpl.format(paren(x)), lty)
        if e.ty.startswith("Stack "):
            # iterating over a list kept as a stack visits it from the bottom
            return self.bind1(e, lambda x: f"({x}).reverse", e.ty.replace("Stack ", "List "))
        return e

    def _impure(self, e):
        """mark the result of a partial primitive (term already of type Py.M T) as monadic"""
        if e.pure:
            return (e.term, e.ty, False)
        # e.term : Py.M (Py.M T) -> join
        return (f"({e.term} >>= id)", e.ty, False)

    def num(self, e):
        """an optional number used as a number: `None` in arithmetic / ordering / as an index is a TypeError"""
        if e.ty in ("Option Int", "Option Nat"):
            return self.bind1(e, lambda x: f"(Py.deref {x})", e.ty[len("Option "):], partial=True)
        return e

    def partial2(self, a, b, f, ty):
        """like bind2 for an `f` that gives a monadic term"""
        return E(*self._impure(self.bind2(a, b, f, ty)))

    def toInt(self, e):
        if e.ty == "Int":
            return e
        return self.bind1(e, lambda x: f"(({x} : Nat) : Int)", "Int")

    def toX(self, e):
        if e.ty == "X Rat":
            return e
        if e.ty in ("Nat", "Int"):
            return self.bind1(e, lambda x: f"(X.fin (({x} : {e.ty}) : Rat))", "X Rat")
        raise Untranslatable(f"number expected, got {e.ty}")

    # ---------------------------------------------------------------- statements
    def set_field(self, name, e, k):
        """σ.name := e ; then continuation term k (a function S -> M S)"""
        if name not in self.locals:
            raise Untranslatable(f"assignment to undeclared local '{name}'")
        want = self.locals[name]
        if want.startswith("Option ") and not e.ty.startswith("Option"):
            e = self.bind1(e, lambda x: f"(some {x})", want)
        if want == "Int" and e.ty == "Nat":
            e = self.toInt(e)
        if want == "X Rat" and e.ty in ("Nat", "Int"):
            e = self.toX(e)
        if "_" not in e.ty and e.ty.replace("Stack ", "List ") != want.replace("Stack ", "List "):
            raise Untranslatable(f"'{name}' has type {want}, assigned {e.ty}")
        if e.pure:
            return f"{k} {{ σ with {name} := {e.term}{self.detach(name)} }}"
        return f"{self.lift(e.term)} >>= fun v => {k} {{ σ with {name} := v{self.detach(name)} }}"

    @staticmethod
    def app(k):
        """`k σ`, beta-reduced when k is a literal `(fun σ => body)`"""
        if k.startswith("(fun σ => ") and k.endswith(")") and balanced(k[1:-1]):
            return k[len("(fun σ => "):-1]
        return f"{k} σ"

    def cs(self, stmts, k, loopk=None, brk=None):  # noqa: C901
        """compile a statement list; k / loopk / brk are Lean terms of type `S -> M S`"""
        if not stmts:
            return self.app(k)
        s, rest = stmts[0], stmts[1:]

        def after():
            return self.cs(rest, k, loopk, brk)

        def seq(first_with_k):
            """first_with_k(kterm) -> term; shares the continuation through a let when it is not trivial"""
            if not rest:
                return first_with_k(k)
            kn = f"k{self.fresh()}"
            return f"let {kn} : {self.name}.S → {self.mty()} := fun σ =>\n{ind(after())}\n{first_with_k(kn)}"

        if isinstance(s, ast.Expr) and isinstance(s.value, ast.Constant):
            return after()  # docstring
        hit = self.try_stmt_external(s)
        if hit is not None:
            term, pure = hit
            if pure == "R":
                if not self.rs:
                    raise Untranslatable("a statement external of type Py.R needs `raise_state`")
                return f"{term} >>= fun σ =>\n{after()}"
            if pure:
                return f"let σ := {term}\n{after()}"
            return f"{self.lift(term)} >>= fun σ =>\n{after()}"
        if isinstance(s, ast.ImportFrom) and s.level > 0 and s.module:
            # `from .rule import Rule` inside the function: the names are constants of the translation from here on
            # (resolved like the module-level names; a name the function never evaluates stays unused)
            try:
                mod = importlib.import_module("." * s.level + s.module, self.p["module"].rpartition(".")[0])
                for a in s.names:
                    if a.name != "*" and (a.asname or a.name) not in self.glob:
                        self.glob[a.asname or a.name] = getattr(mod, a.name)
            except Exception:  # noqa: BLE001  (as before: an import that cannot be resolved binds nothing)
                pass
            return after()
        if isinstance(s, (ast.Import, ast.ImportFrom, ast.Pass)):
            return after()
        if isinstance(s, ast.Expr) and isinstance(s.value, ast.Call) and any(match_pattern(p, s.value, {}) for p in self.skips):
            return after()
        if isinstance(s, ast.If) and any(ast.dump(s.test) == ast.dump(p) for p in self.skip) and not s.orelse:
            return after()
        if isinstance(s, ast.AnnAssign):
            if s.value is None:
                return after()
            s = ast.Assign(targets=[s.target], value=s.value)
        if isinstance(s, ast.Assign):
            if len(s.targets) != 1:
                raise Untranslatable("multiple assignment targets")
            t = s.targets[0]
            if (isinstance(t, ast.Tuple) and len(t.elts) == 2 and not isinstance(s.value, ast.Tuple)
                    and all(isinstance(e, ast.Name) and (e.id in self.locals or e.id == "_") for e in t.elts)
                    and any(e.id != "_" for e in t.elts) and len({e.id for e in t.elts}) == 2):
                # `a, b = e` for an expression of a pair type: `e` is evaluated once, then the components are assigned
                e = self.ce(s.value)
                pt = pair_types(e.ty)
                if pt is None:
                    # two targets and a *list* on the right: the unpacking of a list (`ValueError` unless it has two elements)
                    unpacked = self.unpack_list(t, s.value, after) if e.ty.startswith("List ") else None
                    if unpacked is not None:
                        return unpacked
                    raise Untranslatable(f"tuple assignment of a value of type {e.ty}: {ast.unparse(s)}")
                sets = []
                for i, (tg, ty) in enumerate(zip(t.elts, pt)):
                    if tg.id == "_":
                        continue
                    if self.locals[tg.id] != ty or self.alias_of_list(tg.id) or tg.id in self.alias:
                        raise Untranslatable(f"'{tg.id}' has type {self.locals[tg.id]}, assigned {ty}")
                    sets.append(f"{tg.id} := v.{i + 1}")
                if e.pure:
                    return f"let v := {e.term}\nlet σ := {{ σ with {', '.join(sets)} }}\n{after()}"
                return f"{self.lift(e.term)} >>= fun v =>\nlet σ := {{ σ with {', '.join(sets)} }}\n{after()}"
            if isinstance(t, ast.Tuple) and all(isinstance(e, ast.Name) and e.id in self.locals for e in t.elts):
                # targets are mutable locals: a sequence of ordinary assignments
                v = s.value
                names = {e.id for e in t.elts}
                if not isinstance(v, ast.Tuple) or len(v.elts) != len(t.elts) or len(names) != len(t.elts):
                    raise Untranslatable(f"tuple assignment shape: {ast.unparse(s)}")
                if any(isinstance(n, ast.Name) and n.id in names for n in ast.walk(v)):
                    raise Untranslatable(f"tuple assignment that reads its targets: {ast.unparse(s)}")
                seqd = [ast.Assign(targets=[e], value=x) for e, x in zip(t.elts, v.elts)]
                return self.cs(seqd + list(rest), k, loopk, brk)
            if isinstance(t, ast.Tuple) and len(t.elts) == 2 and not isinstance(s.value, ast.Tuple) and self._pure_pair(s.value):
                # `t1, t2 = p` for a pure pair `p` that mentions neither target: `t1 = p[0]; t2 = p[1]`
                tnames = {ast.unparse(e) for e in t.elts}
                if any(ast.unparse(n) in tnames for n in ast.walk(s.value) if isinstance(n, (ast.Name, ast.Attribute))):
                    raise Untranslatable(f"tuple assignment that reads its targets: {ast.unparse(s)}")
                seqd = [ast.Assign(targets=[e], value=ast.Subscript(value=s.value, slice=ast.Constant(value=i), ctx=ast.Load()))
                        for i, e in enumerate(t.elts)]
                return self.cs(seqd + list(rest), k, loopk, brk)
            if isinstance(t, ast.Tuple):
                try:
                    vals = list(self.const_of(s.value))
                except KeyError as ex:
                    unpacked = self.unpack_list(t, s.value, after)
                    if unpacked is not None:
                        return unpacked
                    raise Untranslatable(f"tuple assignment of a non-constant: {ast.unparse(s)}") from ex
                if len(vals) != len(t.elts) or not all(isinstance(e, ast.Name) for e in t.elts):
                    raise Untranslatable("tuple assignment shape")
                for e, v in zip(t.elts, vals):
                    self.consts[e.id] = v
                return after()
            if isinstance(t, ast.Name) and t.id in self.alias:
                x, lst = t.id, self.alias[t.id]
                if isinstance(s.value, ast.Constant) and s.value.value is None:
                    return f"let σ := {{ σ with {x} := Py.Alias.none }}\n{after()}"
                # `x = C(...); lst.append(x)` (shape checked by check_alias): the object goes to the list, x is live
                if not rest or id(rest[0]) not in self.alias_pairs:
                    raise Untranslatable(f"alias_last: `{ast.unparse(s)[:50]}` is not followed by `{lst}.append({x})`")
                e = self.ce(s.value)
                want = self.alias_type(x)
                if e.ty != want:
                    raise Untranslatable(f"alias_last: '{x}' stands for {want}, `{ast.unparse(s.value)[:40]}` is {e.ty}")
                if x in self.alias_view:
                    e = self.bind1(e, lambda v: self.alias_view[x][1].format(paren(v)), elem_type(self.locals[lst]))
                others = "".join(f", {y} := σ.{y}.detach" for y in self.alias_of_list(lst) if y != x)
                app = (lambda v: f"({v} :: σ.{lst})") if self.locals[lst].startswith("Stack ") else (lambda v: f"(σ.{lst} ++ [{v}])")
                cont = self.cs(rest[1:], k, loopk, brk)
                if e.pure:
                    return f"let σ := {{ σ with {lst} := {app(paren(e.term))}, {x} := Py.Alias.live{others} }}\n{cont}"
                return f"{self.lift(e.term)} >>= fun v =>\nlet σ := {{ σ with {lst} := {app('v')}, {x} := Py.Alias.live{others} }}\n{cont}"
            if isinstance(t, ast.Name) and t.id in self.p.get("rebind", {}) and t.id not in self.rebound:
                e = self.ce(s.value)
                self.rebound[t.id] = self.p["rebind"][t.id]
                return self._assign(self.rebound[t.id], e, rest, k, loopk, brk)
            binds = {}
            if isinstance(t, ast.Name) and self.selfcall is not None and match_pattern(self.selfcall, s.value, binds):
                return self.self_call(t.id, [binds[k] for k in sorted(binds)], after)
            if isinstance(t, ast.Subscript) and not (isinstance(t.slice, ast.Constant) and t.slice.value is Ellipsis):
                return self.store_index(t, self.ce(s.value), after)
            if isinstance(t, ast.Name):
                if t.id in self.p.get("const_locals", []):
                    try:
                        self.consts[t.id] = self.const_of(s.value)
                        return after()
                    except KeyError as ex:
                        raise Untranslatable(f"'{t.id}' is declared constant but is not: {ast.unparse(s)}") from ex
                if t.id in self.p.get("alias_locals", {}):
                    # a local that the externals mention by name: it must be bound to exactly the expression the profile says
                    want = self.p["alias_locals"][t.id]
                    if ast.unparse(s.value) != want:
                        raise Untranslatable(f"local '{t.id}' must be bound to `{want}`, found `{ast.unparse(s.value)}`")
                    return after()
                if t.id in self.p.get("ignore_locals", []):
                    return after()
                if t.id in self.p.get("none_init", []) and isinstance(s.value, ast.Constant) and s.value.value is None:
                    return after()
                val = s.value
                if isinstance(val, ast.Call) and isinstance(val.func, ast.Attribute) and val.func.attr == "pop" and not val.args and self.try_external(val) is None:
                    return self.pop_stmt(val.func.value, lambda x: self._let(t.id, x), rest, k, loopk, brk)
                e = self.ce(val)
                return self._assign(self.rebound.get(t.id, t.id), e, rest, k, loopk, brk)
            if (isinstance(t, ast.Subscript) and isinstance(t.slice, ast.Constant) and t.slice.value is Ellipsis
                    and isinstance(t.value, ast.Name) and t.value.id in getattr(self, "row_vars", ())):
                # `x[...] = e` inside an in-place loop: the current row
                return self._assign(t.value.id, self.ce(s.value), rest, k, loopk, brk)
            if isinstance(t, ast.Attribute) and isinstance(t.value, ast.Name) and t.value.id in self.alias:
                # x.attr = e : e is evaluated first, then the attribute of the object behind x is set
                x = t.value.id
                fld, fty = self.alias_field(x, t.attr)
                e = self.ce(s.value)
                opt = fty.startswith("Option ") and not e.ty.startswith("Option")
                if "_" not in e.ty and fty not in ((f"Option {paren(e.ty)}", f"Option {e.ty}") if opt else (e.ty,)):
                    raise Untranslatable(f"attribute {t.attr} has type {fty}, assigned {e.ty}")
                wrap = (lambda v: f"(some {v})") if opt else (lambda v: v)
                if e.pure:
                    return f"{self.lift(self.alias_get(x))} >>= fun o =>\n{self.alias_set(x, '{ o with ' + fld + ' := ' + wrap(paren(e.term)) + ' }')}\n{after()}"
                return f"{self.lift(e.term)} >>= fun v =>\n{self.lift(self.alias_get(x))} >>= fun o =>\n{self.alias_set(x, '{ o with ' + fld + ' := ' + wrap('v') + ' }')}\n{after()}"
            if isinstance(t, ast.Attribute):
                fld = ast.unparse(t).replace(".", "_")
                if fld in self.locals:
                    val = s.value
                    if isinstance(val, ast.Call) and isinstance(val.func, ast.Attribute) and val.func.attr == "pop" and not val.args and self.try_external(val) is None:
                        return self.pop_stmt(val.func.value, lambda x: self._let(fld, x), rest, k, loopk, brk)
                    return self._assign(fld, self.ce(s.value), rest, k, loopk, brk)
                if isinstance(t.value, ast.Name) and t.value.id in self.locals and (self.locals[t.value.id], t.attr) in self.p.get("record_fields", {}):
                    loc, fty = t.value.id, self.p["record_fields"][(self.locals[t.value.id], t.attr)]
                    wrap = (lambda x: f"(some {x})") if fty.startswith("Option ") else (lambda x: x)
                    val = s.value
                    if isinstance(val, ast.Call) and isinstance(val.func, ast.Attribute) and val.func.attr == "pop" and not val.args and self.try_external(val) is None:
                        return self.pop_stmt(val.func.value, lambda x: f"let σ := {{ σ with {loc} := {{ σ.{loc} with {t.attr} := {wrap(x.term)} }} }}", rest, k, loopk, brk)
                    e = self.ce(val)
                    if e.pure:
                        return f"let σ := {{ σ with {loc} := {{ σ.{loc} with {t.attr} := {wrap(paren(e.term))} }} }}\n{after()}"
                    return f"{self.lift(e.term)} >>= fun v =>\nlet σ := {{ σ with {loc} := {{ σ.{loc} with {t.attr} := {wrap('v')} }} }}\n{after()}"
            raise Untranslatable(f"assignment target {ast.unparse(t)}")
        if (isinstance(s, ast.Delete) and len(s.targets) == 1 and isinstance(s.targets[0], ast.Subscript)
                and isinstance(s.targets[0].slice, ast.UnaryOp) and isinstance(s.targets[0].slice.op, ast.USub)
                and isinstance(s.targets[0].slice.operand, ast.Constant) and s.targets[0].slice.operand.value == 1):
            # `del l[-1]` is `l.pop()` without the value (IndexError on an empty list)
            return self.pop_stmt(s.targets[0].value, lambda x: "", rest, k, loopk, brk)
        if isinstance(s, ast.AugAssign) and isinstance(s.target, ast.Subscript):
            # l[i] += e : load l[i], evaluate e, combine, store (the index expression has no effect but exceptions)
            load = ast.Subscript(value=s.target.value, slice=s.target.slice, ctx=ast.Load())
            return self.store_index(s.target, self.ce(ast.BinOp(left=load, op=s.op, right=s.value)), after)
        if isinstance(s, ast.AugAssign) and isinstance(s.target, ast.Name):
            e = self.ce(ast.BinOp(left=ast.Name(id=s.target.id, ctx=ast.Load()), op=s.op, right=s.value))
            return self._assign(s.target.id, e, rest, k, loopk, brk)
        if isinstance(s, ast.Raise):
            exc = s.exc
            nm = exc.func.id if isinstance(exc, ast.Call) and isinstance(exc.func, ast.Name) else (exc.id if isinstance(exc, ast.Name) else None)
            if nm not in ERR:
                raise Untranslatable(f"raise of {ast.unparse(exc)[:40]}")
            return self.err(ERR[nm])
        if isinstance(s, ast.Continue):
            if loopk is None:
                raise Untranslatable("continue outside a loop")
            return self.app(loopk)
        if isinstance(s, ast.Break):
            if brk is None:
                raise Untranslatable("break outside a loop")
            return self.app(brk)
        if isinstance(s, ast.Return):
            if s.value is None:
                return ".ok σ"
            e = self.ce(s.value)
            if self.ret_ty and e.ty != self.ret_ty and e.ty in self.p.get("return_view", {}):
                # an object of a sum type of the profile returned where the function returns `ret`: the value it is
                e = self.bind1(e, lambda x: self.p["return_view"][e.ty].format(paren(x)), self.ret_ty)
            if self.ret_ty and self.ret_ty.startswith("Option "):
                # the function returns an object or None: ret = some (the optional)
                inner = self.ret_ty[len("Option "):]
                if e.ty == "Option _":
                    e = E(f"(none : {self.ret_ty})", self.ret_ty)
                elif e.ty in (inner, inner[1:-1] if inner.startswith("(") else inner):
                    e = self.bind1(e, lambda x: f"(some {x})", self.ret_ty)
                if e.ty != self.ret_ty:
                    raise Untranslatable(f"return of {e.ty} in a function declared to return {self.ret_ty}")
                e = self.bind1(e, lambda x: f"(some {x})", f"Option {paren(self.ret_ty)}")
            return self.set_field("ret", e, "Except.ok")
        if isinstance(s, ast.If) and isinstance(s.test, ast.NamedExpr) and isinstance(s.test.target, ast.Name):
            # `if x := e:` is `x = e; if x:`
            tgt = s.test.target.id
            return self.cs([ast.Assign(targets=[ast.Name(id=tgt, ctx=ast.Store())], value=s.test.value),
                            ast.If(test=ast.Name(id=tgt, ctx=ast.Load()), body=s.body, orelse=s.orelse)] + list(rest), k, loopk, brk)
        if isinstance(s, ast.If) and leading_walrus(s.test) is not None:
            # `if (x := e) > 1:` - the assignment expression is the first thing the test evaluates: `x = e; if x > 1:`
            w, test = leading_walrus(s.test)
            return self.cs([ast.Assign(targets=[ast.Name(id=w.target.id, ctx=ast.Store())], value=w.value),
                            ast.If(test=test, body=s.body, orelse=s.orelse)] + list(rest), k, loopk, brk)
        if isinstance(s, ast.If):
            c = self.truthy(self.ce(s.test))

            def mk(kn, ra=(), rb=()):
                a = self.cs(list(s.body) + list(ra), kn, loopk, brk)
                b = self.cs(list(s.orelse) + list(rb), kn, loopk, brk)
                if c.pure:
                    return f"if {c.term} then\n{ind(a)}\nelse\n{ind(b)}"
                return f"{self.lift(c.term)} >>= fun c =>\nif c then\n{ind(a)}\nelse\n{ind(b)}"
            if rest and diverts(s.body):
                return mk(k, (), rest)
            if rest and s.orelse and diverts(s.orelse):
                return mk(k, rest, ())
            return seq(mk)
        if isinstance(s, ast.Expr) and isinstance(s.value, ast.Call):
            call = s.value
            f = call.func
            if (isinstance(f, ast.Attribute) and f.attr == "append" and len(call.args) == 1 and isinstance(f.value, ast.Attribute)
                    and isinstance(f.value.value, ast.Name) and f.value.value.id in self.alias):
                # x.attr.append(e): x.attr is evaluated first (AttributeError for None), then e, then the append
                x = f.value.value.id
                fld, fty = self.alias_field(x, f.value.attr)
                if not fty.startswith("List "):
                    raise Untranslatable(f"append to attribute {f.value.attr} of type {fty}")
                e = self.ce(call.args[0])
                if "_" not in e.ty and e.ty != elem_type(fty):
                    raise Untranslatable(f"attribute {f.value.attr} has type {fty}, appended {e.ty}")
                if e.pure:
                    return f"{self.lift(self.alias_get(x))} >>= fun o =>\n{self.alias_set(x, '{ o with ' + fld + ' := o.' + fld + ' ++ [' + e.term + '] }')}\n{after()}"
                return f"{self.lift(self.alias_get(x))} >>= fun o =>\n{self.lift(e.term)} >>= fun v =>\n{self.alias_set(x, '{ o with ' + fld + ' := o.' + fld + ' ++ [v] }')}\n{after()}"
            if isinstance(f, ast.Attribute) and f.attr == "append" and len(call.args) == 1 and isinstance(f.value, ast.Name):
                if id(s) in self.alias_pairs:
                    raise Untranslatable("alias_last: the append of an alias pair was reached on its own")
                tgt = f.value.id
                tty = self.locals.get(tgt)
                if tty is None:
                    raise Untranslatable(f"append to undeclared '{tgt}'")
                arg = call.args[0]
                is_stack = tty.startswith("Stack ")
                app = (lambda x: f"({x} :: σ.{tgt})") if is_stack else (lambda x: f"(σ.{tgt} ++ [{x}])")
                if isinstance(arg, ast.Call) and isinstance(arg.func, ast.Attribute) and arg.func.attr == "pop" and not arg.args and self.try_external(arg) is None:
                    # x.append(y.pop()): y.pop() is evaluated first, then the append
                    return self.pop_stmt(arg.func.value, lambda x: f"let σ := {{ σ with {tgt} := {app(x.term)}{self.detach(tgt)} }}", rest, k, loopk, brk)
                e = self.ce(arg)
                if e.pure:
                    return f"let σ := {{ σ with {tgt} := {app(paren(e.term))}{self.detach(tgt)} }}\n{after()}"
                return seq(lambda kn: f"{self.lift(e.term)} >>= fun v => {kn} {{ σ with {tgt} := {app('v')}{self.detach(tgt)} }}")
            if isinstance(f, ast.Attribute) and f.attr == "pop" and not call.args and self.try_external(call) is None:
                return self.pop_stmt(f.value, lambda x: "", rest, k, loopk, brk)
            ext = self.try_external(call)
            if ext is not None and ext.ty == "Unit":
                # a call for its effect that the profile maps to a check: M Unit
                return seq(lambda kn: f"{self.lift(ext.m())} >>= fun _ => {kn} σ")
            if ext is not None and ext.ty.startswith("S:"):
                # an effectful external: template is a state transformer  S -> M S
                return seq(lambda kn: f"{self.lift(ext.m())} >>= fun σ => {kn} σ") if not ext.pure else f"let σ := {ext.term}\n{after()}"
            raise Untranslatable(f"call statement {ast.unparse(call)[:60]}")
        if (isinstance(s, ast.With) and len(s.items) == 1 and s.items[0].optional_vars is None
                and any(match_pattern(ast.parse(p, mode="eval").body, s.items[0].context_expr, {}) for p in self.p.get("plain_with", []))):
            # a context manager without effect on values / exceptions: the block is its body
            return self.cs(list(s.body) + list(rest), k, loopk, brk)
        if (isinstance(s, ast.With) and len(s.items) == 1 and s.items[0].optional_vars is None
                and match_pattern(ast.parse("contextlib.suppress(_0)", mode="eval").body, s.items[0].context_expr, {})):
            # `with contextlib.suppress(C): body` is `try: body except C: pass`
            cls = s.items[0].context_expr.args[0]
            tr = ast.Try(body=s.body, handlers=[ast.ExceptHandler(type=cls, name=None, body=[ast.Pass()])], orelse=[], finalbody=[])
            return self.cs([tr] + list(rest), k, loopk, brk)
        if isinstance(s, ast.With):
            pat = ast.parse("np.nditer(_0, op_flags=[['readwrite']])", mode="eval").body
            binds = {}
            if (len(s.items) != 1 or not isinstance(s.items[0].optional_vars, ast.Name)
                    or not match_pattern(pat, s.items[0].context_expr, binds) or not isinstance(binds[0], ast.Name)
                    or not self.locals.get(binds[0].id, "").startswith("List ")):
                raise Untranslatable(f"with statement: {ast.unparse(s.items[0])[:60]}")
            it, arr = s.items[0].optional_vars.id, binds[0].id
            if not hasattr(self, "inplace"):
                self.inplace, self.row_vars = {}, set()
            self.inplace[it] = arr
            return self.cs(list(s.body) + list(rest), k, loopk, brk)
        if isinstance(s, ast.Try) and self.p.get("part") and is_yield_try(s):
            if rest or loopk is not None:
                raise Untranslatable("statements after the try/yield/finally of a context manager")
            if self.p["part"] == "enter":
                return self.app(k)
            raise Untranslatable("part 'exit' is translated from the finally block")
        if isinstance(s, ast.Try) and self.rs:
            # the general form: the exception carries the record at the raise, the handler runs on it
            if s.orelse or s.finalbody or len(s.handlers) != 1:
                raise Untranslatable("try statement shape")
            h = s.handlers[0]
            nm = h.type.id if isinstance(h.type, ast.Name) else None
            if nm not in ("Exception", "SyntaxError", "ValueError", "RuntimeError"):
                raise Untranslatable(f"except clause: {ast.unparse(h.type) if h.type else 'bare'}")
            if any(isinstance(n, (ast.Return, ast.Break, ast.Continue)) for b in s.body for n in ast.walk(b)):
                raise Untranslatable("return / break / continue inside a try block")
            if h.name and self.locals.get(h.name) != "Py.Err":
                raise Untranslatable(f"`except … as {h.name}`: '{h.name}' must be a declared local of type Py.Err")

            def mk(kn):
                body = self.cs(s.body, "Except.ok")
                bind = f"let σ := {{ σ with {h.name} := err }}\n" if h.name else ""
                hc = bind + self.cs(h.body, kn, loopk, brk)
                caught = "Py.Err.isPython err" if nm == "Exception" else f"err == .{ERR[nm]}"
                return (f"match (\n{ind(body)}) with\n| .ok σ =>\n{ind(self.app(kn))}\n| .error (err, σ) =>\n  if {caught} then\n{ind(hc, 4)}\n"
                        f"  else .error (err, σ)")
            return seq(mk)
        if isinstance(s, ast.Try):
            if s.orelse or s.finalbody or len(s.handlers) != 1 or len(s.body) != 1:
                raise Untranslatable("try statement shape")
            h = s.handlers[0]
            nm = h.type.id if isinstance(h.type, ast.Name) else None
            catch_all = (h.type is None or nm in ("Exception", "BaseException")) and not h.name
            if (nm not in ERR or h.name) and not catch_all:
                raise Untranslatable("except clause")
            b = s.body[0]
            is_ret = isinstance(b, ast.Return) and b.value is not None and catch_all
            if not is_ret and not (isinstance(b, ast.Assign) and len(b.targets) == 1 and isinstance(b.targets[0], ast.Name)):
                raise Untranslatable("try body must be a single assignment")
            e = self.ce(b.value)
            if e.pure:
                return self.cs([b] + list(rest), k, loopk, brk)

            def mk(kn):
                if is_ret:
                    okc = self.set_field("ret", E("v", e.ty), "Except.ok")
                else:
                    okc = f"{self._let(b.targets[0].id, E('v', e.ty))}\n{kn} σ"
                hc = self.cs(h.body, kn, loopk, brk)
                if catch_all:
                    return (f"match {e.term} with\n| .ok v =>\n{ind(okc)}\n| .error err =>\n  if Py.Err.isPython err then\n{ind(hc, 4)}\n"
                            f"  else .error err")
                return f"match {e.term} with\n| .ok v =>\n{ind(okc)}\n| .error .{ERR[nm]} =>\n{ind(hc)}\n| .error err => .error err"
            return seq(mk)
        if isinstance(s, ast.For):
            if s.orelse:
                raise Untranslatable("for-else")
            self.nfor = getattr(self, "nfor", 0) + 1
            ren = self.p.get("loop_rename", {}).get(self.nfor)
            if ren:
                for n in ast.walk(s):
                    if isinstance(n, ast.Name) and n.id in ren and n is not s.iter:
                        n.id = ren[n.id]
            arr = getattr(self, "inplace", {}).get(s.iter.id) if isinstance(s.iter, ast.Name) else None
            if arr is not None:
                # in-place loop over the rows of `arr` (see the module docstring)
                if not isinstance(s.target, ast.Name):
                    raise Untranslatable("in-place loop target")
                for n in s.body:
                    for m in ast.walk(n):
                        if isinstance(m, ast.Break) or (isinstance(m, ast.Name) and m.id in (arr, s.iter.id)):
                            raise Untranslatable(f"in-place loop over '{arr}' mentions it or breaks")
                self.row_vars.add(s.target.id)
                it = E(f"σ.{arr}", self.locals[arr])
            else:
                it = self.iterator(s.iter)
            if not it.ty.startswith("List "):
                raise Untranslatable(f"iteration over {it.ty}")
            ety = elem_type(it.ty)
            self.nloop += 1
            ln = f"{self.name}.loop{self.nloop}"
            xv = "x" if "x" not in self.ptypes else "x'"         # the current element (a parameter may be called x)
            if isinstance(s.target, ast.Name):
                tgt_assign = f"let σ := {{ σ with {s.target.id} := {xv} }}"
                if self.locals.get(s.target.id) is None:
                    raise Untranslatable(f"loop variable '{s.target.id}' undeclared")
                if self.locals[s.target.id].startswith("Option "):
                    tgt_assign = f"let σ := {{ σ with {s.target.id} := some {xv} }}"
            elif isinstance(s.target, ast.Tuple) and len(s.target.elts) == 2 and all(isinstance(e, ast.Name) for e in s.target.elts):
                a, b = (e.id for e in s.target.elts)
                tgt_assign = f"let σ := {{ σ with {a} := {xv}.1, {b} := {xv}.2 }}"
            else:
                raise Untranslatable("loop target")
            tnames = [s.target.id] if isinstance(s.target, ast.Name) else [e.id for e in s.target.elts]
            wb = next((self.p.get("loop_writeback", {}).get(nm) for nm in tnames if nm in self.p.get("loop_writeback", {})), None)
            if arr is not None:
                wb = f"{{ σ with {arr} := σ.{arr} ++ [σ.{s.target.id}] }}"
            kloop = f"{ln} rest" if wb is None else f"(fun σ => {ln} rest {wb})"
            self.loop_depth = getattr(self, "loop_depth", 0) + 1
            try:
                body = self.cs(s.body, kloop, kloop, "Except.ok")
            finally:
                self.loop_depth -= 1
            self.aux.append(f"def {ln} : List {paren(ety)} → {self.name}.S → {self.mty()}\n  | [], σ => .ok σ\n  | {xv} :: rest, σ =>\n{ind(tgt_assign, 4)}\n{ind(body, 4)}")
            if arr is not None:
                return f"{ln} σ.{arr} {{ σ with {arr} := [] }} >>= fun σ =>\n{self.after_loop(s, after)}"
            if it.pure:
                return f"{ln} {paren(it.term)} σ >>= fun σ =>\n{self.after_loop(s, after)}"
            return f"{self.lift(it.term)} >>= fun l => {ln} l σ >>= fun σ =>\n{self.after_loop(s, after)}"
        if isinstance(s, ast.While):
            if s.orelse:
                raise Untranslatable("while-else")
            self.nloop += 1
            ln = f"{self.name}.loop{self.nloop}"
            fuel = self.p.get("fuel", {}).get(self.nloop)
            if fuel is None:
                raise Untranslatable(f"no fuel bound for while loop {self.nloop}")
            self.loop_depth = getattr(self, "loop_depth", 0) + 1
            try:
                c = self.truthy(self.ce(s.test))
                body = self.cs(s.body, f"{ln} fuel", f"{ln} fuel", "Except.ok")
            finally:
                self.loop_depth -= 1
            if c.pure:
                step = f"if {c.term} then\n{ind(body)}\nelse .ok σ"
            else:
                step = f"{self.lift(c.term)} >>= fun c =>\nif c then\n{ind(body)}\nelse .ok σ"
            fuel0 = "| 0, σ => .error (.fuel, σ)" if self.rs else "| 0, _ => .error .fuel"
            self.aux.append(f"def {ln} : Nat → {self.name}.S → {self.mty()}\n  {fuel0}\n  | fuel + 1, σ =>\n{ind(step, 4)}")
            return f"{ln} ({fuel}) σ >>= fun σ =>\n{self.after_loop(s, after)}"
        raise Untranslatable(f"statement {type(s).__name__}: {ast.unparse(s)[:60]}")

    def unpack_list(self, t, value, after):
        """`a, self.b, c = e` for a list-valued `e`: `e` is evaluated, unpacked (`ValueError` unless it has exactly as many
        elements as there are targets), then the targets - declared locals or attributes kept as locals `self_b` - are
        assigned left to right.  None when the statement does not have this shape."""
        names = []
        for e in t.elts:
            nm = e.id if isinstance(e, ast.Name) else (ast.unparse(e).replace(".", "_") if isinstance(e, ast.Attribute) else None)
            if nm is None or nm not in self.locals or nm in self.alias or self.alias_of_list(nm):
                return None
            names.append(nm)
        if len(set(names)) != len(names):
            return None
        try:
            v = self.ce(value)
        except Untranslatable:
            return None
        if not v.ty.startswith("List ") or any(self.locals[n] != elem_type(v.ty) for n in names):
            return None
        vs = [f"u{i}" for i in range(len(names))]
        upd = ", ".join(f"{n} := {u}" for n, u in zip(names, vs))
        return (f"{self.lift(v.m())} >>= fun v =>\nmatch v with\n| [{', '.join(vs)}] =>\n  let σ := {{ σ with {upd} }}\n{ind(after(), 2)}\n"
                f"| _ => {self.err('value')}")

    def after_loop(self, loop, after):
        """what follows a loop: a `return e` inside the body has stored its value in `ret` and left the loop like a `break`;
        the statements after the loop must not run then (`ret` is set by `return` statements only)"""
        rets = [n for b in loop.body for n in ast.walk(b) if isinstance(n, ast.Return)]
        if not rets:
            return after()
        if any(r.value is None for r in rets) or not self.ret_ty:
            raise Untranslatable("`return` without a value inside a loop")
        return f"if σ.ret.isSome then .ok σ else\n{after()}"

    def store_index(self, t, e, after):
        """`l[i] = e` on a list local: `e`, then `i`, then the update (IndexError out of range)"""
        if not (isinstance(t.value, ast.Name) and self.locals.get(t.value.id, "").startswith("List ")):
            raise Untranslatable(f"index assignment on {ast.unparse(t.value)} (not a list local)")
        nm = t.value.id
        ety = elem_type(self.locals[nm])
        i = self.num(self.ce(t.slice))
        if i.ty not in ("Nat", "Int"):
            raise Untranslatable(f"index of type {i.ty}")
        if ety == "Int" and e.ty == "Nat":
            e = self.toInt(e)
        if ety == "X Rat" and e.ty in ("Nat", "Int"):
            e = self.toX(e)
        if e.ty != ety:
            raise Untranslatable(f"'{nm}' has elements of type {ety}, assigned {e.ty}")
        prim = "Py.setNat" if i.ty == "Nat" else "Py.setInt"
        upd = self.partial2(e, i, lambda a, b: f"({prim} σ.{nm} {b} {a})", self.locals[nm])
        return f"{self.lift(upd.term)} >>= fun v =>\nlet σ := {{ σ with {nm} := v }}\n{after()}"

    def self_call(self, target, argnodes, after):
        """`target = F(args)`: run the function itself with one unit of fuel less, take its value, copy back the
        lists it mutates in place"""
        if not self.ret_ty or self.locals.get(target) != self.ret_ty:
            raise Untranslatable(f"recursive call: '{target}' must have the return type {self.ret_ty}")
        holes = self.self_call_holes(argnodes, in_loop_ok=True)
        args, wb = [], []
        for pn, pt in self.params:
            if pn not in holes:
                args.append(pn)          # a Lean-only parameter (`rec_fixed` / `rec_env`) or one outside `self_call_params`: passed on unchanged
                continue
            node = holes[pn]
            a = self.ce(node)
            if not a.pure or a.ty != pt:
                raise Untranslatable(f"recursive call: argument for '{pn}' has type {a.ty} (expected a pure {pt})")
            args.append(paren(a.term))
            if pn in self.p.get("inout", {}):
                if not (isinstance(node, ast.Name) and node.id in self.locals):
                    raise Untranslatable(f"recursive call: in-place parameter '{pn}' needs a local as argument")
                wb.append(f"{node.id} := r.{self.p['inout'][pn]}")
        self.recursive = True
        wb.append(f"{target} := v")
        callee = "self_rec" if getattr(self, "loop_depth", 0) else f"{self.name}.rec fuel"
        return (f"{callee} {' '.join(args)} {{}} >>= fun r =>\nPy.deref r.ret >>= fun v =>\n"
                f"let σ := {{ σ with {', '.join(wb)} }}\n{after()}")

    def self_call_holes(self, argnodes, in_loop_ok=False):
        """{parameter name: argument node} of a recursive call: the holes stand for `self_call_params` when given, otherwise
        for all parameters except the Lean-only ones named by `rec_fixed` / `rec_env`"""
        fixed = list(self.p.get("rec_fixed", [])) + list(self.p.get("rec_env", []))
        names = [mangle(n) for n in self.p.get("self_call_params", [n for n, _ in self.params if n not in fixed])]
        if len(argnodes) != len(names) or any(n not in self.ptypes for n in names):
            raise Untranslatable("recursive call: one hole per parameter expected")
        if getattr(self, "loop_depth", 0):
            if not in_loop_ok:
                raise Untranslatable("recursive call inside a loop body (expression position)")
            self.rec_in_loop = True
        return dict(zip(names, argnodes))

    def self_call_default(self, pn, pt):
        """the default value of the Python parameter `pn`, read from the signature in the source (a recursive call that
        does not pass the parameter: the callee receives the default, not the caller's value)"""
        a = self.fdef.args
        pos = list(a.posonlyargs) + list(a.args)
        dflt = dict(zip([x.arg for x in pos][len(pos) - len(a.defaults):], a.defaults))
        dflt.update({x.arg: d for x, d in zip(a.kwonlyargs, a.kw_defaults) if d is not None})
        if pn not in dflt:
            raise Untranslatable(f"recursive call: parameter '{pn}' has no default value")
        e = self.ce(dflt[pn])
        if not e.pure or e.ty != pt:
            raise Untranslatable(f"recursive call: the default of '{pn}' has type {e.ty} (expected a pure {pt})")
        return paren(e.term)

    def self_call_expr(self, argnodes):
        """a recursive call inside an expression: arguments left to right (they may raise), then the call; its value"""
        if not self.ret_ty:
            raise Untranslatable("recursive call: no return type `ret` in the profile")
        if self.p.get("inout"):
            raise Untranslatable("recursive call inside an expression with in-place parameters")
        holes = self.self_call_holes(argnodes)
        old_style = "self_call_params" not in self.p          # binder names of the two profiles that use this (kept stable)
        args, binds = [], []
        for i, (pn, pt) in enumerate(self.params):
            if pn not in holes:
                args.append(self.self_call_default(pn, pt) if pn in self.p.get("self_call_defaults", []) else pn)
                continue
            a = self.ce(holes[pn])
            if a.ty in (f"Option {pt}", f"Option {paren(pt)}"):
                a = self.bind1(a, lambda x: f"(Py.deref {x})", pt, partial=True)      # `None.method(...)` is an AttributeError
            if pt in (f"Option {a.ty}", f"Option {paren(a.ty)}"):
                a = self.bind1(a, lambda x: f"(some {x})", pt)       # an object passed for a parameter `T | None`
            if a.ty != pt:
                raise Untranslatable(f"recursive call: argument for '{pn}' has type {a.ty} (expected {pt})")
            if a.pure:
                args.append(paren(a.term))
            else:
                nm = f"c{i}" if old_style else f"r{len(binds)}"
                binds.append((nm, a.term))
                args.append(nm)
        self.recursive = True
        body = f"({self.name}.rec fuel {' '.join(args)} {{}} >>= fun r => Py.deref r.ret)"
        for nm, t in reversed(binds):
            body = f"({t} >>= fun {nm} => {body})"
        return E(body, self.ret_ty, False)

    def _let(self, name, e):
        """`let σ := { σ with name := e }` for a pure e, with the coercions of an assignment"""
        if name not in self.locals:
            raise Untranslatable(f"assignment to undeclared local '{name}'")
        want = self.locals[name]
        t = e.term
        if want.startswith("Option ") and not e.ty.startswith("Option"):
            t = f"(some {paren(t)})"
        elif "_" not in e.ty and e.ty.replace("Stack ", "List ") != want.replace("Stack ", "List "):
            raise Untranslatable(f"'{name}' has type {want}, assigned {e.ty}")
        return f"let σ := {{ σ with {name} := {t}{self.detach(name)} }}"

    def _assign(self, name, e, rest, k, loopk, brk):
        if name not in self.locals:
            raise Untranslatable(f"assignment to undeclared local '{name}'")
        if e.pure:
            want = self.locals[name]
            if want.startswith("Option ") and not e.ty.startswith("Option"):
                e = E(f"(some {paren(e.term)})", want)
            if want == "Int" and e.ty == "Nat":
                e = self.toInt(e)
            if want == "X Rat" and e.ty in ("Nat", "Int"):
                e = self.toX(e)
            if "_" not in e.ty and e.ty.replace("Stack ", "List ") != want.replace("Stack ", "List "):
                raise Untranslatable(f"'{name}' has type {want}, assigned {e.ty}")
            return f"let σ := {{ σ with {name} := {e.term}{self.detach(name)} }}\n{self.cs(rest, k, loopk, brk)}"
        want = self.locals[name]
        if "_" not in e.ty and e.ty.replace("Stack ", "List ") != want.replace("Stack ", "List ") and not (want.startswith("Option ") and want == f"Option {paren(e.ty)}"):
            raise Untranslatable(f"'{name}' has type {want}, assigned {e.ty}")
        v = "(some v)" if want.startswith("Option ") and not e.ty.startswith("Option") else "v"
        return f"{self.lift(e.term)} >>= fun v =>\nlet σ := {{ σ with {name} := {v}{self.detach(name)} }}\n{self.cs(rest, k, loopk, brk)}"

    def pop_stmt(self, target, use, rest, k, loopk, brk):
        """`target.pop()` (last element of a list / top of a stack): removes it, then `use(E(value))` continues with `kk`"""
        if not isinstance(target, ast.Name) or target.id not in self.locals:
            raise Untranslatable(f"pop on {ast.unparse(target)}")
        nm = target.id
        tty = self.locals[nm]
        prim = "Py.popTop" if tty.startswith("Stack ") else "Py.popLast"
        cont = self.cs(rest, k, loopk, brk)
        inner = use(E("p.1", elem_type(tty)))
        inner = inner + "\n" if inner else ""
        return f"{self.lift(f'{prim} σ.{nm}')} >>= fun p =>\nlet σ := {{ σ with {nm} := p.2{self.detach(nm)} }}\n{inner}{cont}"

    _n = 0

    def fresh(self):
        Fn._n += 1
        return Fn._n

    # ---------------------------------------------------------------- whole function
    def translate(self):
        Fn._n = 0
        stmts = self.fdef.body
        if self.p.get("part") == "exit":
            if not (stmts and isinstance(stmts[-1], ast.Try) and is_yield_try(stmts[-1])):
                raise Untranslatable("part 'exit': the function does not end in try: yield / finally:")
            stmts = stmts[-1].finalbody
        body = self.cs(stmts, "Except.ok")
        for loc, par in self.p.get("init", {}).items():
            body = f"let σ := {{ σ with {loc} := {par} }}\n{body}"
        self._body = body
        if self.p.get("type_params"):
            return self.with_type_params(self.translate_mono()) + self.defaults_text()
        return self.translate_mono() + self.defaults_text()

    def with_type_params(self, text):
        """generic in the types `type_params`: the record takes them explicitly, every definition implicitly"""
        tps = self.p["type_params"]
        S = f"{self.name}.S"
        expl = " ".join(f"({t} : Type) [Inhabited {t}]" for t in tps)
        impl = " ".join(f"{{{t} : Type}} [Inhabited {t}]" for t in tps)
        text = re.sub(r"(?<![\w.])" + re.escape(S) + r"(?![\w.])", f"({S} {' '.join(tps)})", text)
        text = text.replace(f"structure ({S} {' '.join(tps)}) where", f"structure {S} {expl} where")
        text = text.replace(f"instance {self.name}.instInhabitedS :", f"instance {self.name}.instInhabitedS {impl} :")
        return re.sub(r"^def (\S+) ", lambda m: f"def {m.group(1)} {impl} ", text, flags=re.M)

    def translate_mono(self):
        stmts = self.fdef.body
        body = self._body
        fields = "\n".join(f"  {n} : {t.replace('Stack ', 'List ')} := default" for n, t in self.locals.items())
        params = " ".join(f"({n} : {t})" for n, t in self.params)
        pnames = " ".join(n for n, _ in self.params)
        out = [f"/-! ## `{self.p['source']}`  ({self.p.get('where', '')}) -/", ""]
        out.append(f"structure {self.name}.S where\n{fields}\n")
        # named: the automatic name `instInhabitedS` would clash between generated files imported together
        out.append(f"instance {self.name}.instInhabitedS : Inhabited {self.name}.S := ⟨{{}}⟩\n")
        # auxiliary loops take the parameters too
        for a in self.aux:
            if params:
                a = re.sub(r"^def (\S+) :", lambda m: f"def {m.group(1)} {params} :", a, count=1)
                for ln in [f"{self.name}.loop{i}" for i in range(1, self.nloop + 1)]:
                    a = re.sub(re.escape(ln) + r"(?![\w])(?! \()", f"{ln} {pnames}", a) if False else a
            out.append(a + "\n")
        text = "\n".join(out)
        if getattr(self, "recursive", False):
            if self.nloop and any(isinstance(n, ast.While) for n in ast.walk(self.fdef)):
                raise Untranslatable("while loops in a self-recursive function")
            if not diverts(self.fdef.body) or any(isinstance(n, ast.Return) and n.value is None for n in ast.walk(self.fdef)):
                raise Untranslatable("a self-recursive function must end every path in `return <value>`")
            if "rec_fuel" not in self.p:
                raise Untranslatable("no bound `rec_fuel` for the recursion depth")
            sig = " → ".join(f"({n} : {t})" for n, t in self.params)
            rec = (f"def {self.name}.rec : Nat → {sig} → {self.name}.S → Py.M {self.name}.S\n"
                   f"  | 0, {', '.join('_' for _ in self.params)}, _ => .error .fuel\n"
                   f"  | fuel + 1, {', '.join(n for n, _ in self.params)}, σ =>\n{ind(body, 4)}\n\n")
            main = f"def {self.name}.run {params} (σ : {self.name}.S) : Py.M {self.name}.S :=\n  {self.name}.rec ({self.p['rec_fuel']}) {pnames} σ\n"
            if getattr(self, "rec_in_loop", False):
                # a recursive call inside a `for` body: the loop functions are defined before `rec`, so they take the callee
                # (`rec` with one unit of fuel less) as the argument `self_rec`
                for i in range(1, self.nloop + 1):
                    ln = f"{self.name}.loop{i}"
                    text = re.sub(r"(?<!def )" + re.escape(ln) + r"(?!\d)", f"{ln} {pnames} self_rec", text)
                    text = re.sub(r"def " + re.escape(ln) + " " + re.escape(params) + " :",
                                  f"def {ln} {params} (self_rec : {sig} → {self.name}.S → Py.M {self.name}.S) :", text)
                    rec = re.sub(re.escape(ln) + r"(?!\d)", f"{ln} {pnames} ({self.name}.rec fuel)", rec)
            else:
                # the loops (none of which contains a recursive call) take the parameters too
                for i in range(1, self.nloop + 1):
                    ln = f"{self.name}.loop{i}"
                    rec = re.sub(re.escape(ln) + r"(?!\d)", f"{ln} {pnames}", rec)
                    text = re.sub(r"(?<!def )" + re.escape(ln) + r"(?!\d)", f"{ln} {pnames}", text)
            return text + rec + main
        main = f"def {self.name}.run {params} (σ : {self.name}.S) : {self.mty()} :=\n{ind(body)}\n"
        if params:
            # thread the parameters to the loop functions
            for i in range(1, self.nloop + 1):
                ln = f"{self.name}.loop{i}"
                main = re.sub(re.escape(ln) + r"(?!\d)", f"{ln} {pnames}", main)
                text = re.sub(r"(?<!def )" + re.escape(ln) + r"(?!\d)", f"{ln} {pnames}", text)
        return text + main

    def defaults_text(self):
        """`emit_defaults`: the default values of the signature as definitions `F.dflt_<parameter>` (see the module docstring)"""
        if not self.p.get("emit_defaults"):
            return ""
        # the values are those of the live function object (the module is imported from the current source): a default such
        # as `Comparator.GreaterThan` is written relative to the class body and cannot be evaluated from the AST alone
        pairs = [(q.name, q.default) for q in inspect.signature(self.obj).parameters.values() if q.default is not inspect.Parameter.empty]
        out = []
        for pname, v in pairs:
            nm = mangle(pname)
            # a parameter the function re-binds is a local that `init` starts from a Lean parameter of another name
            par = nm if nm in self.ptypes else self.p.get("init", {}).get(nm)
            if par not in self.ptypes:
                continue
            ty = self.ptypes[par]
            if v is None:
                if not ty.startswith("Option "):
                    raise Untranslatable(f"default None of parameter '{pname}' of type {ty}")
                term = "none"
            elif isinstance(v, float) and ty in ("X Rat", "Num"):
                term = self.lit(v).term
                term = term[2:] if term.startswith("X.") else term.strip("()")
                term = "." + term.lstrip(".")
            elif isinstance(v, (bool, int, str, float)):
                e = self.lit(v)
                if not (e.ty == ty or (e.ty == "Nat" and ty == "Int")):
                    raise Untranslatable(f"default {v!r} of parameter '{pname}' of type {ty}")
                term = e.term
            else:
                e = self.const_object(v)
                if e.ty != ty:
                    raise Untranslatable(f"default {v!r} of parameter '{pname}' of type {ty}")
                term = e.term
            tps = [t for t in self.p.get("type_params", []) if re.search(r"(?<![\w.])" + re.escape(t) + r"(?![\w.])", ty)]
            impl = "".join(f" {{{t} : Type}} [Inhabited {t}]" for t in tps)
            out.append(f"def {self.name}.dflt_{nm}{impl} : {ty} := {term}")
        return ("\n-- the default values of the signature\n" + "\n".join(out) + "\n") if out else ""


def split_prod(t):
    """the two components of a Lean pair type `A × B` (top level), or None"""
    d = 0
    for i, ch in enumerate(t):
        if ch in "([":
            d += 1
        elif ch in ")]":
            d -= 1
        elif ch == "×" and d == 0:
            a, b = t[:i].strip(), t[i + 1:].strip()
            if "×" in b and split_prod(b) is not None:
                return None                    # a triple: not handled
            strip = lambda x: x[1:-1] if x.startswith("(") and x.endswith(")") and balanced(x[1:-1]) else x  # noqa: E731
            return strip(a), strip(b)
    return None


def prod_arg(t):
    return t if re.fullmatch(r"[\w.]+( [\w.]+)*", t) and "×" not in t else paren(t)


def is_yield_try(s):
    """`try: yield` with a `finally` block and nothing else"""
    return (len(s.body) == 1 and isinstance(s.body[0], ast.Expr) and isinstance(s.body[0].value, ast.Yield)
            and s.body[0].value.value is None and not s.handlers and not s.orelse and bool(s.finalbody))


def leading_walrus(test):
    """(the `x := e` node, the test with `x` in its place) when the test of an `if` evaluates an assignment expression
    before anything else - it is reached through left operands only -, else None"""
    import copy
    test = copy.deepcopy(test)
    holder, field, index, node = None, None, None, test
    while True:
        if isinstance(node, ast.NamedExpr):
            if holder is None or not isinstance(node.target, ast.Name):
                return None                   # the whole test is `x := e`: the older rule above
            name = ast.Name(id=node.target.id, ctx=ast.Load())
            if index is None:
                setattr(holder, field, name)
            else:
                getattr(holder, field)[index] = name
            return node, test
        if isinstance(node, ast.Compare):
            holder, field, index, node = node, "left", None, node.left
        elif isinstance(node, ast.BinOp):
            holder, field, index, node = node, "left", None, node.left
        elif isinstance(node, ast.BoolOp):
            holder, field, index, node = node, "values", 0, node.values[0]
        elif isinstance(node, ast.UnaryOp):
            holder, field, index, node = node, "operand", None, node.operand
        else:
            return None


def diverts(stmts):
    """every path through the statement list ends in raise / return / continue / break"""
    if not stmts:
        return False
    last = stmts[-1]
    if isinstance(last, (ast.Raise, ast.Return, ast.Continue, ast.Break)):
        return True
    if isinstance(last, ast.If):
        return diverts(last.body) and diverts(last.orelse)
    return False


def ind(s, n=2):
    return "\n".join((" " * n + ln) if ln else ln for ln in s.split("\n"))


def translate(profile, obj, glob):
    fn = Fn(profile, obj, glob)
    text = fn.translate()
    return text, fn.used_ext


def generate(profiles, files):
    """returns ({file: lean text}, {function name: {"ok": bool, "error": str?, "externals": [...]}})"""
    import importlib
    status, texts = {}, {}
    for fname, meta in files.items():
        parts = ["-- GENERATED by fv/pylean.py from the sources in /repo on every check run; do not edit.",
                 *[f"import {m}" for m in meta["imports"]], "",
                 "set_option linter.unusedVariables false", "", "namespace Gen.Code", ""]
        for prof in [p for p in profiles if p["file"] == fname]:
            key = f"code:{prof['module']}.{prof['object']}" + (f"#{prof['part']}" if prof.get("part") else "")
            try:
                mod = importlib.import_module(prof["module"])
                obj = mod
                for a in prof["object"].split("."):
                    obj = getattr(obj, a)
                obj = getattr(obj, "__func__", obj)
                obj = inspect.unwrap(obj)
                prof = dict(prof, source=f"{prof['module']}.{prof['object']}")
                try:
                    prof["where"] = f"{inspect.getsourcefile(obj).split('/')[-1]}:{inspect.getsourcelines(obj)[1]}"
                except Exception:  # noqa: BLE001
                    pass
                text, used = translate(prof, obj, vars(mod))
                parts.append(text)
                ext = "\n".join(f"   `{p}`  ↦  `{t}` : {ty}" for p, t, ty in used)
                parts.append(f"/- externals used by `{prof['name']}`:\n{ext}\n-/\n")
                prev = status.get(key)
                status[key] = {"ok": True if prev is None else bool(prev["ok"]), "externals": [list(u) for u in used]}
                if prev is not None and not prev["ok"]:
                    status[key]["error"] = prev.get("error")      # the same function translated under two profiles: both must work
            except Untranslatable as ex:
                status[key] = {"ok": False, "error": f"untranslatable: {ex}"}
                parts.append(f"-- {prof['name']}: UNTRANSLATABLE: {ex}\n")
            except Exception as ex:  # noqa: BLE001
                status[key] = {"ok": False, "error": f"{type(ex).__name__}: {ex}"}
                parts.append(f"-- {prof['name']}: translator error: {type(ex).__name__}: {ex}\n")
        parts.append("end Gen.Code")
        texts[fname + ".lean"] = "\n".join(parts) + "\n"
    return texts, status
