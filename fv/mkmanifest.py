"""Regenerates MANIFEST.json from the per-property modules (fv/props/cXX.py: PID, LEVEL_TEXT, LEVEL_NOTE, TECHNIQUE)."""
import importlib, json, os, sys
sys.path.insert(0, os.path.dirname(os.path.abspath(__file__)))
V = os.path.dirname(os.path.dirname(os.path.abspath(__file__)))
props = [json.loads(l) for l in open(os.path.join(V, "properties.jsonl"))]
checks, na = [], []
all_code = set()
for p in props:
    pid = p["id"]
    path = os.path.join(V, "fv", "props", pid.lower() + ".py")
    if not os.path.exists(path):
        na.append({"property_id": pid, "reason": "check not built yet in this round (planned: DESIGN.md section 8); nothing is claimed for it"})
        continue
    src = open(path).read()
    ns = {}
    # read the metadata constants without importing numpy/fuzzylite
    import ast
    for node in ast.parse(src).body:
        if isinstance(node, ast.Assign) and isinstance(node.targets[0], ast.Name) and node.targets[0].id in ("LEVEL_TEXT", "LEVEL_NOTE", "TECHNIQUE", "DESIGN_REF"):
            ns[node.targets[0].id] = ast.literal_eval(node.value)
        if isinstance(node, ast.AugAssign) and isinstance(node.target, ast.Name) and node.target.id == "TIE_A":
            import re
            ns["TIE_A"] = list(ns.get("TIE_A", [])) + re.findall(r'[\x27"](code:[^\x27"{]+)', ast.unparse(node.value))
            # keys built by a comprehension over method names: expand `f"code:...{m}" for m in (...)`
            mm = re.search(r'code:([\w.]+\.)\{(\w+)\}', ast.unparse(node.value))
            if mm:
                names = re.findall(r"[\x27\"](\w+)[\x27\"]", ast.unparse(node.value).split(" in ", 1)[1])
                ns["TIE_A"] += [f"code:{mm.group(1)}{n}" for n in names]
        if isinstance(node, ast.Assign) and isinstance(node.targets[0], ast.Name) and node.targets[0].id == "TIE_A":
            try:
                ns["TIE_A"] = eval(compile(ast.Expression(node.value), "<tie_a>", "eval"), {"__builtins__": {}}, {})
            except Exception:  # noqa: BLE001   (a list built from other module constants: only the literal code keys matter here)
                import re
                ns["TIE_A"] = re.findall(r'[\x27"](code:[^\x27"]+)[\x27"]', ast.unparse(node.value))
    code = sorted({k[len("code:fuzzylite."):] for k in ns.get("TIE_A", []) if k.startswith("code:")})
    if code:
        all_code.update({pid + ":" + c for c in code})
        ns["LEVEL_TEXT"] = (ns.get("LEVEL_TEXT", "") + "  Tie A for algorithms: the source of " + ", ".join(code) + " is translated to Lean on every "
                            "run (fv/pylean.py -> Gen/Code*.lean) and the theorems code_* of the Props file prove the regenerated definitions equal "
                            "to the model the other theorems are about, for all inputs (DESIGN.md section 0.7).")
        ns["TECHNIQUE"] = ns.get("TECHNIQUE", "") + " + Python-to-Lean translation of the algorithm (regenerated every run) proved equal to the model"
        ns["LEVEL_NOTE"] = (ns.get("LEVEL_NOTE", "") + "  Trusted for the code tie: the translator fv/pylean.py and the externals named in the generated files "
                            "(methods of other classes, look-ups, string / NumPy primitives), validated by the correspondence runs.")
    checks.append({
        "property_id": pid,
        "quick_cmd": f"./check {pid} --tier quick",
        "thorough_cmd": f"./check {pid} --tier thorough",
        "evidence_file": f"evidence/{pid}.json",
        "replay_cmd_template": f"./check {pid} --replay {{path}}",
        "engine": "flverif",
        "level_claimed": {"category": "proof", "text": ns.get("LEVEL_TEXT", ""), "design_ref": ns.get("DESIGN_REF", f"DESIGN.md section 8, {pid}")},
        "level_note": ns.get("LEVEL_NOTE", ""),
        "technique": ns.get("TECHNIQUE", "Lean 4 theorems about a model tied to the code by regeneration (tracer) and a correspondence check"),
    })
man = {
    "version": 1,
    "setup_cmd": "./setup.sh",
    "hooks": {"guard": "PYFUZZYLITE_VERIF", "enable": "no hooks are needed: the tracer rebinds `scalar` from outside and reads tables by introspection; checks import fuzzylite from /repo's working tree (PYTHONPATH=/repo)",
              "baseline_off_cmd": "cd /repo && /venv/bin/python -m pytest -ra -q -p no:cacheprovider --timeout=900 --continue-on-collection-errors",
              "source_commits": [], "add_only": True},
    "engines": [
        {"name": "flverif", "path": "lean", "serves_properties": [c["property_id"] for c in checks],
         "kind_free_text": "Lean 4 Lake library FlVerif: Spec (documented definitions), Op (code-shaped executable models), Gen (regenerated from /repo on every run), Props (property theorems), Driver.lean (line-protocol executable model at Q)"},
        {"name": "tracer", "path": "fv/tracer.py", "serves_properties": ["C03", "C04", "C05", "C11", "C06", "C17", "C14", "C15", "C20"],
         "kind_free_text": "symbolic tracer of the NumPy leaf functions + table introspection -> Lean source (Tie A)"},
        {"name": "pylean", "path": "fv/pylean.py", "serves_properties": sorted({c.split(":")[0] for c in all_code}),
         "kind_free_text": "translator from a subset of Python (AST of the current source) to Lean definitions in an exception monad; profiles in fv/profiles/; the generated definitions are proved equal to the hand-written models (Tie A for algorithms)"},
        {"name": "harness", "path": "fv", "serves_properties": [c["property_id"] for c in checks],
         "kind_free_text": "Python correspondence harness: generators, exact-rational comparison against the Lean driver, property oracles on the implementation, verdict / evidence writer (Tie B)"},
    ],
    "checks": checks,
    "not_applicable": na,
    "notes": "All checks decide by machine-checked proof in Lean 4 about a model tied to /repo on every run (DESIGN.md). known_findings.json lists genuine defects recorded rather than repaired.",
}
json.dump(man, open(os.path.join(V, "MANIFEST.json"), "w"), indent=1)
print(len(checks), "checks,", len(na), "not applicable")
